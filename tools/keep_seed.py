#!/venv/bin/python
"""Confirm a seeded change in a scratch worktree and keep it under /verif/seeded/.

usage: keep_seed.py <property> <k> [<detected_by> ...]
Reads /tmp/seed-out/<property>/patch<k>.diff, demo<k>.py, notes<k>.md.  In a fresh
worktree of /repo's HEAD (under /tmp, removed afterwards): the demo must pass
without the patch; with the patch the pinned test-suite must pass and the demo must
fail.  Only then is the change copied to /verif/seeded/<property>-<k>/.
"""
import json, os, shutil, subprocess, sys, re

prop, k = sys.argv[1], sys.argv[2]
detected_by = sys.argv[3:] or [prop]
src = os.environ.get("SEED_SRC") or "/tmp/seed-out/%s" % prop
wt = "/tmp/wt-keep-%s-%s" % (prop, k)
patch = "%s/patch%s.diff" % (src, k)
demo = "%s/demo%s.py" % (src, k)


def run(cmd, cwd=None, env=None):
    p = subprocess.run(cmd, shell=True, cwd=cwd, env=env, stdout=subprocess.PIPE, stderr=subprocess.STDOUT, text=True)
    return p.returncode, p.stdout


subprocess.run("git -C /repo worktree remove --force %s 2>/dev/null; git -C /repo worktree add -q --detach %s HEAD" % (wt, wt), shell=True)
ok = False
record = {}
try:
    env = dict(os.environ, PYTHONPATH=wt)
    rc0, out0 = run("/venv/bin/python %s" % demo, cwd=wt, env=env)
    rc, out = run("git apply --3way %s || git apply %s" % (patch, patch), cwd=wt)
    if rc != 0:
        print("PATCH DOES NOT APPLY", out[-500:]); sys.exit(1)
    _, newdiff = run("git diff HEAD", cwd=wt)
    rct, outt = run("/venv/bin/python -m pytest -q -p no:cacheprovider -x 2>&1 | tail -3", cwd=wt)
    m = re.search(r"(\d+) passed", outt)
    passed = int(m.group(1)) if m else 0
    failed = "failed" in outt or "error" in outt.lower()
    rc1, out1 = run("/venv/bin/python %s" % demo, cwd=wt, env=env)
    record = {"demo_without_patch_rc": rc0, "suite_with_patch": outt.strip().splitlines()[-1] if outt.strip() else "",
              "demo_with_patch_rc": rc1, "demo_with_patch_tail": out1.strip().splitlines()[-3:]}
    ok = rc0 == 0 and passed >= 153 and not failed and rc1 != 0
    print(json.dumps(record, indent=1))
    if ok:
        dst = "/verif/seeded/%s-%s" % (prop, os.environ.get("SEED_DST_K", k))
        os.makedirs(dst, exist_ok=True)
        with open(dst + "/patch.diff", "w") as f:
            f.write(newdiff)
        shutil.copy(demo, dst + "/demo.py")
        notes = open("%s/notes%s.md" % (src, k)).read() if os.path.exists("%s/notes%s.md" % (src, k)) else ""
        head = subprocess.run("git -C /repo rev-parse --short HEAD", shell=True, stdout=subprocess.PIPE, text=True).stdout.strip()
        meta = {
            "property": prop,
            "detected_by": detected_by,
            "source": "independent sub-agent given only the property text and a scratch worktree",
            "base_commit": head,
            "needs_to_manifest": notes.strip(),
            "confirmed": {
                "how": "tools/keep_seed.py in a scratch worktree of /repo HEAD under /tmp (removed afterwards)",
                "demo_without_patch": "exit %d" % rc0,
                "pinned_suite_with_patch": record["suite_with_patch"],
                "demo_with_patch": "exit %d" % rc1,
                "demo_output_tail": record["demo_with_patch_tail"],
            },
            "run_demo": "cd <worktree with patch applied> && PYTHONPATH=$PWD /venv/bin/python /verif/seeded/%s-%s/demo.py" % (prop, os.environ.get("SEED_DST_K", k)),
        }
        with open(dst + "/meta.json", "w") as f:
            json.dump(meta, f, indent=1)
        print("KEPT", dst)
    else:
        print("NOT KEPT", prop, k)
finally:
    subprocess.run("git -C /repo worktree remove --force %s" % wt, shell=True)
sys.exit(0 if ok else 1)
