#!/venv/bin/python
"""Write the prompt given to an independent sub-agent that seeds a property-breaking change.
The prompt contains only the property text and the scratch worktree -- nothing from /verif."""
import json, sys, os
props = {json.loads(l)['id']: json.loads(l) for l in open('/verif/properties.jsonl')}
tmpl = '''You are helping to evaluate a verification tool for the Python library "lena" (ynikitenko/lena, a pure-Python data-analysis framework of lazy dataflow sequences). Your job is to play the role of a developer who introduces a subtle regression.

You have your own scratch git worktree of the library at WT (work ONLY there; never touch /repo or /verif, and do not read anything under /verif). The interpreter is /venv/bin/python (lena is importable from the worktree if you run with cwd=WT or PYTHONPATH=WT). The existing test suite is run with:
    cd WT && /venv/bin/python -m pytest -q -p no:cacheprovider
and currently passes (153 passed).

Here is a semantic property that the library is supposed to satisfy:

  Title: TITLE
  Statement: STATEMENT
  Quantified over: QUANT

Task: produce TWO independent changes to the library source (under WT/lena/ only, no test changes), each of which BREAKS this property while (a) the code still compiles/imports and (b) the whole existing test suite still passes. The two changes should touch different functions or mechanisms. Prefer realistic regressions a developer could plausibly make (an optimisation, a refactoring slip, a removed copy, a reordered statement, a wrong guard, a changed default...), and prefer changes that need something specific to manifest (a particular interleaving or order of calls, a fault or early stop at a particular point, a multi-step sequence of operations, an unusual input, or two cooperating sites that each look fine alone) rather than ones that ordinary use would expose at once. Keep each change small (a few lines).

For each change k in (1, 2) deliver, in OUT/:
  - patch<k>.diff : the output of `git -C WT diff` for that change alone (relative to the worktree's HEAD; make sure it applies with `git apply` to a clean checkout). Reset the worktree (`git -C WT checkout -- .`) between the two changes so that each patch is independent.
  - demo<k>.py : a small standalone program (runnable as `/venv/bin/python OUT/demo<k>.py` with cwd=WT) that exits 0 on the unmodified worktree and fails (non-zero exit, with a clear message) when patch<k> is applied. It must demonstrate the violation of the property statement above, not some unrelated difference.
  - notes<k>.md : 5-10 lines: what the change is, why it breaks the property, and what specific circumstances it needs in order to manifest.

Before finishing, verify for each patch yourself: with the patch applied the full test suite passes and the demo fails; with the patch reverted the demo passes. Leave the worktree clean (git checkout -- .) at the end. In your final message, report for each patch: files/functions touched, test-suite result, demo result with and without the patch.'''
# usage: seed_prompt.py [--round N] <property> ...   (round 1: patches 1,2; round 2: patches 3,4; ...)
args = sys.argv[1:]
rnd = 1
if args and args[0] == '--round':
    rnd = int(args[1]); args = args[2:]
for pid in args:
    p = props[pid]
    tag = pid if rnd == 1 else '%sr%d' % (pid, rnd)
    out = '/tmp/seed-out/' + tag
    os.makedirs(out, exist_ok=True)
    t = (tmpl.replace('WT', '/tmp/wt-' + tag).replace('OUT', out).replace('TITLE', p['title'])
         .replace('STATEMENT', p['statement']).replace('QUANT', p['quantifier']['text']))
    if rnd > 1:
        # earlier rounds' touched functions, so that the new changes use other mechanisms
        prev = []
        import glob
        for m in sorted(glob.glob('/verif/seeded/%s-*/meta.json' % pid)):
            first = (json.load(open(m)).get('needs_to_manifest') or '').strip().splitlines()
            if first:
                prev.append(first[0].lstrip('# ').strip())
        if rnd >= 3:
            mech = '; '.join('%s (%s)' % (m['name'], m['where']) for m in p['anchors'].get('mechanism', []))
            t += ('\n\nThe property is anchored in these mechanisms of the code base: ' + mech + '. Several of them have not been '
                  'exercised by earlier changes; prefer those, and prefer a change whose effect needs two places of the code to '
                  'cooperate (e.g. a helper whose contract is changed subtly while its callers still rely on the old contract), '
                  'or a state that survives from an earlier call.')
        if rnd >= 4:
            t += ('\n\nFor this round make the two changes of two different KINDS: (A) one confined to a helper that several elements '
                  'share (for example in lena/flow/functions.py, lena/context/functions.py, lena/core/functions.py, '
                  'lena/core/check_sequence_type.py, lena/math/meshes.py, lena/structures/hist_functions.py, or a private helper '
                  'method of the class) so that the property breaks through its callers; (B) one that keeps the local meaning of '
                  'every line but changes WHEN or HOW OFTEN something happens: a statement moved across a loop, a try, a yield or a '
                  'condition; something hoisted out of or sunk into a loop; a cache or memo added; an early exit added or removed; a '
                  'default changed.')
        if rnd >= 7:
            t = t.replace('For this round make the two changes of two different KINDS: (A)', 'In earlier rounds the changes were of the kinds (A)')
            t += ('\n\nEarlier rounds also used the kinds (C) edge of the domain / reuse of an element and (D) two cooperating places. '
                  'For THIS round use two further kinds: (E) a change that is invisible for the element on its own and shows only when two '
                  'framework features are combined (the element inside a Split inside a Source, inside a Zip or SplitIntoBins, with '
                  'copy_buf=False, under FillRequest with reset, after Cache, with a Context/OrderedDict context, with a subclass of a '
                  'framework class, driven by fill instead of run); (F) a change in validation or error discipline that the property '
                  'covers: a check moved after state has been built, a guard narrowed or widened by one case, a wrong comparison '
                  'operator at a boundary (< vs <=, off by one), a default taken from the wrong place, an exception converted or '
                  'swallowed on one path only.')
        if rnd >= 8:
            t = t.replace('For THIS round use two further kinds: (E)', 'Round 7 used the kinds (E)')
            t += ('\n\nFor THIS round (round 8) use two kinds not used before: (G) a NEAR-EQUIVALENT SUBSTITUTION -- one library call, '
                  'operator or idiom replaced by another that agrees on ordinary inputs and differs on a specific one (copy.copy for '
                  'deepcopy or dict(d) for a nested dict, == for is or the reverse, isinstance for an exact type test or the reverse, '
                  'dict.update for a recursive update, d.get(k) or default for an "in" test, sorted/set for insertion order, '
                  'zip for an index loop when lengths differ, any/all for an explicit loop with an early exit, an exception class '
                  'replaced by its parent or child, str.split/partition variants, >= for >, floor division, a generator made a list '
                  'or a list made a generator); (H) a LESS-TRAVELLED ENTRY POINT OR OPTION -- break the property only for a keyword '
                  'argument, an optional parameter, an alternative constructor form, a second method of the same class (fill vs run, '
                  'request vs compute, __call__ vs run, reset, __eq__, __repr__, __deepcopy__, _set_context) or a branch taken only '
                  'for one of the documented input forms, leaving the main path exactly as it is.')
        if rnd >= 6 and rnd < 7:
            t = t.replace('For this round make the two changes of two different KINDS: (A)', 'In earlier rounds the changes were of the kinds (A)')
            t += ('\n\nFor THIS round use two other kinds instead: (C) a change that only shows on an edge of the quantified domain or on '
                  'reuse: the empty input, a single value, the second use of the same element object (a second run, a run after an '
                  'abandoned or failed run, after reset), an exception raised by a user element half-way, a subclass or an object '
                  'with unusual but legal attributes; (D) a change that is spread over TWO places (two functions, possibly two '
                  'files) each of which is harmless alone and locally plausible, but which together break the property -- deliver '
                  'both places in the one patch.')
        if rnd >= 5:
            import glob as _g
            touched = set()
            for m in _g.glob('/verif/seeded/%s-*/patch.diff' % pid):
                for ln in open(m):
                    if ln.startswith('+++ b/'):
                        touched.add(ln[6:].strip())
            t += ('\n\nFiles that earlier changes for this property already touched: ' + ', '.join(sorted(touched)) +
                  '. If the property can be broken through a file NOT in this list (a collaborator, a helper, a base class, an '
                  'element that is used together with these), prefer that; otherwise pick functions in these files that the earlier '
                  'changes did not use.')
        if prev:
            t += ('\n\nEarlier changes made by other developers for this exercise were: '
                  + ' | '.join(prev) + ' -- choose different functions / mechanisms than those.')
    open(out + '/prompt.txt', 'w').write(t)
    print(out + '/prompt.txt')
