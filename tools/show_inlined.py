#!/venv/bin/python
"""show_inlined.py <patch> <module> <qualname>: the function as the rules see it after normalisation"""
import sys, ast
sys.path.insert(0, "/verif")
from lenastatic.loader import Tree
from lenastatic.selftest.runner import apply_patch_text
ov = apply_patch_text("/repo", open(sys.argv[1]).read()) if sys.argv[1] != "-" else None
t = Tree("/repo", ov)
m = t.module(sys.argv[2])
print("inlined:", m.inlined)
print(ast.unparse(m.get(sys.argv[3])))
