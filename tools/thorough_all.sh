#!/bin/bash
# Run the thorough tier of every property against /repo (evidence is rewritten), then report timing, verdicts and
# any variant whose anchor no longer applies to the tree (must be none on the pinned tree).
cd /verif
for P in C01 C02 C03 C04 C05 C06 C07 C08 C09 C10 C11 C12 C13 C14 C15 C16 C17 C18 C19 C20; do
  s=$(date +%s.%N)
  out=$(/venv/bin/python -m lenastatic check $P --tier thorough 2>&1 | grep -v WARNING | tail -1)
  rc=$?
  e=$(date +%s.%N)
  sk=$(/venv/bin/python -c "
import json
d=json.load(open('/verif/evidence/$P.json'))
st=d['coverage'].get('selftest',{})
print('skipped=%s mutants=%s/%s under=%s/%s undecided=%d deep_undecided=%d' % (st.get('skipped_anchor_gone'), st.get('mutants_detected'), st.get('mutants_total'), st.get('mutants_under_twins_detected'), st.get('mutants_under_twins_total'), len(st.get('mutants_under_twins_undecided') or []), len(st.get('deep_twins_undecided') or [])))" 2>/dev/null)
  printf "%s %5.1fs %s | %s\n" $P $(echo "$e - $s" | bc) "$out" "$sk"
done
