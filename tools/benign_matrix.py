#!/venv/bin/python
"""What do the 20 checks say about every kept behaviour-preserving change?  usage: benign_matrix.py [-v] [name ...]"""
import glob, os, sys
sys.path.insert(0, "/verif"); sys.path.insert(0, "/verif/tools")
from concurrent.futures import ProcessPoolExecutor
from lenastatic.cli import ALL
import try_patch
args = [a for a in sys.argv[1:] if not a.startswith("-")]
names = sorted(os.path.basename(os.path.dirname(p)) for p in glob.glob("/verif/benign/*/patch.diff"))
if args:
    names = [n for n in names if n in args]
tasks = [("/verif/benign/%s/patch.diff" % n, p) for n in names for p in ALL]
with ProcessPoolExecutor(16) as ex:
    res = list(ex.map(try_patch.one, tasks, chunksize=4))
tot = {"silent": 0, "VIOLATION": 0, "UNKNOWN": 0}
for i, n in enumerate(names):
    rows = res[i * len(ALL):(i + 1) * len(ALL)]
    viol = [(p, l) for p, st, l in rows if st == "VIOLATION"]
    unk = [(p, l) for p, st, l in rows if st == "UNKNOWN"]
    st = "VIOLATION" if viol else ("UNKNOWN" if unk else "silent")
    tot[st] += 1
    if st != "silent":
        print("%-10s %-9s %s" % (n, st, "; ".join("%s: %s" % (p, l[0][:150 if "-v" not in sys.argv else 600]) for p, l in (viol or unk))))
print(tot)
