#!/venv/bin/python
"""Developer helper: which findings/unknowns appear under a generic twin?  usage: twin_debug.py <prop> <reformat|rename|noop> [--dump relpath]"""
import sys
sys.path.insert(0, "/verif")
from lenastatic.cli import analyse
from lenastatic.selftest.runner import _transform_tree
prop, how = sys.argv[1], sys.argv[2]
ov = _transform_tree("/repo", how)
if "--dump" in sys.argv:
    print(ov[sys.argv[sys.argv.index("--dump") + 1]]); sys.exit()
base = analyse(prop)
ctx = analyse(prop, overlay=ov)
bk = {f.key() for f in base.findings}
for f in ctx.findings:
    if f.key() not in bk:
        print("NEW:", f.line()[:400])
for f in base.findings:
    if f.key() not in {g.key() for g in ctx.findings}:
        print("LOST:", f.line()[:200])
for u in ctx.unknowns[len(base.unknowns):]:
    print("UNKNOWN:", u[0], u[1][:300])
from collections import Counter
cb = Counter((o[0], o[2]) for o in base.obligations)
ct = Counter((o[0], o[2]) for o in ctx.obligations)
for k in sorted(set(cb) | set(ct)):
    if cb[k] != ct[k]:
        print("OBLIGATIONS", k, cb[k], "->", ct[k])
print(len(base.obligations), "->", len(ctx.obligations), "obligations")
