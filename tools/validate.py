#!/usr/bin/env python3-vt
"""Validate MANIFEST.json and every evidence file against the schemas (developer helper)."""
import glob, json, sys
import jsonschema
ok = True
m = json.load(open('/verif/MANIFEST.json'))
jsonschema.validate(m, json.load(open('/root/.vp/MANIFEST.schema.json')))
es = json.load(open('/root/.vp/EVIDENCE.schema.json'))
for c in m['checks']:
    p = c['evidence_file']
    try:
        jsonschema.validate(json.load(open(p)), es)
    except Exception as e:
        ok = False
        print("INVALID", p, str(e)[:300])
print("manifest valid; %d checks; evidence %s" % (len(m['checks']), "valid" if ok else "INVALID"))
sys.exit(0 if ok else 1)
