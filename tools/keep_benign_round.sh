#!/bin/bash
# usage: keep_benign_round.sh <prop> <round> -- confirm and keep the three behaviour-preserving changes of a round, remove its worktree
P="$1"; R="$2"
for k in 1 2 3; do /venv/bin/python /verif/tools/keep_benign.py $P $R $k 2>&1 | grep -v WARN | tail -4; done
git -C /repo worktree remove --force /tmp/wt-B${P}r${R} 2>/dev/null
