#!/bin/bash
# usage: try_seed.sh <patch.diff> <prop> [<prop>...]   -- apply a seeded change to /repo, run the quick checks, undo it
patch="$1"; shift
cd /repo || exit 2
if ! git diff --quiet; then echo "/repo not clean"; exit 2; fi
git apply "$patch" || { echo "patch does not apply"; exit 2; }
cd /verif
for p in "$@"; do
  /venv/bin/python -m lenastatic check "$p" --tier quick --no-evidence 2>&1 | grep -E "finding:|VIOLATION|ANALYSIS-ERROR|HOLDS|UNKNOWN" | cut -c1-400
done
git -C /repo checkout -- . 
