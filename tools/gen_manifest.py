#!/venv/bin/python
"""Regenerate /verif/MANIFEST.json from the rule modules (metadata lives next to the rules)."""
import importlib
import json
import os
import sys

VERIF = os.path.dirname(os.path.dirname(os.path.abspath(__file__)))
sys.path.insert(0, VERIF)

ALL = ["C%02d" % i for i in range(1, 21)]
NA = {}

checks = []
not_applicable = []
served = []
for pid in ALL:
    if pid in NA:
        not_applicable.append({"property_id": pid, "reason": NA[pid]})
        continue
    try:
        mod = importlib.import_module("lenastatic.rules." + pid.lower())
    except ImportError:
        not_applicable.append({"property_id": pid, "reason": "static rules for this property are designed "
                               "(DESIGN.md section 4) but not built yet; not claimed until they are"})
        continue
    served.append(pid)
    checks.append({
        "property_id": pid,
        "quick_cmd": "/venv/bin/python -m lenastatic check %s --tier quick" % pid,
        "thorough_cmd": "/venv/bin/python -m lenastatic check %s --tier thorough" % pid,
        "evidence_file": "/verif/evidence/%s.json" % pid,
        "replay_cmd_template": "/venv/bin/python -m lenastatic explain {path}",
        "engine": "lenastatic",
        "level_claimed": {
            "category": "other",
            "text": mod.EXPLANATION,
            "design_ref": "DESIGN.md section 4, %s" % pid,
        },
        "level_note": getattr(mod, "LEVEL_NOTE",
                              "Trusted base: CPython ast/symtable; the idiom tables of the rule module; library "
                              "semantics listed in DESIGN.md section 10. Decides shape clauses only (necessary "
                              "conditions), never the value clauses listed as 'Not decided'."),
        "technique": getattr(mod, "TECHNIQUE", "static analysis: custom AST/path/dataflow rules specific to lena"),
    })

manifest = {
    "version": 1,
    "setup_cmd": "/venv/bin/python -m compileall -q lenastatic",
    "hooks": {
        "guard": "LENA_VERIF",
        "enable": "no hooks: the checks read /repo's source with ast/symtable and never import or run it",
        "baseline_off_cmd": "cd /repo && /venv/bin/python -m pytest -ra -q -p no:cacheprovider --timeout=900 "
                            "--continue-on-collection-errors",
        "source_commits": [],
        "add_only": True,
    },
    "engines": [{
        "name": "lenastatic",
        "path": "/verif/lenastatic",
        "serves_properties": served,
        "kind_free_text": "repository-specific static analyser (stdlib ast + symtable): name/call resolution, static "
                          "import simulation, per-function path enumeration with one loop unrolling, "
                          "alias/freshness taint, kind abstraction, sibling comparison; three-valued outcome "
                          "HOLDS / VIOLATION / ANALYSIS-ERROR",
    }],
    "checks": checks,
    "not_applicable": not_applicable,
    "notes": "Technique family: static analysis only. Every check parses /repo/lena/**/*.py of the current working "
             "tree on every run; no check imports lena, runs its tests or calls a solver. Thorough tier = quick rules "
             "+ all entry points (C20) + in-memory mutants / silent twins / seeded patches analysed statically. "
             "Known genuine defects that are not repaired are listed in /verif/known_findings.json.",
}
with open(os.path.join(VERIF, "MANIFEST.json"), "w") as f:
    json.dump(manifest, f, indent=1)
    f.write("\n")
print("checks:", [c["property_id"] for c in checks])
print("not_applicable:", [c["property_id"] for c in not_applicable])
