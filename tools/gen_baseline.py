#!/venv/bin/python
"""Freeze the qualified names of every function of the reference tree (/repo at the commit the rule instances were confirmed on)
into lenastatic/baseline_functions.json.  lenastatic.normalize inlines only private helpers that are NOT in this table.
Run by hand when the reference moves (after a fix: commit in /repo that adds a function); never run by a check."""
import ast, json, os, sys
sys.path.insert(0, "/verif")
from lenastatic import astutil as A
out = {}
root = "/repo"
for dp, dns, fns in os.walk(os.path.join(root, "lena")):
    dns[:] = sorted(d for d in dns if d != "__pycache__")
    for fn in sorted(fns):
        if not fn.endswith(".py"):
            continue
        p = os.path.join(dp, fn)
        rel = os.path.relpath(p, root)
        name = rel[:-3].replace(os.sep, ".")
        if name.endswith(".__init__"):
            name = name[:-9]
        tree = ast.parse(open(p).read())
        A.set_parents(tree, None)
        out[name] = sorted({A.qualname(n) for n in ast.walk(tree) if isinstance(n, (ast.FunctionDef, ast.AsyncFunctionDef))})
json.dump(out, open("/verif/lenastatic/baseline_functions.json", "w"), indent=0, sort_keys=True)
print(sum(len(v) for v in out.values()), "functions in", len(out), "modules")
