#!/venv/bin/python
"""What do the 20 checks say about a patch?  (in-memory overlay over /repo; /repo is not touched)

usage: try_patch.py <patch.diff> [<prop> ...]
prints, per property that changes its verdict: NEW findings and NEW unknowns relative to the clean tree.
exit 0 = every check silent, 1 = some check reports a violation, 2 = only unknowns
"""
import sys
sys.path.insert(0, "/verif")
from concurrent.futures import ProcessPoolExecutor
from lenastatic.cli import analyse, ALL
from lenastatic.selftest.runner import apply_patch_text


def one(args):
    patch, prop = args
    with open(patch) as f:
        ov = apply_patch_text("/repo", f.read())
    if ov is None:
        return prop, "noapply", []
    base = analyse(prop)
    bk = {f.key() for f in base.findings}
    ctx = analyse(prop, overlay=ov)
    new = [f for f in ctx.findings if f.key() not in bk]
    lost = bk - {f.key() for f in ctx.findings}
    bu = {u for u in base.unknowns}
    unk = [u for u in ctx.unknowns if u not in bu]
    out = ["BASE-UNKNOWN (the clean tree is undecided!) %s %s" % (u[0], u[1][:300]) for u in base.unknowns]
    out += ["VIOLATION " + f.line()[:420] for f in new] + ["UNKNOWN %s %s" % (u[0], u[1][:420]) for u in unk]
    out += ["LOST-FINDING %s" % (k,) for k in lost]
    return prop, ("VIOLATION" if new else ("UNKNOWN" if (unk or base.unknowns) else ("LOST" if lost else "-"))), out


def run(patch, props=None, quiet=False):
    props = props or ALL
    with ProcessPoolExecutor(16) as ex:
        res = list(ex.map(one, [(patch, p) for p in props]))
    rc = 0
    for prop, st, lines in res:
        if st == "noapply":
            if not quiet:
                print("patch does not apply")
            return 3, res
        if st != "-" and not quiet:
            for ln in lines:
                print(prop, ln)
        if st == "VIOLATION":
            rc = 1
        elif st == "UNKNOWN" and rc == 0:
            rc = 2
    if rc == 0 and not quiet:
        print("all silent")
    return rc, res


if __name__ == "__main__":
    rc, _ = run(sys.argv[1], sys.argv[2:] or None)
    sys.exit(rc)
