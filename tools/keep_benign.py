#!/venv/bin/python
"""Confirm a behaviour-preserving change in a scratch worktree and keep it under /verif/benign/.

usage: keep_benign.py <property> <round> <k>
Reads /tmp/seed-out/B<property>r<round>/patch<k>.diff, demo<k>.py, notes<k>.md.  In a fresh worktree of /repo's HEAD
(under /tmp, removed afterwards): the demo must pass without the patch; with the patch the pinned test suite AND the
demo must pass.  The verdict of the 20 checks (tools/try_patch.py) is recorded in meta.json; a VIOLATION is a candidate
false alarm that has to be triaged by reading (either the change is not behaviour-preserving after all -- then it is not
kept as benign -- or the rule is wrong).
"""
import json, os, shutil, subprocess, sys, re
sys.path.insert(0, "/verif/tools")
import try_patch

prop, rnd, k = sys.argv[1], sys.argv[2], sys.argv[3]
src = "/tmp/seed-out/B%sr%s" % (prop, rnd)
wt = "/tmp/wt-keepb-%s-%s-%s" % (prop, rnd, k)
patch = "%s/patch%s.diff" % (src, k)
demo = "%s/demo%s.py" % (src, k)
name = "%s-r%s-%s" % (prop, rnd, k)


def run(cmd, cwd=None, env=None):
    p = subprocess.run(cmd, shell=True, cwd=cwd, env=env, stdout=subprocess.PIPE, stderr=subprocess.STDOUT, text=True)
    return p.returncode, p.stdout


if not os.path.exists(patch):
    print(name, "NO PATCH"); sys.exit(1)
subprocess.run("git -C /repo worktree remove --force %s 2>/dev/null; git -C /repo worktree add -q --detach %s HEAD" % (wt, wt), shell=True)
try:
    env = dict(os.environ, PYTHONPATH=wt)
    rc0, out0 = run("timeout 300 /venv/bin/python %s" % demo, cwd=wt, env=env)
    rc, out = run("git apply %s" % patch, cwd=wt)
    if rc != 0:
        print(name, "PATCH DOES NOT APPLY", out[-300:]); sys.exit(1)
    _, newdiff = run("git diff HEAD", cwd=wt)
    rct, outt = run("/venv/bin/python -m pytest -q -p no:cacheprovider 2>&1 | tail -3", cwd=wt)
    m = re.search(r"(\d+) passed", outt)
    passed = int(m.group(1)) if m else 0
    failed = "failed" in outt or "error" in outt.lower()
    rc1, out1 = run("timeout 300 /venv/bin/python %s" % demo, cwd=wt, env=env)
    ok = rc0 == 0 and rc1 == 0 and passed >= 153 and not failed
    if not ok:
        print(name, "NOT CONFIRMED demo0=%d demo1=%d suite=%s" % (rc0, rc1, outt.strip().splitlines()[-1:]))
        sys.exit(1)
    dst = "/verif/benign/" + name
    os.makedirs(dst, exist_ok=True)
    with open(dst + "/patch.diff", "w") as f:
        f.write(newdiff)
    shutil.copy(demo, dst + "/demo.py")
    verdict_rc, res = try_patch.run(dst + "/patch.diff", quiet=True)
    notes = open("%s/notes%s.md" % (src, k)).read() if os.path.exists("%s/notes%s.md" % (src, k)) else ""
    head = subprocess.run("git -C /repo rev-parse --short HEAD", shell=True, stdout=subprocess.PIPE, text=True).stdout.strip()
    meta = {
        "kind": "behaviour-preserving change (the property still holds)",
        "property": prop,
        "source": "independent sub-agent given only the property text, its anchors and a scratch worktree",
        "base_commit": head,
        "why_preserving": notes.strip(),
        "confirmed": {"how": "tools/keep_benign.py in a scratch worktree of /repo HEAD under /tmp (removed afterwards)",
                      "demo_without_patch": "exit %d" % rc0, "suite_with_patch": outt.strip().splitlines()[-1],
                      "demo_with_patch": "exit %d" % rc1},
        "checks_at_keep_time": {p: st for p, st, _ in res if st != "-"},
    }
    json.dump(meta, open(dst + "/meta.json", "w"), indent=1)
    print(name, "KEPT", {0: "all silent", 1: "VIOLATION", 2: "unknown", 3: "noapply"}[verdict_rc])
    for p, st, lines in res:
        for ln in lines:
            print("   ", p, ln[:300])
finally:
    subprocess.run("git -C /repo worktree remove --force %s" % wt, shell=True)
