#!/venv/bin/python
"""Write the prompt given to an independent sub-agent that makes BEHAVIOUR-PRESERVING changes
(the dual of tools/seed_prompt.py): realistic maintenance edits under which the property still holds.
A check that reports VIOLATION on one of them is a false alarm.  The prompt contains only the property
text and its anchors (both from the given properties.jsonl) and the scratch worktree -- nothing from /verif.

usage: benign_prompt.py [--round N] <property> ..."""
import json, sys, os
props = {json.loads(l)['id']: json.loads(l) for l in open('/verif/properties.jsonl')}
tmpl = '''You are helping to evaluate a verification tool for the Python library "lena" (ynikitenko/lena, a pure-Python data-analysis framework of lazy dataflow sequences). Your job is to play the role of a careful maintainer who refactors code WITHOUT changing its behaviour.

You have your own scratch git worktree of the library at WT (work ONLY there; never touch /repo or /verif, and do not read anything under /verif). The interpreter is /venv/bin/python (lena is importable from the worktree if you run with cwd=WT or PYTHONPATH=WT). The existing test suite is run with:
    cd WT && /venv/bin/python -m pytest -q -p no:cacheprovider
and currently passes (153 passed).

Here is a semantic property that the library satisfies and must KEEP satisfying:

  Title: TITLE
  Statement: STATEMENT
  Quantified over: QUANT

It is implemented by these mechanisms of the code base: MECH.

Task: produce THREE independent changes to the library source (under WT/lena/ only, no test changes). Each change must edit the code of the mechanisms listed above (the functions themselves, not only comments or docstrings) and must be BEHAVIOUR-PRESERVING for every input, call order and history: the property above, and every other documented behaviour of the touched functions, holds after the change exactly as before -- same results, same exceptions, same laziness (nothing is consumed earlier or later than before), same side effects, same aliasing/copying of objects handed to or from user code. They should be the kind of edit a maintainer really makes and a reviewer would accept as "no functional change":
  KINDS
Use a different kind for each of the three changes, make them in different functions where the property has several, and make each a real edit of 5-30 changed lines rather than a token change. Do NOT fix bugs, do NOT change behaviour on odd inputs, do NOT change what is copied or when something is evaluated; if you are not sure that an edit preserves behaviour in every case, choose another edit.

For each change k in (1, 2, 3) deliver, in OUT/:
  - patch<k>.diff : the output of `git -C WT diff` for that change alone (relative to the worktree's HEAD; it must apply with `git apply` to a clean checkout). Reset the worktree (`git -C WT checkout -- .`) between the changes so that each patch is independent.
  - demo<k>.py : a small standalone program (runnable as `/venv/bin/python OUT/demo<k>.py` with cwd=WT) that exercises the touched code through the property above on a range of inputs (including edge cases: empty input, one value, reuse of the element, odd but legal arguments) and exits 0 BOTH on the unmodified worktree and with patch<k> applied.
  - notes<k>.md : 5-10 lines: what the edit is, which kind, and the argument why behaviour is preserved on every path.

Before finishing, verify for each patch yourself: with the patch applied the full test suite passes and the demo passes; with the patch reverted the demo passes. Leave the worktree clean (git checkout -- .) at the end. Keep your final message short: for each patch one line with files/functions touched and the kind of edit.'''

KINDS = {
    1: '''- extract a block into a private helper (function or method), or inline a small private helper into its only callers;
  - restructure control flow without changing what happens on any path: invert an if/else, replace nested ifs by early returns/continues (or the reverse), merge or split conditions, replace a flag variable by structured control flow;
  - rewrite a loop as a comprehension / generator expression or the reverse WHERE laziness and evaluation order stay the same, replace manual index loops by enumerate/zip, replace try/except KeyError by an explicit `in` test where exactly equivalent (or the reverse);
  - rename locals, private attributes or private helpers consistently; introduce explaining variables; reorder statements that are really independent;
  - modernise: `super().__init__()`, f-strings or `.format` for messages with identical resulting text, `isinstance(x, (A, B))` for chained isinstance, remove Python-2 compatibility shims that are dead under Python 3;
  - add assertions or type checks that can never fire for states the code can reach, add logging-free bookkeeping that nothing reads, cache an attribute lookup in a local inside a function.''',
    2: '''- move a method body into a module-level private function (or the reverse) and call it; introduce a small private base-class/mixin method shared by two sibling classes whose code is duplicated; split a long function into two or three private steps;
  - replace a hand-written loop by an equivalent standard-library call (itertools, functools, operator, collections, dict/list methods) or the reverse, where the order of evaluation, laziness and exceptions are exactly the same;
  - change data representation locally without observable difference: a tuple for a constant list, a local dict for an if/elif chain over constants, `dict.get`/`setdefault` for an explicit test, unpacking for indexing;
  - normalise conditions: De Morgan, swapped comparison operands (`a < b` as `b > a`), `not x in y` as `x not in y`, `len(x) == 0` kept as is but `if not len(x)` rewritten, chained comparisons;
  - hoist a loop-invariant pure expression out of a loop, or sink a computation to the only branch that uses it, where it is pure and cannot raise;
  - convert `yield` loops into `yield from` where equivalent (or the reverse), wrap a resource in a `with` where an explicit close existed on every path.''',
}
args = sys.argv[1:]
rnd = 1
if args and args[0] == '--round':
    rnd = int(args[1]); args = args[2:]
for pid in args:
    p = props[pid]
    tag = 'B%sr%d' % (pid, rnd)
    out = '/tmp/seed-out/' + tag
    os.makedirs(out, exist_ok=True)
    mech = '; '.join('%s (%s)' % (m['name'], m['where']) for m in p['anchors'].get('mechanism', []))
    t = (tmpl.replace('WT', '/tmp/wt-' + tag).replace('OUT', out).replace('TITLE', p['title'])
         .replace('STATEMENT', p['statement']).replace('QUANT', p['quantifier']['text']).replace('MECH', mech)
         .replace('KINDS', KINDS[2 if rnd % 2 == 0 else 1]))
    open(out + '/prompt.txt', 'w').write(t)
    print(out + '/prompt.txt')
