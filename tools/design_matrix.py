#!/venv/bin/python
"""Regenerate the generated part of DESIGN.md (between the AUTOGEN markers):
the repairs / known findings table from known_findings.json and the detection
matrix of the seeded changes from seeded/*/meta.json.

usage: design_matrix.py        (rewrites /verif/DESIGN.md in place)
"""
import glob
import json
import os
import re

VERIF = os.path.dirname(os.path.dirname(os.path.abspath(__file__)))
BEGIN = "<!-- AUTOGEN:BEGIN (tools/design_matrix.py) -->"
END = "<!-- AUTOGEN:END -->"


def first_line(text):
    for ln in (text or "").strip().splitlines():
        ln = ln.strip().lstrip("#").strip()
        if ln:
            return ln
    return ""


def main():
    out = [BEGIN, ""]
    kf = json.load(open(os.path.join(VERIF, "known_findings.json")))["findings"]
    out.append("### 12.1 Genuine defects found by the rules on the pinned tree\n")
    out.append("| property / rule | construct | status | what failed |")
    out.append("|---|---|---|---|")
    for f in kf:
        what = f["what"]
        m = re.match(r"fixed: property=\S+ (?:\(also \S+\) )?(\w+) (.*)", what)
        status = "known finding" if f["status"] == "known" else "fixed in /repo `%s`" % (m.group(1) if m else f.get("commit", "?"))
        desc = m.group(2) if m else what
        out.append("| %s / %s | `%s` %s | %s | %s |" % (f["property"], f["rule"], f.get("function"),
                                                       f.get("construct", "").replace("|", "\\|"), status, desc.replace("|", "\\|")))
    out.append("")
    out.append("### 12.2 Seeded changes and the checks that report them\n")
    out.append("Each change was written by an independent sub-agent that saw only the property text and a scratch worktree, "
               "and was kept only after `tools/keep_seed.py` had confirmed in a fresh worktree that the demonstration passes "
               "without it, the pinned suite passes with it and the demonstration fails with it.  `detected by` is computed by "
               "`tools/seed_matrix.py --update` (in-memory overlay of the patch, the quick rules of every property); the rule "
               "and function named are those of the first new finding.\n")
    out.append("| seed | touches | what it does | detected by | first finding |")
    out.append("|---|---|---|---|---|")
    metas = sorted(glob.glob(os.path.join(VERIF, "seeded", "*", "meta.json")),
                   key=lambda p: (os.path.basename(os.path.dirname(p)).split("-")[0], int(os.path.basename(os.path.dirname(p)).split("-")[1])))
    n_det = 0
    for mp in metas:
        name = os.path.basename(os.path.dirname(mp))
        md = json.load(open(mp))
        files = []
        for ln in open(os.path.join(os.path.dirname(mp), "patch.diff")):
            if ln.startswith("+++ b/"):
                files.append(ln[6:].strip().replace("lena/", ""))
        det = md.get("detected_by") or []
        if det:
            n_det += 1
        d = md.get("detection") or {}
        first = "; ".join("%s: %s" % (k, v) for k, v in list(d.items())[:2])
        out.append("| %s | %s | %s | %s | %s |" % (name, ", ".join(files), first_line(md.get("needs_to_manifest"))[:150].replace("|", "/"),
                                                   ", ".join(det) or ("**missed**" if not md.get("unknown_in") else "unknown (exit 2) in " + ",".join(md["unknown_in"])),
                                                   first.replace("|", "/")))
    out.append("")
    out.append("%d of %d seeded changes are reported as VIOLATION by at least one check." % (n_det, len(metas)))
    out.append("")
    out.append(END)
    p = os.path.join(VERIF, "DESIGN.md")
    text = open(p).read()
    block = "\n".join(out)
    if BEGIN in text:
        text = text[:text.index(BEGIN)] + block + text[text.index(END) + len(END):]
    else:
        text = text.rstrip("\n") + "\n\n" + block + "\n"
    open(p, "w").write(text)
    print("DESIGN.md: %d findings, %d seeds (%d detected)" % (len(kf), len(metas), n_det))


if __name__ == "__main__":
    main()
