#!/bin/bash
# usage: keep_round.sh <prop> <round>  -- confirm and keep both patches of a seeding round, remove its worktree, show who detects them
P="$1"; R="$2"
if [ "$R" = "1" ]; then T="$P"; else T="${P}r${R}"; fi
for k in 1 2; do
  D=$(( (R-1)*2 + k ))
  SEED_SRC=/tmp/seed-out/$T SEED_DST_K=$D /venv/bin/python /verif/tools/keep_seed.py $P $k 2>&1 | tail -1
done
git -C /repo worktree remove --force /tmp/wt-$T 2>/dev/null
/venv/bin/python /verif/tools/seed_matrix.py --update --only $P-$(( (R-1)*2 + 1 )),$P-$(( (R-1)*2 + 2 )) 2>&1 | grep -E "^$P-"
