#!/venv/bin/python
"""Which check reports which seeded change?  (in-memory overlays; /repo is not touched)

usage: seed_matrix.py [--update]   -- with --update, write detected_by / unknown_in into each meta.json
"""
import glob, json, os, sys
sys.path.insert(0, "/verif")
from concurrent.futures import ProcessPoolExecutor
from lenastatic.cli import analyse, ALL
from lenastatic.selftest.runner import apply_patch_text

def built():
    out = []
    for p in ALL:
        if os.path.exists("/verif/lenastatic/rules/%s.py" % p.lower()):
            out.append(p)
    return out

_BASE = {}


def one(args):
    name, prop = args
    with open("/verif/seeded/%s/patch.diff" % name) as f:
        ov = apply_patch_text("/repo", f.read())
    if ov is None:
        return name, prop, "noapply", ""
    if prop not in _BASE:
        _BASE[prop] = analyse(prop)
    base = _BASE[prop]
    bk = {f.key() for f in base.findings}
    ctx = analyse(prop, overlay=ov)
    new = [f for f in ctx.findings if f.key() not in bk]
    if new:
        return name, prop, "VIOLATION", new[0].rule + " " + new[0].function
    if len(ctx.unknowns) > len(base.unknowns):
        return name, prop, "UNKNOWN", ctx.unknowns[-1][1][:80]
    return name, prop, "-", ""

if __name__ == "__main__":
    props = built()
    seeds = sorted(os.path.basename(os.path.dirname(m)) for m in glob.glob("/verif/seeded/*/meta.json"))
    if "--only" in sys.argv:      # --only C01-13,C01-14  or  --only -13,-14 (suffixes)
        pats = sys.argv[sys.argv.index("--only") + 1].split(",")
        seeds = [s for s in seeds if any(s == p or (p.startswith("-") and s.endswith(p)) for p in pats)]
    tasks = [(s, p) for s in seeds for p in props]
    with ProcessPoolExecutor(16) as ex:
        res = list(ex.map(one, tasks, chunksize=4))
    table = {}
    for name, prop, st, detail in res:
        table.setdefault(name, {})[prop] = (st, detail)
    for name in seeds:
        row = table[name]
        det = [p for p in props if row[p][0] == "VIOLATION"]
        unk = [p for p in props if row[p][0] == "UNKNOWN"]
        own = name.split("-")[0]
        status = "DETECTED" if det else ("unknown" if unk else ("MISSED" if own in props else "(rules not built)"))
        print("%-7s %-18s by=%s unknown=%s %s" % (name, status, ",".join(det), ",".join(unk),
              "; ".join("%s: %s" % (p, row[p][1]) for p in det[:2])))
        if "--update" in sys.argv:
            mp = "/verif/seeded/%s/meta.json" % name
            md = json.load(open(mp))
            md["detected_by"] = det
            md["unknown_in"] = unk
            md["detection"] = {p: row[p][1] for p in det}
            json.dump(md, open(mp, "w"), indent=1)
