#!/bin/bash
# Run every quick check on the unchanged /repo, regenerate manifest + DESIGN tables, validate; non-zero if anything is off.
cd /verif || exit 2
if ! git -C /repo diff --quiet; then echo "/repo has uncommitted changes"; exit 2; fi
rc=0
for p in C01 C02 C03 C04 C05 C06 C07 C08 C09 C10 C11 C12 C13 C14 C15 C16 C17 C18 C19 C20; do
  s=$(date +%s.%N)
  out=$(/venv/bin/python -m lenastatic check $p --tier quick 2>&1); code=$?
  e=$(date +%s.%N)
  line=$(echo "$out" | tail -1)
  printf "%s  exit=%d  %.1fs  %s\n" "$p" "$code" "$(echo "$e - $s" | bc)" "${line:0:110}"
  if [ $code -ne 0 ] || echo "$out" | grep -q "^VIOLATION"; then rc=1; fi
done
/venv/bin/python tools/gen_manifest.py >/dev/null || rc=1
python3-vt tools/validate.py || rc=1
/venv/bin/python tools/design_matrix.py || rc=1
exit $rc
