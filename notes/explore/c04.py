import ast, os
CTXSRC={'get_data_context','get_context'}
def callname(n):
    return ast.unparse(n.func).split('.')[-1] if isinstance(n,ast.Call) else None
def is_deepcopy(n): return isinstance(n,ast.Call) and ast.unparse(n.func) in ('copy.deepcopy','deepcopy')
for dp,dn,fn in os.walk('/repo/lena'):
    for f in sorted(fn):
        if not f.endswith('.py'): continue
        p=os.path.join(dp,f); tree=ast.parse(open(p).read())
        for c in [n for n in ast.walk(tree) if isinstance(n,ast.ClassDef)]:
            ms={m.name:m for m in c.body if isinstance(m,ast.FunctionDef)}
            if 'fill' not in ms or not ({'compute','request'}&set(ms)): continue
            # tainted fields from fill
            tainted={}; local_ctx=set()
            for st in ast.walk(ms['fill']):
                if isinstance(st,ast.Assign) and isinstance(st.value,ast.Call) and callname(st.value) in CTXSRC:
                    t=st.targets[0]
                    if isinstance(t,ast.Tuple) and len(t.elts)==2:
                        ctx=t.elts[1]
                    else: ctx=t if callname(st.value)=='get_context' else None
                    if isinstance(ctx,ast.Name): local_ctx.add(ctx.id)
                    elif isinstance(ctx,ast.Attribute): tainted[ast.unparse(ctx)]=st.lineno
            # flow-sensitive-ish: process statements in order
            for st in ms['fill'].body:
                for a in ast.walk(st):
                    if isinstance(a,ast.Assign):
                        v=a.value
                        for t in a.targets:
                            if isinstance(t,ast.Name) and is_deepcopy(v): local_ctx.discard(t.id)
                            if isinstance(t,ast.Attribute) and isinstance(v,ast.Name) and v.id in local_ctx: tainted[ast.unparse(t)]=a.lineno
            for mname in ('compute','request'):
                if mname not in ms: continue
                m=ms[mname]
                aliases=dict()  # local -> tainted field
                for st in ast.walk(m):
                    if isinstance(st,ast.Assign) and isinstance(st.value,ast.Attribute) and ast.unparse(st.value) in tainted:
                        for t in st.targets:
                            if isinstance(t,ast.Name): aliases[t.id]=ast.unparse(st.value)
                for y in [n for n in ast.walk(m) if isinstance(n,ast.Yield) and n.value is not None]:
                    # find tainted refs not under deepcopy
                    def scan(n, safe):
                        if is_deepcopy(n): return []
                        out=[]
                        if isinstance(n,ast.Attribute) and ast.unparse(n) in tainted: out.append(ast.unparse(n))
                        if isinstance(n,ast.Name) and n.id in aliases: out.append(n.id+'->'+aliases[n.id])
                        for ch in ast.iter_child_nodes(n): out+=scan(ch,safe)
                        return out
                    bad=scan(y.value,False)
                    print(f"{os.path.relpath(p,'/repo')}:{y.lineno} {c.name}.{mname} yield {ast.unparse(y.value)[:60]!r} tainted_fields={list(tainted)} -> {'VIOLATION '+str(bad) if bad else 'ok'}")
