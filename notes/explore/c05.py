import ast, sys
sys.path.insert(0,'/tmp/explore')
from paths import *
def is_stub(m):
    body=[st for st in m.body if not (isinstance(st,ast.Expr) and isinstance(st.value,ast.Constant) and isinstance(st.value.value,str))]
    if not body: return True
    if all(isinstance(st,ast.Pass) for st in body): return True
    if len(body)==1 and isinstance(body[0],ast.Raise) and 'NotImplemented' in ast.unparse(body[0]): return True
    return False
def self_stores(st, selfname='self'):
    out=set()
    for n in ast.walk(st):
        if isinstance(n,(ast.Assign,)):
            for t in n.targets:
                if isinstance(t,ast.Attribute) and isinstance(t.value,ast.Name) and t.value.id==selfname: out.add(t.attr)
        if isinstance(n,ast.Call) and ast.unparse(n.func)=='setattr' and isinstance(n.args[0],ast.Name) and n.args[0].id==selfname:
            out.add('<setattr:%s>'%ast.unparse(n.args[1]))
    return out
FILES={'lena/core/adapters.py':['Call','FillCompute','FillInto','FillRequest','Run','SourceEl'],'lena/core/fill_seq.py':['FillSeq'],
       'lena/core/fill_compute_seq.py':['FillComputeSeq'],'lena/core/fill_request_seq.py':['FillRequestSeq']}
helpers={}
for f in ['lena/core/adapters.py','lena/core/fill_compute_seq.py']:
    t=ast.parse(open('/repo/'+f).read())
    for n in t.body:
        if isinstance(n,ast.FunctionDef) and n.args.args and n.args.args[0].arg=='self': helpers[n.name]=n
for f,classes in FILES.items():
    tree=ast.parse(open('/repo/'+f).read())
    for cn in classes:
        c=find(tree,cn); ms={m.name:m for m in c.body if isinstance(m,ast.FunctionDef)}
        stubs=[n for n,m in ms.items() if n!='__init__' and not n.startswith('__') and is_stub(m)]
        ps=func_paths(ms['__init__'])
        res={'normal':0,'raise':0,'bad':[]}
        raises=set()
        for p in ps:
            assigned=set()
            for e in p.ev:
                if e[0]=='stmt':
                    assigned|=self_stores(e[1])
                    for n in ast.walk(e[1]):
                        if isinstance(n,ast.Call):
                            nm=ast.unparse(n.func).split('.')[-1]
                            if nm in helpers and n.args and isinstance(n.args[0],ast.Name) and n.args[0].id=='self':
                                # inline: union of stores on helper's normal paths (intersection over paths)
                                hp=[q for q in func_paths(helpers[nm]) if q.end in('fall','return')]
                                sets=[set().union(*[self_stores(e2[1]) for e2 in q.ev if e2[0]=='stmt']) for q in hp]
                                if sets: assigned|=set.intersection(*sets)
                    if isinstance(e[1],ast.Raise) and e[1].exc is not None:
                        x=e[1].exc; x=x.func if isinstance(x,ast.Call) else x; raises.add(ast.unparse(x))
            if p.end in('fall','return'):
                res['normal']+=1
                miss=[s for s in stubs if s not in assigned]
                if miss: res['bad'].append((miss,[('' if c_[2] else 'NOT ')+ast.unparse(c_[1])[:40] for c_ in p.ev if c_[0]=='cond'][-3:]))
            elif p.end=='raise': res['raise']+=1
        print(f"{cn:15s} stubs={stubs} paths={len(ps)} normal={res['normal']} raise={res['raise']} raises={sorted(raises)} missing={res['bad'][:2]}")
