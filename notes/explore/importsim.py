"""Static simulation of module initialisation order with partially-initialised namespaces."""
import ast, os, sys
ROOT='/repo'
mods={}
for dp,dn,fn in os.walk(ROOT+'/lena'):
    for f in fn:
        if f.endswith('.py'):
            p=os.path.join(dp,f)
            rel=os.path.relpath(p,ROOT)[:-3].replace('/','.')
            ispkg=False
            if rel.endswith('.__init__'): rel=rel[:-9]; ispkg=True
            mods[rel]=(p,ispkg,ast.parse(open(p).read()))

def fold_version(test):
    # returns True/False/None for sys.version_info guards
    src=ast.unparse(test)
    table={'sys.version_info.major == 3':True,'sys.version_info.major == 2':False,
           'sys.version_info.major > 2':True,'sys.version_info.major >= 3':True}
    return table.get(src)

class Sim:
    def __init__(s):
        s.ns={}      # module -> set of bound names (grows during init)
        s.state={}   # module -> 'init'|'done'
        s.problems=[]
        s.order=[]
    def imp(s, name, importer):
        parts=name.split('.')
        for i in range(1,len(parts)+1):
            m='.'.join(parts[:i])
            if m not in mods:
                return False  # external
            if m not in s.state:
                s.run(m)
            if i>1:
                s.ns['.'.join(parts[:i-1])].add(parts[i-1])  # parent gets attr after (or during) child's import
        return True
    def run(s, m):
        s.state[m]='init'; s.ns[m]=set(['__name__','__file__','__doc__','__path__'] ); s.order.append(m)
        p,ispkg,tree=mods[m]
        s.block(m, ispkg, tree.body)
        s.state[m]='done'
    def resolve_from(s, cur, ispkg, level, module):
        if level==0: return module
        base=cur.split('.') if ispkg else cur.split('.')[:-1]
        base=base[:len(base)-(level-1)]
        return '.'.join(base+([module] if module else []))
    def block(s, m, ispkg, body):
        for st in body:
            if isinstance(st, ast.Import):
                for a in st.names:
                    if s.imp(a.name, m) or True:
                        s.ns[m].add((a.asname or a.name.split('.')[0]))
            elif isinstance(st, ast.ImportFrom):
                src=s.resolve_from(m, ispkg, st.level, st.module)
                internal=s.imp(src, m)
                for a in st.names:
                    if internal:
                        if a.name=='*': continue
                        if a.name not in s.ns[src]:
                            # maybe submodule
                            sub=src+'.'+a.name
                            if sub in mods:
                                s.imp(sub, m)
                            else:
                                s.problems.append(f"{m}:{st.lineno}: from {src} import {a.name}: not bound in {src} (state={s.state[src]})")
                    s.ns[m].add(a.asname or a.name)
            elif isinstance(st,(ast.FunctionDef,ast.ClassDef,ast.AsyncFunctionDef)):
                # class bodies execute at import: base classes need resolution (checked elsewhere)
                s.ns[m].add(st.name)
            elif isinstance(st,(ast.Assign,ast.AugAssign,ast.AnnAssign)):
                for n in ast.walk(st):
                    if isinstance(n,ast.Name) and isinstance(n.ctx,ast.Store): s.ns[m].add(n.id)
            elif isinstance(st, ast.If):
                v=fold_version(st.test)
                if v is True: s.block(m,ispkg,st.body)
                elif v is False: s.block(m,ispkg,st.orelse)
                else: s.block(m,ispkg,st.body); s.block(m,ispkg,st.orelse)
            elif isinstance(st, ast.Try):
                s.block(m,ispkg,st.body)
                for h in st.handlers: s.block(m,ispkg,h.body)
                s.block(m,ispkg,st.orelse); s.block(m,ispkg,st.finalbody)
            elif isinstance(st,(ast.With,ast.For,ast.While)):
                s.block(m,ispkg,st.body)

pkgs=sorted(m for m,(p,ispkg,t) in mods.items() if ispkg and m!='lena')
for entry in pkgs+sorted(m for m in mods if m not in pkgs and m!='lena'):
    sim=Sim(); sim.imp(entry,'<entry>')
    if sim.problems:
        print("ENTRY",entry); 
        for pr in sim.problems: print("   ",pr)
print("entries simulated:", len(mods)-1)
sim=Sim(); sim.imp('lena.context','<entry>'); print(sim.order)
