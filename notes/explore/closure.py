import ast, os, sys
ROOT='/repo'
mods={}
for dp,dn,fn in os.walk(ROOT+'/lena'):
    for f in fn:
        if f.endswith('.py'):
            p=os.path.join(dp,f)
            rel=os.path.relpath(p,ROOT)[:-3].replace('/','.')
            if rel.endswith('.__init__'): rel=rel[:-9]; ispkg=True
            else: ispkg=False
            mods[rel]=(p,ispkg,ast.parse(open(p).read()))
def parents(m):
    parts=m.split('.')
    return ['.'.join(parts[:i]) for i in range(1,len(parts)+1)]
def resolve_from(cur, ispkg, level, module):
    if level==0: return module
    base=cur.split('.') if ispkg else cur.split('.')[:-1]
    base=base[:len(base)-(level-1)]
    return '.'.join(base+([module] if module else []))
def toplevel_imports(m, include_functions=False):
    p,ispkg,tree=mods[m]
    out=[]
    def visit(node, infunc):
        for ch in ast.iter_child_nodes(node):
            if isinstance(ch,(ast.FunctionDef,ast.AsyncFunctionDef,ast.Lambda)):
                if include_functions: visit(ch,True)
                continue
            if isinstance(ch,ast.Import):
                for a in ch.names: out.append(a.name)
            elif isinstance(ch,ast.ImportFrom):
                b=resolve_from(m,ispkg,ch.level,ch.module)
                out.append(b)
                for a in ch.names:
                    if b+'.'+a.name in mods: out.append(b+'.'+a.name)
            visit(ch,infunc)
    visit(tree,False)
    return out
def closure(start):
    seen=set(); stack=list(start)
    while stack:
        m=stack.pop()
        for pm in parents(m):
            if pm in mods and pm not in seen:
                seen.add(pm)
                for i in toplevel_imports(pm):
                    stack.append(i)
    return seen
# attribute chains lena.X used in each module
for m,(p,ispkg,tree) in sorted(mods.items()):
    pkg='.'.join(m.split('.')[:2]) if m.count('.')>=1 else m
    cl=closure([m])
    used={}
    for node in ast.walk(tree):
        if isinstance(node,ast.Attribute) and isinstance(node.value,ast.Name) and node.value.id=='lena':
            used.setdefault('lena.'+node.attr,[]).append(node.lineno)
    # local function-level imports in the module count for function scope; approximate: gather all imports anywhere
    allimp=set()
    for i in toplevel_imports(m, include_functions=True):
        allimp.update(parents(i))
    for u,lines in used.items():
        if u not in cl:
            note = ' (imported inside some function in this module)' if u in closure(list(allimp)) else ''
            print(f"{m}: uses {u} at lines {lines} but not in import closure of {m}{note}")
