import ast, sys
sys.path.insert(0,'/tmp/explore')
from paths import *
def loop_paths(f,q):
    tree=ast.parse(open('/repo/'+f).read()); fn=find(tree,q)
    loop=[n for n in ast.walk(fn) if isinstance(n,ast.For) and isinstance(n.iter,ast.Name) and n.iter.id=='flow'][0]
    return seq([Path()], loop.body, None)
def calls(st): return [ast.unparse(n.func) for n in ast.walk(st) if isinstance(n,ast.Call)]
def conds(p): return [('' if c[2] else 'NOT ')+ast.unparse(c[1])[:60] for c in p.ev if c[0]=='cond']
# C19-a
for p in loop_paths('lena/output/write.py','Write.run'):
    evs=p.ev
    w=[i for i,e in enumerate(evs) if e[0]=='stmt' and any(c in ('self._write_data','data.write') for c in calls(e[1]))]
    if not w: continue
    i=w[0]
    y=[j for j,e in enumerate(evs) if e[0]=='yield' and j>i]
    setT=[j for j,e in enumerate(evs) if e[0]=='stmt' and isinstance(e[1],ast.Assign) and ast.unparse(e[1])=="outputc['changed'] = True" and j>i and (not y or j<y[0])]
    print('C19-a', 'OK ' if setT else 'VIOLATION', conds(p)[-3:])
# C19-b sticky: stores to changed
for f,q in [('lena/output/write.py','Write.run'),('lena/output/latex_to_pdf.py','LaTeXToPDF.run'),('lena/output/pdf_to_png.py','PDFToPNG.run')]:
    for p in loop_paths(f,q):
        for e in p.ev:
            if e[0]=='stmt' and isinstance(e[1],ast.Assign) and "['changed']" in ast.unparse(e[1].targets[0]):
                v=ast.unparse(e[1].value)
                if v=='False':
                    cs=conds(p)
                    ok=any(('not changed' in c) or ('NOT' in c and 'changed' in c) for c in cs)
                    print('C19-b', q, 'False stored;', 'guarded' if ok else 'UNGUARDED', cs[-2:])
                elif v not in ('True','changed'):
                    print('C19-b', q, 'odd value', v)
# C19-c launches
for f,q,launch in [('lena/output/latex_to_pdf.py','LaTeXToPDF.run','launch'),('lena/output/pdf_to_png.py','PDFToPNG.run','_run_command')]:
    for p in loop_paths(f,q):
        for e in p.ev:
            if e[0]=='stmt' and launch in calls(e[1]):
                print('C19-c', q, 'launch under', conds(p)[-2:])
