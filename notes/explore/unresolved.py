import ast, builtins, os, sys, symtable
ROOT='/repo/lena'
def module_globals(tree):
    names=set()
    for node in ast.walk(tree):
        pass
    # module-level bindings incl. nested in if/try at module level, and `global` decls in functions
    class V(ast.NodeVisitor):
        def __init__(s): s.names=set(); s.depth=0
        def visit_FunctionDef(s,n):
            if s.depth==0: s.names.add(n.name)
            s.depth+=1
            for g in ast.walk(n):
                if isinstance(g, ast.Global): s.names.update(g.names)
            s.depth-=1
        visit_AsyncFunctionDef=visit_FunctionDef
        def visit_ClassDef(s,n):
            if s.depth==0: s.names.add(n.name)
        def visit_Import(s,n):
            for a in n.names: s.names.add((a.asname or a.name).split('.')[0])
        def visit_ImportFrom(s,n):
            for a in n.names: s.names.add(a.asname or a.name)
        def visit_Name(s,n):
            if isinstance(n.ctx,(ast.Store,ast.Del)): s.names.add(n.id)
        def visit_Lambda(s,n): pass
        def visit_ListComp(s,n): pass
        visit_SetComp=visit_DictComp=visit_GeneratorExp=visit_ListComp
    v=V(); v.visit(tree); return v.names
for dp,dn,fn in os.walk(ROOT):
    for f in fn:
        if not f.endswith('.py'): continue
        p=os.path.join(dp,f); src=open(p).read()
        tree=ast.parse(src)
        mg=module_globals(tree)|{'__name__','__file__','__doc__','__builtins__','__package__','__spec__','__path__'}
        st=symtable.symtable(src,p,'exec')
        def walk(t, path):
            for s in t.get_symbols():
                if t.get_type()=='module': continue
                if s.is_global() and s.is_referenced():
                    n=s.get_name()
                    if n not in mg and not hasattr(builtins,n):
                        print(f"{p}: {'.'.join(path)}: unresolved global {n}")
            for c in t.get_children(): walk(c, path+[c.get_name()])
        walk(st,[])
        # module-level referenced names too
        for s in st.get_symbols():
            if s.is_referenced() and not s.is_assigned() and not s.is_imported() and s.get_name() not in mg and not hasattr(builtins,s.get_name()):
                print(f"{p}: <module>: unresolved {s.get_name()}")
