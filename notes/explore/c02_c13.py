"""Crude prototypes: C02-a call-time consumption; C13-c what _set_context stores; C07-c/C12-b purity."""
import ast, sys
def load(f): return ast.parse(open('/repo/'+f).read())
def find(tree, qual):
    node=tree
    for name in qual.split('.'):
        body=node.body
        for ch in body:
            if isinstance(ch,(ast.FunctionDef,ast.ClassDef)) and ch.name==name: node=ch; break
        else: raise KeyError(qual)
    return node
CONSUME={'list','tuple','sorted','sum','max','min','len','any','all','set','dict','next','reversed'}
def calltime_consumption(fn, param='flow'):
    bad=[]
    isgen=any(isinstance(n,(ast.Yield,ast.YieldFrom)) for n in ast.walk(fn) if not isinstance(n,(ast.Lambda,)))
    if isgen: return 'generator', []
    for n in ast.walk(fn):
        if isinstance(n,ast.For) and isinstance(n.iter,ast.Name) and n.iter.id==param: bad.append((n.lineno,'for over '+param))
        if isinstance(n,(ast.ListComp,ast.SetComp,ast.DictComp)):
            if any(isinstance(g.iter,ast.Name) and g.iter.id==param for g in n.generators): bad.append((n.lineno,'comprehension over '+param))
        if isinstance(n,ast.Call):
            nm=ast.unparse(n.func)
            if nm.split('.')[-1] in CONSUME|{'deque'} and any(isinstance(a,ast.Name) and a.id==param for a in n.args): bad.append((n.lineno,nm+'('+param+')'))
    return 'function', bad
for f,q in [('lena/core/sequence.py','Sequence.run'),('lena/core/source.py','Source.__call__'),('lena/flow/filter.py','Filter.run'),
            ('lena/flow/iterators.py','Slice.run'),('lena/flow/cache.py','Cache.run'),('lena/core/fill_compute_seq.py','FillComputeSeq.compute'),
            ('lena/core/fill_request_seq.py','FillRequestSeq.request'),('lena/core/adapters.py','Run._call_run'),('lena/core/adapters.py','Run._fc_run'),
            ('lena/flow/elements.py','Count.run'),('lena/flow/elements.py','RunIf.run'),('lena/core/split.py','Split.run')]:
    print('C02-a', q, calltime_consumption(find(load(f),q)))
# C13-c
for f,c in [('lena/flow/cache.py','Cache'),('lena/output/make_filename.py','MakeFilename'),('lena/output/write.py','Write'),('lena/meta/elements.py','SetContext'),
            ('lena/meta/elements.py','StoreContext'),('lena/meta/elements.py','UpdateContextFromStatic')]:
    m=find(load(f),c+'._set_context'); p=m.args.args[1].arg
    stores=[]
    for n in ast.walk(m):
        if isinstance(n,ast.Assign):
            for t in n.targets:
                if isinstance(t,ast.Attribute) and isinstance(t.value,ast.Name) and t.value.id=='self':
                    v=n.value
                    kind='ALIAS' if (isinstance(v,ast.Name) and v.id==p) else ('deepcopy' if isinstance(v,ast.Call) and ast.unparse(v.func).endswith('deepcopy') else 'derived:'+ast.unparse(v)[:30])
                    stores.append((t.attr,kind))
    print('C13-c', c, stores)
# purity: stores through params
def param_stores(fn, params):
    out=[]
    aliases=set(params)
    for n in ast.walk(fn):
        if isinstance(n,ast.Assign) and isinstance(n.value,(ast.Name,ast.Subscript)):
            b=n.value
            while isinstance(b,ast.Subscript): b=b.value
            if isinstance(b,ast.Name) and b.id in aliases:
                for t in n.targets:
                    if isinstance(t,ast.Name): aliases.add(t.id)
    for n in ast.walk(fn):
        tg=[]
        if isinstance(n,ast.Assign): tg=n.targets
        if isinstance(n,ast.AugAssign): tg=[n.target]
        if isinstance(n,ast.Delete): tg=n.targets
        for t in tg:
            b=t
            if isinstance(b,(ast.Subscript,ast.Attribute)):
                while isinstance(b,(ast.Subscript,ast.Attribute)): b=b.value
                if isinstance(b,ast.Name) and b.id in aliases: out.append((n.lineno, ast.unparse(n)[:50]))
    return out, aliases
t=load('lena/context/functions.py')
print('PURE intersection(dicts):', param_stores(find(t,'intersection'),{'dicts'})[0])
print('PURE difference(d1,d2):', param_stores(find(t,'difference'),{'d1','d2'})[0])
print('PURE update_recursively(other):', param_stores(find(t,'update_recursively'),{'other'})[0])
print('PURE get_recursively(d):', param_stores(find(t,'get_recursively'),{'d'})[0])
print('PURE contains(d):', param_stores(find(t,'contains'),{'d'})[0])
t=load('lena/structures/histogram.py')
print('PURE histogram.add(self,other):', param_stores(find(t,'histogram.add'),{'self','other'})[0])
