import ast, os
MUT={'append','extend','clear','update','pop','popleft','appendleft','add','remove','insert','fill','reset','sort'}
def fields_written(fn, cls_methods, seen=None):
    seen=seen or set()
    out={}
    for n in ast.walk(fn):
        tgts=[]
        if isinstance(n,ast.Assign): tgts=n.targets
        elif isinstance(n,ast.AugAssign): tgts=[n.target]
        for t in tgts:
            for e in (t.elts if isinstance(t,ast.Tuple) else [t]):
                b=e
                while isinstance(b,(ast.Subscript,)): b=b.value
                if isinstance(b,ast.Attribute):
                    # self.X or self.X.Y
                    chain=[]; x=b
                    while isinstance(x,ast.Attribute): chain.append(x.attr); x=x.value
                    if isinstance(x,ast.Name) and x.id=='self': out.setdefault(chain[-1],[]).append((n.lineno,'store '+ast.unparse(e)))
        if isinstance(n,ast.Call) and isinstance(n.func,ast.Attribute):
            f=n.func
            if f.attr in MUT:
                x=f.value; chain=[]
                while isinstance(x,(ast.Attribute,ast.Subscript)):
                    if isinstance(x,ast.Attribute): chain.append(x.attr)
                    x=x.value
                if isinstance(x,ast.Name) and x.id=='self' and chain: out.setdefault(chain[-1],[]).append((n.lineno,'call .'+f.attr))
            # self.helper()
            if isinstance(f.value,ast.Name) and f.value.id=='self' and f.attr in cls_methods and f.attr not in seen:
                sub=fields_written(cls_methods[f.attr], cls_methods, seen|{f.attr})
                for k,v in sub.items(): out.setdefault(k,[]).extend(v)
    return out
for dp,dn,fn in os.walk('/repo/lena'):
    for f in sorted(fn):
        if not f.endswith('.py'): continue
        p=os.path.join(dp,f); tree=ast.parse(open(p).read())
        for c in [n for n in ast.walk(tree) if isinstance(n,ast.ClassDef)]:
            ms={m.name:m for m in c.body if isinstance(m,ast.FunctionDef)}
            rname='reset' if 'reset' in ms else ('_reset' if '_reset' in ms else None)
            if not rname: continue
            mut={}
            for m in ('fill','compute','request','run','fill_into','_update'):
                if m in ms:
                    for k,v in fields_written(ms[m],ms).items(): mut.setdefault(k,[]).extend((m,)+x for x in v)
            rs=fields_written(ms[rname],ms)
            missing={k:v for k,v in mut.items() if k not in rs}
            extra={k for k in rs if k not in mut}
            # attribute-definedness in reset
            assigned=set()
            for m in ms.values():
                for k in fields_written(m,{}): assigned.add(k)
            loads={n.attr for n in ast.walk(ms[rname]) if isinstance(n,ast.Attribute) and isinstance(n.value,ast.Name) and n.value.id=='self' and isinstance(n.ctx,ast.Load)}
            undefined={a for a in loads if a not in assigned and a not in ms and a not in {t.targets[0].id for t in c.body if isinstance(t,ast.Assign) and isinstance(t.targets[0],ast.Name)}}
            print(f"{c.name:20s} mutated={sorted(mut)} reset={sorted(rs)} MISSING={ {k:[x[:2] for x in v][:2] for k,v in missing.items()} } reset-only={sorted(extra)} undefined-in-reset={sorted(undefined)}")
