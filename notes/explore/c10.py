import ast, sys
sys.path.insert(0,'/tmp/explore')
from paths import *
TABLE=[('lena/output/to_csv.py','ToCSV.run'),('lena/output/write.py','Write.run'),('lena/output/render_latex.py','RenderLaTeX.run'),
 ('lena/output/latex_to_pdf.py','LaTeXToPDF.run'),('lena/output/pdf_to_png.py','PDFToPNG.run'),('lena/structures/elements.py','HistToGraph.run'),
 ('lena/structures/split_into_bins.py','MapBins.run'),('lena/structures/split_into_bins.py','IterateBins.run'),('lena/flow/elements.py','RunIf.run'),
 ('lena/flow/group_plots.py','MapGroup.run')]
EFFECT={'open','print','os.makedirs','os.remove','subprocess.Popen','_run_command','launch','self._write_data','data.write','warnings.warn'}
for f,q in TABLE:
    tree=ast.parse(open('/repo/'+f).read()); fn=find(tree,q)
    # main loop: the for over 'flow'
    loops=[n for n in ast.walk(fn) if isinstance(n,ast.For) and isinstance(n.iter,ast.Name) and n.iter.id=='flow']
    assert len(loops)==1,(q,len(loops))
    loop=loops[0]; V=loop.target.id
    body_paths=seq([Path()], loop.body, None)
    npass=ntrans=nnone=0
    for p in body_paths:
        ys=[e for e in p.ev if e[0]=='yield']
        bare=[e for e in ys if isinstance(e[1],ast.Yield) and isinstance(e[1].value,ast.Name) and e[1].value.id==V]
        if ys and len(bare)==len([e for e in ys]) :
            kind='PASS'; npass+=1
        elif bare: kind='MIXED'
        elif ys: kind='TRANS'; ntrans+=1
        else: kind='NOYIELD:'+p.end; nnone+=1
        if kind=='PASS' or kind=='MIXED':
            # check mutations/effects before the yield on this path
            idx=max(i for i,e in enumerate(p.ev) if e in bare)
            aliases={V}
            bad=[]
            for e in p.ev[:idx]:
                if e[0]!='stmt': continue
                st=e[1]
                if isinstance(st,ast.Assign):
                    # alias tracking
                    srcnames={n.id for n in ast.walk(st.value) if isinstance(n,ast.Name)}
                    for t in st.targets:
                        for n in ast.walk(t):
                            if isinstance(n,ast.Name) and isinstance(n.ctx,ast.Store) and (srcnames & aliases): aliases.add(n.id)
                        if isinstance(t,(ast.Subscript,ast.Attribute)):
                            base=t
                            while isinstance(base,(ast.Subscript,ast.Attribute)): base=base.value
                            if isinstance(base,ast.Name) and base.id in aliases: bad.append(('store',st.lineno,ast.unparse(st)))
                        if isinstance(t,ast.Name) and t.id==V: bad.append(('rebind',st.lineno,ast.unparse(st)))
                for n in ast.walk(st):
                    if isinstance(n,ast.Call):
                        nm=ast.unparse(n.func)
                        if nm in EFFECT: bad.append(('effect',n.lineno,nm))
                        if nm.endswith(('update_recursively','update_nested','.update','_update_context')) :
                            args={a.id for a in n.args if isinstance(a,ast.Name)}
                            if isinstance(n.func,ast.Attribute) and isinstance(n.func.value,ast.Name): args.add(n.func.value.id)
                            if args & aliases: bad.append(('mutcall',n.lineno,nm))
            if bad or kind=='MIXED': print('  ',q,kind,'path bad:',bad, [ast.unparse(c[1])[:40]+'='+str(c[2]) for c in p.ev if c[0]=='cond'])
        if kind.startswith('NOYIELD'):
            print('  ',q,kind,[ast.unparse(c[1])[:50]+'='+str(c[2]) for c in p.ev if c[0]=='cond'])
    print(q,'paths',len(body_paths),'PASS',npass,'TRANS',ntrans,'NOYIELD',nnone)
