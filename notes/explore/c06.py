import ast, sys
sys.path.insert(0,'/tmp/explore')
from paths import *
tree=ast.parse(open('/repo/lena/structures/histogram.py').read())
fn=find(tree,'histogram.fill')
ps=func_paths(fn)
from collections import Counter
c=Counter()
for p in ps:
    n=sum(1 for e in p.ev if e[0]=='stmt' and isinstance(e[1],ast.AugAssign) and isinstance(e[1].value,ast.Name) and e[1].value.id=='weight')
    c[(p.end,n)]+=1
print(len(ps), dict(c))
# Split.run path count
tree=ast.parse(open('/repo/lena/core/split.py').read())
import time; t=time.time()
ps=func_paths(find(tree,'Split.run')); print('Split.run paths', len(ps), round(time.time()-t,3),'s')
tree=ast.parse(open('/repo/lena/core/adapters.py').read())
for q in ['FillRequest.request','FillRequest.__init__','Run.__init__','FillRequest._run_run']:
    t=time.time(); ps=func_paths(find(tree,q)); print(q,'paths',len(ps), round(time.time()-t,3),'s')
tree=ast.parse(open('/repo/lena/flow/iterators.py').read())
ps=func_paths(find(tree,'Slice._run_negative_islice')); print('neg islice paths', len(ps))
tree=ast.parse(open('/repo/lena/context/update_context.py').read())
ps=func_paths(find(tree,'UpdateContext.__init__')); print('UpdateContext.__init__ paths', len(ps))
ps=func_paths(find(tree,'UpdateContext.__call__')); print('UpdateContext.__call__ paths', len(ps))
