import ast, sys, collections
sys.path.insert(0,'/tmp/explore')
from paths import *
tree=ast.parse(open('/repo/lena/core/split.py').read())
fn=find(tree,'Split.run')
# inner while loop body paths
inner=[n for n in ast.walk(fn) if isinstance(n,ast.While) and 'ind < n_of_active_seqs' in ast.unparse(n.test)][0]
ps=seq([Path()], inner.body, None)
c=collections.Counter()
for p in ps:
    dels=[ast.unparse(e[1]) for e in p.ev if e[0]=='stmt' and isinstance(e[1],ast.Delete)]
    dec=sum(1 for e in p.ev if e[0]=='stmt' and ast.unparse(e[1])=='n_of_active_seqs -= 1')
    inc=sum(1 for e in p.ev if e[0]=='stmt' and ast.unparse(e[1])=='ind += 1')
    kinds=[ast.unparse(cn[1]) for cn in p.ev if cn[0]=='cond' and cn[2] and 'seq_type ==' in ast.unparse(cn[1])]
    calls=sorted({ast.unparse(n.func) for e in p.ev if e[0] in('stmt','iter') for n in ast.walk(e[1].iter if e[0]=='iter' else e[1]) if isinstance(n,ast.Call) and ast.unparse(n.func).startswith('seq')})
    c[(tuple(kinds[-1:]), tuple(dels), dec, inc, p.end, tuple(calls))]+=1
for k,v in sorted(c.items(), key=str): print(v,k)
# kind strings
src=open('/repo/lena/core/split.py').read()
t=ast.parse(src)
g=find(t,'_get_seq_with_type')
K={n.value.value for n in ast.walk(g) if isinstance(n,ast.Assign) and isinstance(n.value,ast.Constant) and isinstance(n.value.value,str) and n.value.value and any(isinstance(x,ast.Name) and x.id=='seq_type' for x in n.targets)}
print('K',K)
cmp=collections.defaultdict(set)
for f in [n for n in ast.walk(t) if isinstance(n,ast.FunctionDef)]:
    for n in ast.walk(f):
        if isinstance(n,ast.Compare) and isinstance(n.left,ast.Name) and n.left.id=='seq_type' and isinstance(n.comparators[0],ast.Constant):
            cmp[f.name].add(n.comparators[0].value)
print(dict(cmp))
