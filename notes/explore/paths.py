"""Prototype: syntax-directed path enumeration (loops 0/1 times) over a function body.
A path is a list of events: ('stmt', node) | ('cond', test, bool) | ('yield', node) | ('iter', fornode)
| ('exc', handler) | terminal: 'return'/'raise'/'continue'/'break'/'fall'"""
import ast, itertools

class Path:
    __slots__=('ev','end')
    def __init__(s, ev=None, end='fall'): s.ev=list(ev or []); s.end=end
    def plus(s, e): return Path(s.ev+[e], s.end)

def seq(paths, stmts, ctx):
    """extend each live path through stmts; returns list of paths (live have end=='fall')"""
    for st in stmts:
        new=[]
        for p in paths:
            if p.end!='fall': new.append(p); continue
            new.extend(step(p, st, ctx))
        paths=new
    return paths

def exprs_events(p, node):
    # record yields inside expression statements / assignments in source order
    evs=[]
    for n in ast.walk(node):
        if isinstance(n,(ast.Yield,ast.YieldFrom)): evs.append(('yield',n))
    return evs

def step(p, st, ctx):
    if isinstance(st, ast.If):
        t=Path(p.ev+[('cond',st.test,True)]); f=Path(p.ev+[('cond',st.test,False)])
        return seq([t], st.body, ctx)+seq([f], st.orelse, ctx)
    if isinstance(st,(ast.For,ast.While)):
        out=[]
        head=('iter',st) if isinstance(st,ast.For) else ('cond',st.test,True)
        # zero iterations
        z=Path(p.ev+[('loop0',st)])
        if isinstance(st,ast.While) and isinstance(st.test,ast.Constant) and st.test.value is True:
            zlist=[]  # while True: never zero
        else:
            zlist=seq([z], st.orelse, ctx)
        out.extend(zlist)
        one=seq([Path(p.ev+[head])], st.body, ctx)
        for q in one:
            if q.end in ('fall','continue'):
                # after one iteration: either loop exits or (for loop-carried analysis) marks backedge
                qq=Path(q.ev+[('backedge',st)])
                if isinstance(st,ast.While) and isinstance(st.test,ast.Constant) and st.test.value is True:
                    qq.end='loopforever'  # only exits via break/return; treat as terminal
                    out.append(qq)
                else:
                    out.extend(seq([qq], st.orelse, ctx))
            elif q.end=='break':
                out.append(Path(q.ev+[('break',st)]))
            else:
                out.append(q)
        return out
    if isinstance(st, ast.Try):
        body=seq([Path(p.ev)], st.body, ctx)
        out=[]
        for q in body:
            if q.end=='fall': out.extend(seq([q], st.orelse, ctx))
            else: out.append(q)
        # exceptional: approximate — handler entered from try start with the body's first statement having (maybe) executed
        for h in st.handlers:
            hp=Path(p.ev+[('try_partial',st),('exc',h)])
            out.extend(seq([hp], h.body, ctx))
        if st.finalbody:
            fin=[]
            for q in out:
                if q.end=='fall': fin.extend(seq([q], st.finalbody, ctx))
                else:
                    e=q.end; q2=Path(q.ev); r=seq([q2], st.finalbody, ctx)
                    for x in r:
                        if x.end=='fall': x.end=e
                    fin.extend(r)
            out=fin
        return out
    if isinstance(st, ast.With):
        q=Path(p.ev+[('with',st)])
        return seq([q], st.body, ctx)
    if isinstance(st, ast.Return):
        q=Path(p.ev+exprs_events(p,st)+[('stmt',st)],'return'); return [q]
    if isinstance(st, ast.Raise):
        return [Path(p.ev+[('stmt',st)],'raise')]
    if isinstance(st, ast.Continue): return [Path(p.ev,'continue')]
    if isinstance(st, ast.Break): return [Path(p.ev,'break')]
    if isinstance(st,(ast.FunctionDef,ast.ClassDef)): return [p.plus(('def',st))]
    evs=exprs_events(p,st)
    return [Path(p.ev+[('stmt',st)]+evs)]

def func_paths(fn):
    return seq([Path()], fn.body, None)

def find(tree, qual):
    parts=qual.split('.'); node=tree
    for name in parts:
        for ch in ast.iter_child_nodes(node) if not isinstance(node, ast.Module) else node.body:
            if isinstance(ch,(ast.FunctionDef,ast.ClassDef)) and ch.name==name: node=ch; break
        else: raise KeyError(qual)
    return node
