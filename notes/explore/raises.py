import ast, os, collections
c=collections.Counter(); sites=collections.defaultdict(list)
for dp,dn,fn in os.walk('/repo/lena'):
    for f in fn:
        if not f.endswith('.py'): continue
        p=os.path.join(dp,f); tree=ast.parse(open(p).read())
        for n in ast.walk(tree):
            if isinstance(n,ast.Raise):
                e=n.exc
                if e is None: k='<bare>'
                else:
                    if isinstance(e,ast.Call): e=e.func
                    k=ast.unparse(e)
                c[k]+=1; sites[k].append(f"{os.path.relpath(p,'/repo')}:{n.lineno}")
for k,v in c.most_common(): print(v,k, sites[k] if v<8 else '')
