import ast, os, symtable
ROOT='/repo/lena'
files=[os.path.join(dp,f) for dp,dn,fn in os.walk(ROOT) for f in fn if f.endswith('.py')]
print("modules", len(files))
# __all__
tot=0; n=0
for p in files:
    t=ast.parse(open(p).read())
    for st in t.body:
        if isinstance(st,ast.Assign) and any(isinstance(x,ast.Name) and x.id=='__all__' for x in st.targets):
            names=[e.value for e in st.value.elts]; tot+=len(names); n+=1; print(os.path.relpath(p,'/repo'), len(names))
print("__all__ modules",n,"names",tot)
# scopes
def count(t): return 1+sum(count(c) for c in t.get_children())
sc=0
for p in files:
    sc+=count(symtable.symtable(open(p).read(),p,'exec'))-1
print("non-module scopes", sc)
# run methods / generator __call__
runs=[]; setctx=[]; acc=[]; accreset=[]
for p in files:
    t=ast.parse(open(p).read())
    for c in [x for x in ast.walk(t) if isinstance(x,ast.ClassDef)]:
        ms={m.name:m for m in c.body if isinstance(m,ast.FunctionDef)}
        for m in ms.values():
            isgen=any(isinstance(x,(ast.Yield,ast.YieldFrom)) for x in ast.walk(m))
            args=[a.arg for a in m.args.args]
            if (m.name=='run' or (m.name.startswith('_') and 'run' in m.name) ) and 'flow' in args: runs.append(c.name+'.'+m.name)
            elif m.name=='__call__' and isgen and len(args)==1: runs.append(c.name+'.'+m.name)
        if '_set_context' in ms: setctx.append(c.name)
        if 'fill' in ms and ({'compute','request'}&set(ms)) and '/core/' not in p:
            acc.append(c.name)
            if {'reset','_reset'}&set(ms): accreset.append(c.name)
print("run-like", len(runs), runs)
print("_set_context", len(setctx), setctx)
print("accumulators outside core", len(acc), acc)
print("with reset", len(accreset), accreset)
# _update_context call sites
n=0
for p in files:
    t=ast.parse(open(p).read())
    for x in ast.walk(t):
        if isinstance(x,ast.Call) and isinstance(x.func,ast.Attribute) and x.func.attr=='_update_context' and len(x.args)==2:
            n+=1; print("  _update_context call", os.path.relpath(p,'/repo'), x.lineno, ast.unparse(x.args[1])[:50])
print("_update_context(ctx, var_context) calls", n)
# comparison sites in get_bin_on_value_1d
t=ast.parse(open('/repo/lena/structures/hist_functions.py').read())
fn=[x for x in ast.walk(t) if isinstance(x,ast.FunctionDef) and x.name=='get_bin_on_value_1d'][0]
cs=[ast.unparse(x) for x in ast.walk(fn) if isinstance(x,ast.Compare) and any(isinstance(n,ast.Name) and n.id=='val' for n in ast.walk(x))]
print("val comparisons", len(cs), cs)
# deepcopy calls total
n=0
for p in files:
    t=ast.parse(open(p).read())
    n+=sum(1 for x in ast.walk(t) if isinstance(x,ast.Call) and ast.unparse(x.func) in ('copy.deepcopy','deepcopy'))
print("deepcopy calls in lena", n)
