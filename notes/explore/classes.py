import ast, os
for dp,dn,fn in os.walk('/repo/lena'):
    for f in sorted(fn):
        if not f.endswith('.py'): continue
        p=os.path.join(dp,f); tree=ast.parse(open(p).read())
        for c in [n for n in ast.walk(tree) if isinstance(n,ast.ClassDef)]:
            ms=[m.name for m in c.body if isinstance(m,ast.FunctionDef)]
            tags=[m for m in ms if m in ('run','fill','compute','request','reset','fill_into','__call__','_set_context','_get_context','alter_sequence')]
            gens={m.name: any(isinstance(x,(ast.Yield,ast.YieldFrom)) for x in ast.walk(m)) for m in c.body if isinstance(m,ast.FunctionDef)}
            cb=[t.targets[0].id for t in c.body if isinstance(t,ast.Assign) and isinstance(t.targets[0],ast.Name)]
            if tags: print(f"{os.path.relpath(p,'/repo'):42s} {c.name:22s} {' '.join(t+('*' if gens.get(t) else '') for t in tags)}  {cb if cb else ''}")
