"""Obligations, findings, known-findings matching, evidence and replay files."""
import ast
import json
import os
import time

from . import astutil as A
from .loader import AnalysisError, where

VERIF = os.path.dirname(os.path.dirname(os.path.abspath(__file__)))
KNOWN_FINDINGS = os.path.join(VERIF, "known_findings.json")


def _path_stats():
    from . import paths
    return paths.STATS


class Finding(object):
    def __init__(self, prop, rule, module, function, construct, message, path=None, loc=None):
        self.prop = prop
        self.rule = rule
        self.module = module
        self.function = function
        self.construct = construct
        self.message = message
        self.path = list(path or [])
        self.loc = loc

    def key(self):
        return (self.rule, self.module, self.function, self.construct)

    def as_dict(self):
        return {"property": self.prop, "rule": self.rule, "module": self.module,
                "function": self.function, "construct": self.construct,
                "path": self.path, "message": self.message, "where": self.loc}

    def line(self):
        return "%s %s %s: %s" % (self.rule, self.loc or self.module, self.function, self.message)


def load_known(path=KNOWN_FINDINGS):
    if not os.path.exists(path):
        return []
    with open(path) as f:
        data = json.load(f)
    return data.get("findings", [])


def known_match(finding, known):
    """A finding is known iff a record with status 'known' names exactly this
    (rule, module, function, construct); 'fixed' records match nothing."""
    for rec in known:
        if rec.get("status") != "known":
            continue
        if (rec.get("rule"), rec.get("module"), rec.get("function"), rec.get("construct")) == finding.key():
            want = rec.get("path")
            if want:
                if not all(w in finding.path for w in want):
                    continue
            return rec
    return None


class Ctx(object):
    """What a rule module talks to."""

    def __init__(self, prop, tree, res, tier="quick"):
        self.prop = prop
        self.tree = tree
        self.res = res
        self.tier = tier
        self.obligations = []   # (rule, site, detail, nontrivial)
        self.findings = []
        self.unknowns = []      # (rule, message)
        self.instances = {}     # rule -> (count, floor)
        self.notes = {}
        self._seen_findings = set()

    # -- sites -----------------------------------------------------------------
    @staticmethod
    def site(node):
        m = getattr(node, "_module", None)
        fn = node if isinstance(node, (ast.FunctionDef, ast.AsyncFunctionDef, ast.ClassDef)) \
            else A.enclosing(node, (ast.FunctionDef, ast.AsyncFunctionDef, ast.ClassDef))
        return (m.name if m else "?", A.qualname(fn) if fn is not None else "<module>")

    def ok(self, rule, node, detail="", nontrivial=True):
        mod, fn = self.site(node) if not isinstance(node, tuple) else node
        self.obligations.append((rule, mod, fn, detail, nontrivial))

    def violation(self, rule, node, message, construct=None, path=None):
        mod, fn = self.site(node)
        if construct is None:
            construct = A.short(node, 160) if isinstance(node, ast.AST) else str(node)
        f = Finding(self.prop, rule, mod, fn, construct, message,
                    path=path.literal_srcs() if hasattr(path, "literal_srcs") else path,
                    loc=where(node))
        if f.key() in self._seen_findings:
            return f
        self._seen_findings.add(f.key())
        self.findings.append(f)
        self.obligations.append((rule, mod, fn, "VIOLATED: " + construct, True))
        return f

    def check(self, rule, cond, node, message, detail="", construct=None, path=None):
        """One obligation: discharged if cond, violation otherwise."""
        if cond:
            self.ok(rule, node, detail or message)
        else:
            self.violation(rule, node, message, construct=construct, path=path)
        return bool(cond)

    def unknown(self, rule, node, message):
        loc = where(node) if isinstance(node, ast.AST) else str(node)
        self.unknowns.append((rule, "%s: %s" % (loc, message)))

    def require(self, cond, rule, node, message):
        """An idiom the analyser needs in order to decide; absence is UNKNOWN."""
        if not cond:
            self.unknown(rule, node, message)
        return bool(cond)

    def instances_floor(self, rule, count, floor, what):
        self.instances[rule] = {"count": count, "floor": floor, "what": what}
        if count < floor:
            self.unknowns.append((rule, "instance count %d below the confirmed floor %d (%s)" % (count, floor, what)))

    def note(self, key, value):
        self.notes[key] = value


def finish(ctx, rules_doc, level_explanation, assumptions, t0, evidence_path=None, seed=0,
           extra_coverage=None, quiet=False, known=None, write=True):
    """Print result lines, write evidence and replay files, return exit code."""
    known = load_known() if known is None else known
    new, old = [], []
    for f in ctx.findings:
        rec = known_match(f, known)
        (old if rec else new).append((f, rec))
    out = []
    replay_dir = os.path.join(VERIF, "evidence", "replay")
    for f, rec in old:
        out.append("KNOWN-FINDING: property=%s rule=%s %s:%s %s -- %s" % (
            ctx.prop, f.rule, f.module, f.function, f.construct, rec.get("what", f.message)))
    n = 0
    for f, _ in new:
        n += 1
        rp = os.path.join(replay_dir, "%s-%d.json" % (ctx.prop, n))
        if write:
            os.makedirs(replay_dir, exist_ok=True)
            with open(rp, "w") as fh:
                json.dump(dict(f.as_dict(), root=ctx.tree.root, digest=ctx.tree.digest), fh, indent=1)
        out.append("  finding: " + f.line())
        if f.path:
            out.append("    on path: " + " and ".join(f.path[-8:]))
        out.append("VIOLATION property=%s replay=%s" % (ctx.prop, rp))
    for rule, msg in ctx.unknowns:
        out.append("ANALYSIS-ERROR property=%s rule=%s %s" % (ctx.prop, rule, msg))
    code = 1 if new else (2 if ctx.unknowns else 0)

    n_obl = len(ctx.obligations)
    n_viol = len(ctx.findings)
    distinct = len({(r, m, f, d) for r, m, f, d, nt in ctx.obligations if nt})
    samples = []
    seen_rules = set()
    for r, m, f, d, nt in ctx.obligations:
        if r not in seen_rules and nt:
            seen_rules.add(r)
            samples.append({"rule": r, "module": m, "function": f, "obligation": d})
    for f, rec in old + new:
        samples.append(dict(f.as_dict(), known=bool(rec)))
    per_rule = {}
    for r, m, f, d, nt in ctx.obligations:
        per_rule[r] = per_rule.get(r, 0) + 1
    coverage = {
        "explanation": level_explanation,
        "obligations": n_obl,
        "discharged": n_obl - n_viol,
        "evaluations": n_obl,
        "distinct_nontrivial": distinct,
        "rule": "one obligation per (rule, site or path) enumerated from the working tree; "
                "distinct = distinct (rule, module, function, obligation text); trivial ones "
                "(census entries without a verdict) are excluded",
        "samples": samples[:40],
        "exhaustive": True,
        "checker_cmd": "/venv/bin/python -m lenastatic check %s --tier %s" % (ctx.prop, ctx.tier),
        "trusted_base": ["CPython ast/symtable", "lenastatic idiom tables (DESIGN.md section 10)"],
        "rules": rules_doc,
        "obligations_per_rule": per_rule,
        "instances": ctx.instances,
        "source_digest": ctx.tree.digest,
        "files_parsed": ctx.tree.n_files,
        "root": ctx.tree.root,
        "functions_analysed": sorted({"%s:%s" % (m, f) for r, m, f, d, nt in ctx.obligations}),
        "paths_enumerated": dict(_path_stats()),
        "known_findings_matched": [f.as_dict() for f, _ in old],
        "unknowns": ["%s: %s" % u for u in ctx.unknowns],
        "notes": ctx.notes,
    }
    if extra_coverage:
        coverage.update(extra_coverage)
        coverage["evaluations"] = n_obl + int(extra_coverage.get("variants_analysed", 0))
    ev = {
        "property_id": ctx.prop,
        "tier": ctx.tier,
        "seed": int(seed),
        "level": "other",
        "coverage": coverage,
        "assumptions": assumptions,
        "wall_s": round(time.time() - t0, 3),
        "violations": len(new),
    }
    if write:
        path = evidence_path or os.path.join(VERIF, "evidence", "%s.json" % ctx.prop)
        os.makedirs(os.path.dirname(path), exist_ok=True)
        tmp = path + ".tmp"
        with open(tmp, "w") as fh:
            json.dump(ev, fh, indent=1, sort_keys=True, default=str)
            fh.write("\n")
        os.replace(tmp, path)
    if not quiet:
        for line in out:
            print(line)
        print("%s %s: %d obligations, %d discharged, %d known finding(s), %d new violation(s), %d unknown -- %s" % (
            ctx.prop, ctx.tier, n_obl, n_obl - n_viol, len(old), len(new), len(ctx.unknowns),
            {0: "HOLDS", 1: "VIOLATION", 2: "UNKNOWN"}[code]))
    return code, ev
