"""A7 -- effect classification: file-system / subprocess effects and mutation of
arguments, with summaries for functions of the tree (memoised, depth-limited)."""
import ast

from . import astutil as A
from .loader import methods

FS_EXACT = {
    "builtins.open", "io.open", "os.makedirs", "os.mkdir", "os.remove", "os.unlink", "os.rename", "os.replace",
    "os.rmdir", "os.removedirs", "os.system", "os.popen", "os.truncate", "os.symlink", "os.link", "os.utime",
    "os.chmod", "tempfile.mkstemp", "tempfile.NamedTemporaryFile", "tempfile.mkdtemp",
}
FS_PREFIX = ("subprocess.", "shutil.")

# methods that change their receiver
RECEIVER_MUTATORS = {
    "update", "pop", "popitem", "clear", "append", "appendleft", "extend", "extendleft", "insert", "remove",
    "sort", "reverse", "setdefault", "add", "discard", "fill", "reset", "set_nevents", "rotate",
    "__setitem__", "__delitem__",
}
# methods that change (some of) their arguments
ARG_MUTATORS = {"_update_context": (0,), "fill_into": (0,)}
# methods with a file-system effect whatever the receiver
FS_METHODS = {"write", "writelines", "Write", "SaveAs", "Print", "communicate_write"}

PURE_EXTERNAL_PREFIX = ("os.path.", "builtins.", "math.", "itertools.", "copy.", "collections.", "re.", "json.",
                        "warnings.", "sys.", "inspect.", "functools.", "operator.", "time.", "string.", "decimal.")


class Effects(object):
    def __init__(self, res):
        self.res = res
        self._fs = {}
        self._mut = {}

    # -- callee resolution -----------------------------------------------------
    def callee(self, call):
        """FunctionDef node of the callee when it is a function/method of the tree
        that can be identified statically (module function, nested def, self.method,
        ClassName.method), else None."""
        f = call.func
        if isinstance(f, ast.Attribute) and A.is_self_attr(f):
            cls = A.enclosing_class(call)
            if cls is not None:
                t = self.res.class_attr(self.res.class_target(cls._module.name, A.qualname(cls)), f.attr)
                if t is not None and t.is_func:
                    return t.node
            return None
        t = self.res.resolve(f) if isinstance(f, (ast.Name, ast.Attribute)) else None
        if t is not None and t.kind == "local" and isinstance(t.node, ast.Name):
            # local alias of a function: `_update = lena.context.update_recursively`
            st = A.parent(t.node)
            fn = A.enclosing_func(call)
            if isinstance(st, ast.Assign) and len(st.targets) == 1 and st.targets[0] is t.node and fn is not None:
                stores = [x for x in A.walk_local(fn) if isinstance(x, ast.Name) and x.id == t.node.id
                          and isinstance(x.ctx, ast.Store)]
                if len(stores) == 1 and isinstance(st.value, (ast.Name, ast.Attribute)):
                    t = self.res.resolve(st.value)
        if t is not None and t.is_func:
            return t.node
        return None

    # -- file-system effects -------------------------------------------------------
    def fs_effect_of_call(self, call, depth=3):
        """Description of a file-system/subprocess effect of this call, or None."""
        canon = self.res.canon(call.func) if isinstance(call.func, (ast.Name, ast.Attribute)) else None
        if canon is not None:
            if canon in FS_EXACT or canon.startswith(FS_PREFIX):
                return canon
        if isinstance(call.func, ast.Attribute) and call.func.attr in FS_METHODS and canon is None:
            base = call.func.value
            if not (isinstance(base, ast.Name) and base.id in ("sys",)):
                return "%s()" % A.src(call.func)
        fn = self.callee(call)
        if fn is not None and depth > 0:
            inner = self.fs_effect_of_function(fn, depth - 1)
            if inner:
                return "%s -> %s" % (A.src(call.func), inner)
        return None

    def fs_effect_of_function(self, fn, depth=3):
        if fn in self._fs:
            return self._fs[fn]
        self._fs[fn] = None
        out = None
        for n in A.walk_local(fn, include_self=False):
            if isinstance(n, ast.Call):
                e = self.fs_effect_of_call(n, depth)
                if e:
                    out = e
                    break
        self._fs[fn] = out
        return out

    def fs_effects_in(self, node):
        out = []
        for n in A.walk_local(node):
            if isinstance(n, ast.Call):
                e = self.fs_effect_of_call(n)
                if e:
                    out.append((n, e))
        return out

    # -- mutation --------------------------------------------------------------------
    def mutated_params(self, fn, depth=3):
        """Names of parameters of fn that may be changed in place by calling it."""
        if fn in self._mut:
            return self._mut[fn]
        self._mut[fn] = set()
        params = [p for p in A.func_params(fn) if p != "self"]
        alias = {p: {p} for p in params}   # param -> local names aliasing (parts of) it
        out = set()
        stmts = [n for n in A.walk_local(fn, include_self=False)]
        changed = True
        rounds = 0
        while changed and rounds < 4:
            changed = False
            rounds += 1
            for n in stmts:
                if isinstance(n, ast.Assign) and len(n.targets) >= 1:
                    roots = alias_roots(n.value)
                    for p, names in alias.items():
                        if roots & names:
                            for t in n.targets:
                                for nm in A.target_names(t):
                                    if isinstance(t, (ast.Name, ast.Tuple, ast.List)) and nm not in names:
                                        names.add(nm)
                                        changed = True
                elif isinstance(n, (ast.For,)):
                    roots = alias_roots(n.iter)
                    for p, names in alias.items():
                        if roots & names:
                            for nm in A.target_names(n.target):
                                if nm not in names:
                                    names.add(nm)
                                    changed = True
        for p, names in alias.items():
            for n in stmts:
                if self.mutation_through(n, names, depth):
                    out.add(p)
                    break
        self._mut[fn] = out
        return out

    def mutation_through(self, n, names, depth=3):
        """Does node n (one AST node, not recursive) change an object reachable
        through one of *names*?  Returns a description or None."""
        if isinstance(n, (ast.Subscript, ast.Attribute)) and isinstance(n.ctx, (ast.Store, ast.Del)):
            r = A.root_name(n)
            if r in names:
                return "store through %s" % r
        if isinstance(n, ast.AugAssign) and isinstance(n.target, (ast.Subscript, ast.Attribute)):
            r = A.root_name(n.target)
            if r in names:
                return "augmented store through %s" % r
        if isinstance(n, ast.Call):
            f = n.func
            if isinstance(f, ast.Attribute):
                r = A.root_name(f.value) if isinstance(f.value, (ast.Name, ast.Attribute, ast.Subscript)) else None
                if r in names and f.attr in RECEIVER_MUTATORS and self.res.canon(f) is None:
                    return "%s.%s() changes %s" % (A.short(f.value, 30), f.attr, r)
                if f.attr in ARG_MUTATORS:
                    for i in ARG_MUTATORS[f.attr]:
                        if i < len(n.args) and (alias_roots(n.args[i]) & names):
                            return "%s() changes its argument %s" % (f.attr, A.short(n.args[i], 30))
            fn = self.callee(n)
            if fn is not None and depth > 0:
                mp = self.mutated_params(fn, depth - 1)
                if mp:
                    params = [p for p in A.func_params(fn) if p != "self"]
                    # staticmethods called through an instance keep their parameter list
                    for i, a in enumerate(n.args):
                        if i < len(params) and params[i] in mp and (alias_roots(a) & names):
                            return "%s() changes its parameter %s" % (A.short(n.func, 40), params[i])
                    for k in n.keywords:
                        if k.arg in mp and (alias_roots(k.value) & names):
                            return "%s() changes its parameter %s" % (A.short(n.func, 40), k.arg)
        return None


def alias_roots(expr):
    """Names whose object (or a part of it) the value of expr may be: the root
    names of access paths, through subscripts/attributes, tuple displays, conditional
    expressions and calls of accessor-like functions (a call is assumed to be able
    to return a part of any argument, except a deep copy)."""
    out = set()
    if expr is None:
        return out
    if isinstance(expr, ast.Name):
        out.add(expr.id)
    elif isinstance(expr, (ast.Attribute, ast.Subscript, ast.Starred)):
        out |= alias_roots(expr.value)
    elif isinstance(expr, (ast.Tuple, ast.List)):
        for e in expr.elts:
            out |= alias_roots(e)
    elif isinstance(expr, ast.IfExp):
        out |= alias_roots(expr.body) | alias_roots(expr.orelse)
    elif isinstance(expr, ast.BoolOp):
        for v in expr.values:
            out |= alias_roots(v)
    elif isinstance(expr, ast.Call):
        name = A.call_name(expr)
        if name in ("deepcopy", "len", "isinstance", "hasattr", "callable", "str", "repr", "float", "int", "bool",
                    "format", "type", "id"):
            return out
        for a in expr.args:
            out |= alias_roots(a)
        for k in expr.keywords:
            out |= alias_roots(k.value)
        if isinstance(expr.func, ast.Attribute) and expr.func.attr in ("get", "items", "values", "keys", "setdefault", "pop", "copy"):
            out |= alias_roots(expr.func.value)
    return out
