"""Parse every lena/**/*.py of a working tree (or an in-memory overlay)."""
import ast
import hashlib
import os
import warnings

from . import astutil as A
from . import normalize


class AnalysisError(Exception):
    """The analyser cannot decide: vanished anchor, unknown idiom, parse error.

    Reported as ANALYSIS-ERROR, exit 2 -- never as a violation, never as a pass.
    """


class Module(object):
    def __init__(self, name, relpath, is_pkg, source, inline=True):
        self.name = name
        self.relpath = relpath
        self.is_pkg = is_pkg
        self.source = source
        try:
            with warnings.catch_warnings():
                warnings.simplefilter("ignore")
                self.tree = ast.parse(source, filename=relpath)
        except SyntaxError as err:
            raise AnalysisError("cannot parse %s: %s" % (relpath, err))
        # private helpers that the reference tree does not have are inlined into their callers (see normalize.py)
        self.inlined = normalize.inline_new_helpers(self.tree, name) if inline and os.environ.get("VERIF_NO_INLINE") != "1" else []
        if inline and os.environ.get("VERIF_NO_INLINE") != "1":
            self.unrolled_tables = normalize.unroll_constant_tables(self.tree)
        A.set_parents(self.tree, self)
        self._defs = None

    @property
    def package(self):
        return self.name if self.is_pkg else self.name.rpartition(".")[0]

    def defs(self):
        """qualname -> def/class node for every (nested) def in the module."""
        if self._defs is None:
            d = {}
            for n in ast.walk(self.tree):
                if isinstance(n, (ast.FunctionDef, ast.AsyncFunctionDef, ast.ClassDef)):
                    d.setdefault(A.qualname(n), n)
            self._defs = d
        return self._defs

    def get(self, qual):
        return self.defs().get(qual)

    def __repr__(self):
        return "<Module %s>" % self.name


class Tree(object):
    """All modules of the lena package found under *root*.

    overlay: {relpath: source} replaces (or adds) files in memory -- used by the
    self-tests, nothing is written to disk.
    """

    def __init__(self, root="/repo", overlay=None, inline=True):
        self.root = root
        self.modules = {}
        self.by_path = {}
        overlay = dict(overlay or {})
        pkgdir = os.path.join(root, "lena")
        if not os.path.isdir(pkgdir):
            raise AnalysisError("no lena package under %s" % root)
        files = {}
        for dp, dns, fns in os.walk(pkgdir):
            dns[:] = sorted(d for d in dns if d != "__pycache__")
            for fn in sorted(fns):
                if fn.endswith(".py"):
                    p = os.path.join(dp, fn)
                    rel = os.path.relpath(p, root)
                    with open(p, "rb") as f:
                        files[rel] = f.read().decode("utf-8")
        for rel, text in overlay.items():
            files[rel] = text
        h = hashlib.sha256()
        for rel in sorted(files):
            text = files[rel]
            h.update(rel.encode())
            h.update(b"\0")
            h.update(text.encode("utf-8"))
            h.update(b"\0")
            name = rel[:-3].replace(os.sep, ".")
            is_pkg = False
            if name.endswith(".__init__"):
                name = name[: -len(".__init__")]
                is_pkg = True
            m = Module(name, rel, is_pkg, text, inline)
            self.modules[name] = m
            self.by_path[rel] = m
        self.digest = h.hexdigest()
        self.n_files = len(files)

    # -- anchors -----------------------------------------------------------
    def module(self, name):
        m = self.modules.get(name)
        if m is None:
            raise AnalysisError("anchor vanished: module %s" % name)
        return m

    def node(self, module, qual):
        m = self.module(module)
        n = m.get(qual)
        if n is None:
            raise AnalysisError("anchor vanished: %s:%s" % (module, qual))
        return n

    def maybe(self, module, qual):
        m = self.modules.get(module)
        return m.get(qual) if m is not None else None

    def func(self, module, qual):
        n = self.node(module, qual)
        if not isinstance(n, (ast.FunctionDef, ast.AsyncFunctionDef)):
            raise AnalysisError("anchor %s:%s is not a function" % (module, qual))
        return n

    def cls(self, module, qual):
        n = self.node(module, qual)
        if not isinstance(n, ast.ClassDef):
            raise AnalysisError("anchor %s:%s is not a class" % (module, qual))
        return n

    def classes(self):
        """(module, classnode) for every top-level class."""
        for name in sorted(self.modules):
            m = self.modules[name]
            for st in m.tree.body:
                if isinstance(st, ast.ClassDef):
                    yield m, st

    def functions(self):
        """(module, funcnode) for every def anywhere."""
        for name in sorted(self.modules):
            m = self.modules[name]
            for n in ast.walk(m.tree):
                if isinstance(n, (ast.FunctionDef, ast.AsyncFunctionDef)):
                    yield m, n


def methods(cls):
    """name -> FunctionDef of the methods defined directly in the class body
    (descending into if/try blocks of the class body)."""
    out = {}

    def visit(body):
        for st in body:
            if isinstance(st, (ast.FunctionDef, ast.AsyncFunctionDef)):
                out[st.name] = st
            elif isinstance(st, ast.If):
                visit(st.body)
                visit(st.orelse)
            elif isinstance(st, ast.Try):
                visit(st.body)
                visit(st.orelse)
                visit(st.finalbody)
                for h in st.handlers:
                    visit(h.body)
    visit(cls.body)
    return out


def where(node):
    m = getattr(node, "_module", None)
    return "%s:%s" % (m.relpath if m else "?", getattr(node, "lineno", "?"))
