"""A3 -- syntax-directed path enumeration.

A function body (or any statement list) is unfolded into the finite set of
acyclic paths with one loop unrolling.  A path is a list of events

    ('stmt', node)            simple statement executed (incl. return / raise)
    ('cond', test, bool)      branch condition with its outcome
    ('iter', fornode)         one element pulled at a for head
    ('loop0', loopnode)       loop left without executing its body
    ('enter', whilenode)      while loop entered (a for loop is entered by its 'iter')
    ('backedge', loopnode)    end of the unrolled iteration
    ('break', loopnode)
    ('with', withnode)
    ('try', trynode)          try block entered
    ('partial', stmt)         statement interrupted by an exception (may or may not have had effect)
    ('exc', handler)          handler entered
    ('def', node)             nested def/class statement

and ends with ``fall | return | raise | continue | break | loop`` ('loop':
the path goes round a ``while True`` again).

Constants assigned to local names are propagated along the path; a later
branch literal on such a name that contradicts the constant prunes the path
(infeasible).  All rules built on this are universally quantified safety
conditions, so an extra (infeasible) path can only add an obligation.
"""
import ast

from . import astutil as A
from .loader import AnalysisError

MAX_PATHS = 60000


class Path(object):
    __slots__ = ("ev", "end", "env", "facts")

    def __init__(self, ev=None, end="fall", env=None, facts=None):
        self.ev = list(ev) if ev else []
        self.end = end
        self.env = dict(env) if env else {}
        self.facts = dict(facts) if facts else {}

    def plus(self, *events):
        return Path(self.ev + list(events), self.end, self.env, self.facts)

    # convenience views -----------------------------------------------------
    def stmts(self):
        return [e[1] for e in self.ev if e[0] == "stmt"]

    def conds(self):
        return [(e[1], e[2]) for e in self.ev if e[0] == "cond"]

    def literals(self):
        out = []
        for i, e in enumerate(self.ev):
            if e[0] == "cond":
                out.extend(A.literals(self._explained(e[1], i), e[2]))
        return out

    def _explained(self, test, i):
        """A test that is a local name (or its negation) bound once on the path so far, by a plain assignment of a condition
        (comparison, and/or/not, isinstance/hasattr/callable/len) whose operands are not rebound before the test, is read as
        that condition: `deeper = a and b; if deeper:` branches on `a and b` (an explaining variable, not a flag)."""
        t, neg = test, False
        while isinstance(t, ast.UnaryOp) and isinstance(t.op, ast.Not):
            t, neg = t.operand, not neg
        if not isinstance(t, ast.Name):
            return test
        at = None
        n_bind = 0
        for k, ev in enumerate(self.ev[:i]):
            names = []
            if ev[0] in ("stmt", "partial"):
                names = [x for tg in A.assigned_targets(ev[1]) for x in A.target_names(tg)]
            elif ev[0] == "iter":
                names = A.target_names(ev[1].target)
            if t.id in names:
                n_bind += 1
                at = k if (ev[0] == "stmt" and isinstance(ev[1], ast.Assign) and len(ev[1].targets) == 1
                           and isinstance(ev[1].targets[0], ast.Name)) else None
        if n_bind != 1 or at is None:
            return test
        v = self.ev[at][1].value
        if not isinstance(v, (ast.BoolOp, ast.Compare, ast.UnaryOp, ast.Call)):
            return test
        for n in ast.walk(v):
            if isinstance(n, (ast.Name, ast.Constant, ast.BoolOp, ast.Compare, ast.UnaryOp, ast.BinOp, ast.Attribute, ast.Subscript, ast.Tuple,
                              ast.operator, ast.unaryop, ast.cmpop, ast.boolop, ast.expr_context)):
                continue
            if isinstance(n, ast.Call) and isinstance(n.func, ast.Name) and n.func.id in ("isinstance", "hasattr", "callable", "len") \
                    and not n.keywords:
                continue
            return test
        used = {n.id for n in ast.walk(v) if isinstance(n, ast.Name)} - {"isinstance", "hasattr", "callable", "len"}
        for ev in self.ev[at + 1:i]:
            names = []
            if ev[0] in ("stmt", "partial"):
                names = [x for tg in A.assigned_targets(ev[1]) for x in A.target_names(tg)]
            elif ev[0] == "iter":
                names = A.target_names(ev[1].target)
            if used & set(names):
                return test
        return ast.UnaryOp(op=ast.Not(), operand=v) if neg else v

    def literal_srcs(self):
        out = []
        for t, pol in self.literals():
            s = A.src(t)
            if not pol:
                s = "not (%s)" % s if isinstance(t, (ast.BoolOp, ast.Compare, ast.IfExp)) else "not " + s
            out.append(s)
        return out

    def cases(self):
        """Disjunctive normal form of the path condition: a list of cases, each a
        list of (expr, polarity) atoms (an untaken `a and b` is `not a` or `not b`)."""
        cases = [[]]
        for t, pol in self.literals():
            alts = _alternatives(t, pol)
            cases = [c + alt for c in cases for alt in alts]
            if len(cases) > 256:
                raise AnalysisError("path condition too large")
        return cases

    def index(self, node):
        for i, e in enumerate(self.ev):
            if e[1] is node:
                return i
        return -1

    def has(self, node):
        return self.index(node) >= 0

    def describe(self, limit=8):
        conds = self.literal_srcs()
        excs = [A.short(e[1].type, 40) if e[1].type is not None else "BaseException"
                for e in self.ev if e[0] == "exc"]
        s = " and ".join(conds[-limit:]) if conds else "(unconditional)"
        if excs:
            s += " [in handler of %s]" % ", ".join(excs)
        return s

    def exprs(self):
        """[(event index, expression/statement node)] evaluated along the path, in order:
        simple statements, branch tests, loop iterables (once per loop, when it is entered
        or skipped), with-items.  'partial' statements are not included."""
        out = []
        seen_loops = set()
        for i, e in enumerate(self.ev):
            k = e[0]
            if k == "stmt":
                out.append((i, e[1]))
            elif k == "cond":
                out.append((i, e[1]))
            elif k in ("iter", "loop0") and isinstance(e[1], (ast.For, ast.AsyncFor)):
                if id(e[1]) not in seen_loops:
                    seen_loops.add(id(e[1]))
                    out.append((i, e[1].iter))
            elif k == "with":
                for it in e[1].items:
                    out.append((i, it.context_expr))
        return out

    def calls(self):
        """[(event index, Call node)] executed along the path (see exprs)."""
        out = []
        for i, n in self.exprs():
            for c in A.walk_local(n):
                if isinstance(c, ast.Call):
                    out.append((i, c))
        return out

    def yields(self):
        """[(event index, Yield node)] in order."""
        out = []
        for i, e in enumerate(self.ev):
            if e[0] in ("stmt",):
                for y in _yields_in(e[1]):
                    out.append((i, y))
        return out


def _alternatives(t, pol):
    """[(expr, pol)] literal -> list of alternative atom lists."""
    t, p2 = A.strip_not(t)
    pol = pol if p2 else (not pol)
    if isinstance(t, ast.BoolOp):
        conj = (isinstance(t.op, ast.And) and pol) or (isinstance(t.op, ast.Or) and not pol)
        parts = [_alternatives(v, pol) for v in t.values]
        if conj:
            out = [[]]
            for alts in parts:
                out = [c + a for c in out for a in alts]
            return out
        out = []
        for alts in parts:
            out.extend(alts)
        return out
    return [[(t, pol)]]


def _yields_in(st):
    return [n for n in A.walk_local(st) if isinstance(n, (ast.Yield, ast.YieldFrom))]


def _const_of(node):
    if isinstance(node, ast.Constant):
        return ("c", node.value)
    # empty displays have a known truth value (and `x == []` style tests are not folded: only truthiness is used)
    if isinstance(node, ast.Tuple) and not node.elts:
        return ("c", ())
    if isinstance(node, (ast.List, ast.Set)) and not node.elts:
        return ("m", ())       # mutable: forgotten as soon as the name is handed to a call or stored through
    if isinstance(node, ast.Dict) and not node.keys:
        return ("m", ())
    # a module-level sentinel (`cell = _OUTSIDE_EDGES`): only its identity is known
    if isinstance(node, ast.Name) and node.id.strip("_") and node.id.strip("_").isupper():
        return ("s", node.id)
    return None


def _truth(cv):
    return bool(cv[1])


def _forget_mutated(env, node):
    """An empty list/dict/set bound to a name stays empty only until something may fill it: the name used as the receiver
    or an argument of a call, or as the root of a subscript/attribute store."""
    if not any(v[0] == "m" for v in env.values()):
        return
    for n in ast.walk(node):
        names = []
        if isinstance(n, ast.Call):
            parts = list(n.args) + [k.value for k in n.keywords]
            if isinstance(n.func, ast.Attribute):
                parts.append(n.func.value)
            for a in parts:
                names.extend(x.id for x in ast.walk(a) if isinstance(x, ast.Name))
        elif isinstance(n, (ast.Subscript, ast.Attribute)) and isinstance(n.ctx, (ast.Store, ast.Del)):
            r = A.root_name(n)
            if r:
                names.append(r)
        elif isinstance(n, (ast.Yield, ast.YieldFrom, ast.Return)) and n.value is not None:
            names.extend(x.id for x in ast.walk(n.value) if isinstance(x, ast.Name))
        elif isinstance(n, ast.Assign):
            # aliasing: y = x lets y fill x
            if isinstance(n.value, ast.Name):
                names.append(n.value.id)
        for nm in names:
            if nm in env and env[nm][0] == "m":
                del env[nm]


def _update_env(env, st):
    """Track `name = <constant>`; forget a name on any other store to it."""
    _forget_mutated(env, st)
    if isinstance(st, ast.Assign) and len(st.targets) == 1 and isinstance(st.targets[0], ast.Name):
        cv = _const_of(st.value)
        if cv is not None:
            env[st.targets[0].id] = cv
            return
    for tgt in A.assigned_targets(st):
        for nm in A.target_names(tgt):
            env.pop(nm, None)
    if isinstance(st, ast.Delete):
        for t in st.targets:
            for nm in A.target_names(t):
                env.pop(nm, None)


def _lit_value(env, expr):
    """Truth value of a literal expression under env, or None."""
    if isinstance(expr, ast.Name) and expr.id in env:
        return _truth(env[expr.id]) if env[expr.id][0] != "s" else None
    if isinstance(expr, ast.Compare) and len(expr.ops) == 1 and isinstance(expr.left, ast.Name) and expr.left.id in env \
            and env[expr.left.id][0] == "s":
        # `x is SENTINEL` after `x = SENTINEL`
        r = expr.comparators[0]
        if isinstance(r, ast.Name) and r.id == env[expr.left.id][1] and isinstance(expr.ops[0], (ast.Is, ast.IsNot)):
            return isinstance(expr.ops[0], ast.Is)
        return None
    if isinstance(expr, ast.Constant):
        return bool(expr.value)
    if isinstance(expr, ast.Compare) and len(expr.ops) == 1 and isinstance(expr.left, ast.Name) \
            and expr.left.id in env and isinstance(expr.comparators[0], ast.Constant):
        lv = env[expr.left.id][1]
        rv = expr.comparators[0].value
        op = expr.ops[0]
        try:
            if isinstance(op, ast.Is):
                return lv is rv
            if isinstance(op, ast.IsNot):
                return lv is not rv
            if isinstance(op, ast.Eq):
                return lv == rv
            if isinstance(op, ast.NotEq):
                return lv != rv
        except Exception:
            return None
    return None


def _feasible(env, test, outcome):
    for expr, pol in A.literals(test, outcome):
        v = _lit_value(env, expr)
        if v is not None and v != pol:
            return False
    return True


def _pure_atom(expr):
    """Expression without calls/yields whose value can only change through a store
    or a call that receives one of its names."""
    for n in ast.walk(expr):
        if isinstance(n, (ast.Call, ast.Yield, ast.YieldFrom, ast.Await, ast.NamedExpr, ast.Lambda,
                          ast.ListComp, ast.SetComp, ast.DictComp, ast.GeneratorExp)):
            return False
    return True


def _fact_names(expr):
    """Names a fact depends on; attribute chains rooted in self count as
    'self.<attr>' so that unrelated uses of self do not invalidate them."""
    out = set()
    skip = set()
    for n in ast.walk(expr):
        if isinstance(n, ast.Attribute) and isinstance(n.value, ast.Name) and n.value.id == "self":
            out.add("self." + n.attr)
            skip.add(id(n.value))
    for n in ast.walk(expr):
        if isinstance(n, ast.Name) and id(n) not in skip:
            out.add(n.id)
    return out


def _facts_consistent(facts, test, outcome):
    """Record the pure atoms asserted by this branch; False if one of them was
    asserted with the opposite polarity earlier on the path (and nothing that
    could change it happened in between)."""
    new = {}
    for expr, pol in A.literals(test, outcome):
        e, p2 = A.strip_not(expr)
        pol = pol if p2 else (not pol)
        if isinstance(e, ast.BoolOp) or not _pure_atom(e):
            continue
        if isinstance(e, ast.Compare) and len(e.ops) == 1 and isinstance(e.ops[0], (ast.IsNot, ast.NotEq, ast.NotIn)):
            flip = {ast.IsNot: ast.Is, ast.NotEq: ast.Eq, ast.NotIn: ast.In}[type(e.ops[0])]
            e = ast.Compare(left=e.left, ops=[flip()], comparators=e.comparators)
            pol = not pol
        key = A.src(e)
        old = facts.get(key)
        if old is not None and old[0] != pol:
            return None
        new[key] = (pol, _fact_names(e))
    return new


_PURE_CALLS = {"hasattr", "isinstance", "callable", "len", "getattr", "str", "repr", "bool", "int", "float",
               "type", "id", "print", "any", "all", "min", "max", "sum", "sorted", "tuple", "issubclass", "abs",
               "format", "range", "enumerate", "zip"}


def _invalidate_facts(facts, node):
    """Forget facts that the execution of *node* may change: names it stores,
    roots of subscript/attribute stores, and every name that occurs inside a call
    (as receiver or argument).  `self.x` is only touched by stores to self.x, by
    calls that receive self.x (or self itself), and by calls of self's methods."""
    if not facts:
        return
    touched = set()
    all_self = False
    for n in ast.walk(node):
        if isinstance(n, ast.Name) and isinstance(n.ctx, (ast.Store, ast.Del)):
            touched.add(n.id)
        elif isinstance(n, (ast.Subscript, ast.Attribute)) and isinstance(n.ctx, (ast.Store, ast.Del)):
            touched |= _fact_names(n)
            r = A.root_name(n)
            if r and r != "self":
                touched.add(r)
        elif isinstance(n, ast.Call):
            if isinstance(n.func, ast.Name) and n.func.id in _PURE_CALLS:
                continue
            if isinstance(n.func, ast.Attribute) and isinstance(n.func.value, ast.Name) and n.func.value.id == "self":
                all_self = True   # a method of self may rebind any field
            parts = list(n.args) + [k.value for k in n.keywords]
            if isinstance(n.func, ast.Attribute):
                parts.append(n.func.value)
            for a in parts:
                touched |= _fact_names(a)
                if isinstance(a, ast.Name) and a.id == "self":
                    all_self = True
        elif isinstance(n, (ast.Yield, ast.YieldFrom)):
            # the consumer may do anything to yielded objects
            if n.value is not None:
                touched |= _fact_names(n.value)
    for k in [k for k, (pol, names) in facts.items()
              if names & touched or (all_self and any(x.startswith("self.") or x == "self" for x in names))]:
        del facts[k]


def _is_true_const(test):
    return isinstance(test, ast.Constant) and bool(test.value) is True


class Enumerator(object):
    def __init__(self, prune=True, unroll=1):
        self.prune = prune
        self.count = 0
        self.unroll = unroll   # iterations of every loop that are unfolded (1 or 2)

    def seq(self, paths, stmts):
        for st in stmts:
            new = []
            for p in paths:
                if p.end != "fall":
                    new.append(p)
                else:
                    new.extend(self.step(p, st))
            paths = new
            if len(paths) > MAX_PATHS:
                raise AnalysisError("path explosion (> %d paths)" % MAX_PATHS)
        return paths

    def branch(self, p, test, outcome):
        # an explaining variable stands for its condition (see Path._explained)
        test = p._explained(test, len(p.ev))
        if self.prune and not _feasible(p.env, test, outcome):
            return None
        q = p.plus(("cond", test, outcome))
        _forget_mutated(q.env, test)
        if self.prune:
            # calls inside the test itself may change things
            _invalidate_facts(q.facts, test)
            new = _facts_consistent(q.facts, test, outcome)
            if new is None:
                return None
            q.facts.update(new)
        return q

    def step(self, p, st):
        if isinstance(st, ast.If):
            out = []
            t = self.branch(p, st.test, True)
            if t is not None:
                out.extend(self.seq([t], st.body))
            f = self.branch(p, st.test, False)
            if f is not None:
                out.extend(self.seq([f], st.orelse))
            return out
        if isinstance(st, (ast.For, ast.AsyncFor, ast.While)):
            return self.loop(p, st)
        if isinstance(st, ast.Try):
            return self.try_(p, st)
        if isinstance(st, (ast.With, ast.AsyncWith)):
            q = p.plus(("with", st))
            for it in st.items:
                _forget_mutated(q.env, it.context_expr)
                _invalidate_facts(q.facts, it.context_expr)
                if it.optional_vars is not None:
                    _invalidate_facts(q.facts, it.optional_vars)
            for it in st.items:
                if it.optional_vars is not None:
                    for nm in A.target_names(it.optional_vars):
                        q.env.pop(nm, None)
            return self.seq([q], st.body)
        if isinstance(st, ast.Return):
            q = p.plus(("stmt", st))
            q.end = "return"
            return [q]
        if isinstance(st, ast.Raise):
            q = p.plus(("stmt", st))
            q.end = "raise"
            return [q]
        if isinstance(st, ast.Continue):
            q = p.plus()
            q.end = "continue"
            return [q]
        if isinstance(st, ast.Break):
            q = p.plus()
            q.end = "break"
            return [q]
        if isinstance(st, (ast.FunctionDef, ast.AsyncFunctionDef, ast.ClassDef)):
            q = p.plus(("def", st))
            q.env.pop(st.name, None)
            return [q]
        q = p.plus(("stmt", st))
        _update_env(q.env, st)
        _invalidate_facts(q.facts, st)
        return [q]

    def loop(self, p, st):
        out = []
        forever = isinstance(st, ast.While) and _is_true_const(st.test)
        # zero iterations
        if not forever:
            if isinstance(st, ast.While):
                z = self.branch(p, st.test, False)
                if z is not None:
                    z = z.plus(("loop0", st))
            else:
                z = p.plus(("loop0", st))
            if z is not None:
                out.extend(self.seq([z], st.orelse))
        # one iteration
        if isinstance(st, ast.While):
            base = p.plus(("enter", st))
            one = self.branch(base, st.test, True) if not forever else base.plus(("cond", st.test, True))
        else:
            one = p.plus(("iter", st))
            _forget_mutated(one.env, st.iter)
            for nm in A.target_names(st.target):
                one.env.pop(nm, None)
            _invalidate_facts(one.facts, st.target)
            _invalidate_facts(one.facts, st.iter)
        if one is None:
            return out
        iterations = self.seq([one], st.body)
        for _ in range(self.unroll - 1):
            nxt = []
            for q in iterations:
                if q.end in ("fall", "continue"):
                    q2 = q.plus(("backedge", st))
                    q2.end = "fall"
                    if isinstance(st, ast.While):
                        q2 = q2.plus(("enter", st))
                        q3 = self.branch(q2, st.test, True) if not forever else q2.plus(("cond", st.test, True))
                        if q3 is None:
                            continue
                        # the loop may also stop here
                        if not forever:
                            z = self.branch(q2, st.test, False)
                            if z is not None:
                                z.end = "fall"
                                out.extend(self.seq([z], st.orelse))
                    else:
                        q3 = q2.plus(("iter", st))
                        for nm in A.target_names(st.target):
                            q3.env.pop(nm, None)
                        _invalidate_facts(q3.facts, st.target)
                        # the loop may also stop after the first iteration
                        stop = q2.plus()
                        stop.end = "fall"
                        out.extend(self.seq([stop], st.orelse))
                    nxt.extend(self.seq([q3], st.body))
                else:
                    nxt.append(q)
            iterations = nxt
        for q in iterations:
            if q.end in ("fall", "continue"):
                qq = q.plus(("backedge", st))
                qq.end = "fall"
                # after further iterations anything assigned in the loop may differ
                for bst in st.body:
                    _invalidate_facts(qq.facts, bst)
                    _forget_mutated(qq.env, bst)
                if forever:
                    qq.end = "loop"
                    out.append(qq)
                else:
                    # names rebound in the loop are unknown after further iterations
                    for n in A.walk_body(st.body):
                        if isinstance(n, ast.Name) and isinstance(n.ctx, ast.Store):
                            if n.id in qq.env and not _single_const_store(st, n.id, qq.env[n.id]):
                                qq.env.pop(n.id, None)
                    out.extend(self.seq([qq], st.orelse))
            elif q.end == "break":
                qq = q.plus(("break", st))
                qq.end = "fall"
                out.append(qq)
            else:
                out.append(q)
        return out

    def try_(self, p, st):
        out = []
        start = p.plus(("try", st))
        body = self.seq([start], st.body)
        normal = []
        for q in body:
            if q.end == "fall":
                normal.extend(self.seq([q], st.orelse))
            else:
                normal.append(q)
        exceptional = []
        if st.handlers:
            # prefixes: body[:k] completed, body[k] interrupted
            prefixes = [start]
            for k, bst in enumerate(st.body):
                for h in st.handlers:
                    for q in prefixes:
                        if q.end != "fall":
                            continue
                        hp = q.plus(("partial", bst), ("exc", h))
                        _invalidate_facts(hp.facts, bst)
                        for n in A.walk_local(bst):
                            if isinstance(n, ast.Name) and isinstance(n.ctx, ast.Store):
                                hp.env.pop(n.id, None)
                        if h.name:
                            hp.env.pop(h.name, None)
                        exceptional.extend(self.seq([hp], h.body))
                if k + 1 < len(st.body):
                    prefixes = self.seq(prefixes, [bst])
            # a `raise` reached inside the body may be caught too: conservative, the
            # raising paths are kept as raising (lena never relies on that)
        out = normal + exceptional
        if st.finalbody:
            fin = []
            for q in out:
                e = q.end
                q2 = Path(q.ev, "fall", q.env, q.facts)
                for x in self.seq([q2], st.finalbody):
                    if x.end == "fall":
                        x.end = e
                    fin.append(x)
            out = fin
        return out


def _single_const_store(loop, name, cv):
    """All stores to *name* in the loop assign the same constant cv."""
    for n in A.walk_body(loop.body):
        if isinstance(n, ast.Assign):
            for t in n.targets:
                if name in A.target_names(t):
                    if not (isinstance(t, ast.Name) and _const_of(n.value) == cv):
                        return False
        elif isinstance(n, (ast.AugAssign, ast.For, ast.With)):
            for t in A.assigned_targets(n):
                if name in A.target_names(t):
                    return False
    return True


STATS = {"enumerations": 0, "paths": 0}


def _count(ps):
    STATS["enumerations"] += 1
    STATS["paths"] += len(ps)
    return ps


def paths_of(fn, prune=True, unroll=1):
    """All paths through the body of function *fn*."""
    return _count(Enumerator(prune, unroll).seq([Path()], fn.body))


def paths_through(stmts, prune=True, env=None):
    return _count(Enumerator(prune).seq([Path(env=env)], stmts))


def loop_body_paths(loop, prune=True):
    """Paths through one iteration of *loop*'s body (ends: fall/continue/break/
    return/raise)."""
    return _count(Enumerator(prune).seq([Path()], loop.body))
