"""Small AST helpers shared by all analyses."""
import ast

FUNC = (ast.FunctionDef, ast.AsyncFunctionDef, ast.Lambda)
SCOPE = FUNC + (ast.ClassDef, ast.ListComp, ast.SetComp, ast.DictComp, ast.GeneratorExp)


def set_parents(tree, module=None):
    for node in ast.walk(tree):
        for ch in ast.iter_child_nodes(node):
            ch._parent = node
    tree._parent = None
    if module is not None:
        for node in ast.walk(tree):
            node._module = module


def parent(node):
    return getattr(node, "_parent", None)


def ancestors(node):
    n = parent(node)
    while n is not None:
        yield n
        n = parent(n)


def enclosing(node, kinds):
    for a in ancestors(node):
        if isinstance(a, kinds):
            return a
    return None


def enclosing_func(node):
    return enclosing(node, FUNC)


def enclosing_class(node):
    return enclosing(node, ast.ClassDef)


def qualname(node):
    """Class.method / function / Class for a def node."""
    parts = []
    n = node
    while n is not None:
        if isinstance(n, (ast.FunctionDef, ast.AsyncFunctionDef, ast.ClassDef)):
            parts.append(n.name)
        elif isinstance(n, ast.Lambda):
            parts.append("<lambda>")
        n = parent(n)
    return ".".join(reversed(parts))


def src(node):
    """Normalised source text of a node (independent of layout and line numbers)."""
    try:
        return ast.unparse(node)
    except Exception:  # pragma: no cover
        return "<%s>" % type(node).__name__


def short(node, n=110):
    s = " ".join(src(node).split())
    return s if len(s) <= n else s[: n - 3] + "..."


def walk_local(node, include_self=True):
    """Walk *node* without descending into nested function/class definitions
    (lambdas and comprehensions are descended into: they see the same locals
    for reading)."""
    stack = [node]
    first = True
    while stack:
        n = stack.pop()
        if not first and isinstance(n, (ast.FunctionDef, ast.AsyncFunctionDef, ast.ClassDef)):
            # the nested definition itself is visible (it binds a name), its body is not
            yield n
            continue
        if include_self or not first:
            yield n
        first = False
        stack.extend(reversed(list(ast.iter_child_nodes(n))))


def walk_body(stmts):
    for st in stmts:
        for n in walk_local(st):
            yield n


def attr_chain(node):
    """self._hist.fill -> ['self', '_hist', 'fill']; None if not a pure chain."""
    parts = []
    while isinstance(node, ast.Attribute):
        parts.append(node.attr)
        node = node.value
    if isinstance(node, ast.Name):
        parts.append(node.id)
        return list(reversed(parts))
    return None


def dotted(node):
    ch = attr_chain(node)
    return ".".join(ch) if ch else None


def root_name(node):
    """Innermost Name of an attribute/subscript/call-free access path."""
    while isinstance(node, (ast.Attribute, ast.Subscript, ast.Starred)):
        node = node.value
    if isinstance(node, ast.Name):
        return node.id
    return None


def is_self_attr(node, name=None):
    return (isinstance(node, ast.Attribute) and isinstance(node.value, ast.Name)
            and node.value.id == "self" and (name is None or node.attr == name))


def names_loaded(node):
    return {n.id for n in ast.walk(node) if isinstance(n, ast.Name) and isinstance(n.ctx, ast.Load)}


def names_in(node):
    return {n.id for n in ast.walk(node) if isinstance(n, ast.Name)}


def target_names(target):
    """Names bound by an assignment/for target."""
    out = []
    for n in ast.walk(target):
        if isinstance(n, ast.Name) and isinstance(n.ctx, (ast.Store, ast.Del)):
            out.append(n.id)
    return out


def assigned_targets(stmt):
    if isinstance(stmt, ast.Assign):
        return list(stmt.targets)
    if isinstance(stmt, (ast.AugAssign, ast.AnnAssign)):
        return [stmt.target]
    if isinstance(stmt, (ast.For, ast.AsyncFor)):
        return [stmt.target]
    if isinstance(stmt, (ast.With, ast.AsyncWith)):
        return [i.optional_vars for i in stmt.items if i.optional_vars is not None]
    return []


def const(node, default=None):
    if isinstance(node, ast.Constant):
        return node.value
    return default


def is_const(node, value):
    return isinstance(node, ast.Constant) and node.value == value and type(node.value) is type(value)


def call_name(call):
    """Last component of the callee: f(), a.b.f() -> 'f'."""
    if not isinstance(call, ast.Call):
        return None
    f = call.func
    if isinstance(f, ast.Name):
        return f.id
    if isinstance(f, ast.Attribute):
        return f.attr
    return None


def kwarg(call, name):
    for k in call.keywords:
        if k.arg == name:
            return k.value
    return None


def is_docstring_stmt(st):
    return isinstance(st, ast.Expr) and isinstance(st.value, ast.Constant) and isinstance(st.value.value, str)


def is_noop_stmt(st):
    """An expression statement that only evaluates a constant (docstring, `None`, `...`) or `pass`."""
    return isinstance(st, ast.Pass) or (isinstance(st, ast.Expr) and isinstance(st.value, ast.Constant))


def body_wo_doc(fn):
    """Body of a def without its docstring and without no-op statements."""
    body = list(fn.body)
    if body and is_docstring_stmt(body[0]):
        body = body[1:]
    real = [st for st in body if not is_noop_stmt(st)]
    return real if real or not body else real


def is_generator(fn):
    for n in walk_local(fn, include_self=False):
        if isinstance(n, (ast.Yield, ast.YieldFrom)):
            # yields inside lambdas/comprehensions do not occur in lena
            return True
    return False


def func_params(fn):
    a = fn.args
    names = [x.arg for x in a.posonlyargs + a.args + a.kwonlyargs]
    if a.vararg:
        names.append(a.vararg.arg)
    if a.kwarg:
        names.append(a.kwarg.arg)
    return names


def param_defaults(fn):
    """name -> default expression node for parameters having one."""
    a = fn.args
    pos = a.posonlyargs + a.args
    out = {}
    for p, d in zip(pos[len(pos) - len(a.defaults):], a.defaults):
        out[p.arg] = d
    for p, d in zip(a.kwonlyargs, a.kw_defaults):
        if d is not None:
            out[p.arg] = d
    return out


def strip_not(test):
    """(expr, polarity): peel leading `not`s."""
    pol = True
    while isinstance(test, ast.UnaryOp) and isinstance(test.op, ast.Not):
        test = test.operand
        pol = not pol
    return test, pol


def literals(test, polarity):
    """Decompose a branch condition into the literals its polarity determines.

    Returns a list of (expr_node, bool).  `a and b` taken => a, b;
    `a or b` not taken => not a, not b; anything else is one literal.
    """
    test, pol = strip_not(test)
    polarity = polarity if pol else (not polarity)
    if isinstance(test, ast.BoolOp):
        if isinstance(test.op, ast.And) and polarity:
            out = []
            for v in test.values:
                out.extend(literals(v, True))
            return out
        if isinstance(test.op, ast.Or) and not polarity:
            out = []
            for v in test.values:
                out.extend(literals(v, False))
            return out
    return [(test, polarity)]


def int_const(node):
    """Integer value of a literal, including negative literals (-1); None otherwise."""
    if isinstance(node, ast.Constant) and isinstance(node.value, int) and not isinstance(node.value, bool):
        return node.value
    if isinstance(node, ast.UnaryOp) and isinstance(node.op, ast.USub) and isinstance(node.operand, ast.Constant) \
            and isinstance(node.operand.value, int):
        return -node.operand.value
    return None


def _clone(node, mapping):
    """Structural copy of an AST (only its _fields; the analyser's _parent/_module back links are not followed),
    with the Names of *mapping* renamed."""
    if isinstance(node, ast.AST):
        if isinstance(node, ast.Name) and node.id in mapping:
            return ast.Name(id=mapping[node.id], ctx=node.ctx)
        if isinstance(node, ast.ExceptHandler) and node.name in mapping:
            kw = {f: _clone(getattr(node, f, None), mapping) for f in node._fields}
            kw["name"] = mapping[node.name]
            return ast.ExceptHandler(**kw)
        return type(node)(**{f: _clone(getattr(node, f, None), mapping) for f in node._fields})
    if isinstance(node, list):
        return [_clone(x, mapping) for x in node]
    return node


def src_with(node, mapping):
    """Source text of *node* with the local names of *mapping* (actual -> canonical) substituted:
    lets a rule compare expressions independently of how the analysed code names its locals."""
    if node is None:
        return None
    if not mapping:
        return src(node)
    return src(ast.fix_missing_locations(_clone(node, mapping)))


def single_def(fn, name):
    """Value expression of the only assignment `name = <expr>` in fn, else None."""
    vals = [s.value for s in walk_local(fn) if isinstance(s, ast.Assign) and len(s.targets) == 1
            and isinstance(s.targets[0], ast.Name) and s.targets[0].id == name]
    return vals[0] if len(vals) == 1 else None


# -- canonical views of equivalent spellings -----------------------------------------------------
_FLIP = {ast.Lt: ast.Gt, ast.Gt: ast.Lt, ast.LtE: ast.GtE, ast.GtE: ast.LtE, ast.Eq: ast.Eq, ast.NotEq: ast.NotEq}


def _is_constlike(n):
    return isinstance(n, ast.Constant) or (isinstance(n, ast.UnaryOp) and isinstance(n.operand, ast.Constant))


class _Canon(ast.NodeTransformer):
    """Rewrites a *copy* of an expression/statement into a canonical spelling:
    `b > a` -> `a < b`, `b >= a` -> `a <= b` (order comparisons always use < / <=), except that a constant operand
    stays on the right (`x > 0` stays, `0 < x` -> `x > 0`); `==`/`!=` operands sorted by their text (constant last);
    `T = T op E` -> `T op= E`;  `not (a < b)` is left alone (polarity is the path enumerator's business)."""

    def visit_Compare(self, node):
        self.generic_visit(node)
        if len(node.ops) != 1 or type(node.ops[0]) not in _FLIP:
            return node
        l, r, op = node.left, node.comparators[0], node.ops[0]
        flip = False
        if _is_constlike(l) and not _is_constlike(r):
            flip = True
        elif _is_constlike(r):
            flip = False
        elif isinstance(op, (ast.Gt, ast.GtE)):
            flip = True
        elif isinstance(op, (ast.Eq, ast.NotEq)):
            flip = src(l) > src(r)
        if flip:
            return ast.Compare(left=r, ops=[_FLIP[type(op)]()], comparators=[l])
        return node

    def visit_Assign(self, node):
        self.generic_visit(node)
        if len(node.targets) == 1 and isinstance(node.value, ast.BinOp) and isinstance(node.targets[0], (ast.Name, ast.Attribute, ast.Subscript)) \
                and src(node.targets[0]) == src(node.value.left):
            return ast.AugAssign(target=node.targets[0], op=node.value.op, value=node.value.right)
        return node


def norm_src(node, mapping=None):
    """Canonical source text of a node (see _Canon), optionally with local names substituted (see src_with)."""
    if node is None:
        return None
    c = _Canon().visit(_clone(node, mapping or {}))
    return src(ast.fix_missing_locations(c))


def same(node, text, mapping=None):
    """Does *node* mean the same as the source *text* up to the canonical spellings of norm_src?
    (`same(test, "ind < 0")` is true for `ind < 0` and for `0 > ind`.)"""
    try:
        want = ast.parse(text).body[0]
    except SyntaxError:
        return False
    if isinstance(want, ast.Expr) and not isinstance(node, ast.stmt):
        want = want.value
    return norm_src(node, mapping) == norm_src(want)


def as_augassign(st):
    """(target, op, value) when *st* is `T op= E` or the equivalent `T = T op E`; else None."""
    if isinstance(st, ast.AugAssign):
        return st.target, st.op, st.value
    if isinstance(st, ast.Assign) and len(st.targets) == 1 and isinstance(st.value, ast.BinOp) \
            and isinstance(st.targets[0], (ast.Name, ast.Attribute, ast.Subscript)) and src(st.targets[0]) == src(st.value.left):
        return st.targets[0], st.value.op, st.value.right
    return None
