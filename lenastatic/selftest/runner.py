"""Self-test of the rules: mutants must be reported, silent twins must not.

Variants are text edits computed against the *current* tree and analysed from
an in-memory overlay (nothing is written to disk, /repo is never touched,
nothing is executed -- ``compile()`` only shows the variant is a valid program).
Seeded changes kept under /verif/seeded/<name>/patch.diff are applied to the
in-memory text the same way.
"""
import glob
import json
import os
import re
import warnings
from concurrent.futures import ProcessPoolExecutor

from ..report import VERIF


class V(object):
    """One variant.  kind: 'mutant' (must produce a new finding of one of
    *expect* rules) or 'twin' (must produce exactly the findings of the base)."""

    def __init__(self, kind, name, file, old, new, expect=(), nth=0, edits=None):
        self.kind = kind
        self.name = name
        self.edits = edits or [(file, old, new, nth)]
        self.expect = tuple(expect)


def M(name, file, old, new, expect, nth=0):
    return V("mutant", name, file, old, new, expect, nth)


def TW(name, file, old, new, nth=0):
    return V("twin", name, file, old, new, (), nth)


def _apply_edits(root, edits):
    """-> overlay dict or None when an anchor is gone."""
    overlay = {}
    for file, old, new, nth in edits:
        path = os.path.join(root, file)
        if file in overlay:
            text = overlay[file]
        else:
            if not os.path.exists(path):
                return None
            with open(path, encoding="utf-8") as f:
                text = f.read()
        if nth == -2:
            # regular-expression substitution (whole-word renamings)
            new_text, n_sub = re.subn(old, new, text)
            if not n_sub:
                return None
            overlay[file] = new_text
            continue
        if nth == -1:
            # every occurrence (renamings)
            if old not in text:
                return None
            overlay[file] = text.replace(old, new)
            continue
        idx = -1
        start = 0
        for _ in range(nth + 1):
            idx = text.find(old, start)
            if idx < 0:
                return None
            start = idx + 1
        text = text[:idx] + new + text[idx + len(old):]
        overlay[file] = text
    return overlay


# -- unified diff application (for seeded patches) -------------------------------

_HUNK = re.compile(r"^@@ -(\d+)(?:,(\d+))? \+(\d+)(?:,(\d+))? @@")


def parse_patch(text):
    """-> {relpath: [hunks]}, hunk = (old_start, [(tag, line)])"""
    files = {}
    cur = None
    hunk = None
    lines = text.splitlines()
    i = 0
    while i < len(lines):
        ln = lines[i]
        if ln.startswith("--- "):
            if i + 1 < len(lines) and lines[i + 1].startswith("+++ "):
                new = lines[i + 1][4:].split("\t")[0].strip()
                old = ln[4:].split("\t")[0].strip()
                name = new if new != "/dev/null" else old
                if name.startswith(("a/", "b/")):
                    name = name[2:]
                cur = files.setdefault(name, [])
                if new == "/dev/null":
                    files[name] = cur = [("DELETE", [])]
                hunk = None
                i += 2
                continue
        m = _HUNK.match(ln)
        if m and cur is not None:
            hunk = (int(m.group(1)), [])
            cur.append(hunk)
        elif hunk is not None and ln[:1] in (" ", "+", "-"):
            hunk[1].append((ln[:1], ln[1:]))
        elif hunk is not None and ln == "":
            hunk[1].append((" ", ""))
        elif ln.startswith("\\"):
            pass
        elif ln.startswith("diff "):
            hunk = None
        i += 1
    return files


def apply_patch_text(root, patch_text):
    """-> overlay or None if the patch does not apply to the current tree."""
    overlay = {}
    for rel, hunks in parse_patch(patch_text).items():
        if not rel.startswith("lena/") or not rel.endswith(".py"):
            continue
        path = os.path.join(root, rel)
        src = []
        if os.path.exists(path):
            with open(path, encoding="utf-8") as f:
                src = f.read().split("\n")
        out = list(src)
        offset = 0
        for start, body in hunks:
            if start == "DELETE":
                return None
            old = [l for t, l in body if t in (" ", "-")]
            new = [l for t, l in body if t in (" ", "+")]
            # trailing empty context lines produced by splitlines are harmless
            pos = None
            guess = start - 1 + offset
            for delta in sorted(range(-400, 401), key=abs):
                p = guess + delta
                if p < 0 or p + len(old) > len(out):
                    continue
                if out[p:p + len(old)] == old:
                    pos = p
                    break
            if pos is None:
                return None
            out[pos:pos + len(old)] = new
            offset += len(new) - len(old)
        overlay[rel] = "\n".join(out)
    return overlay or None



# -- generic silent twins --------------------------------------------------------------
import ast as _ast


class _RenameLocals(_ast.NodeTransformer):
    """Rename every non-parameter local of every function (suffix), consistently inside
    the function, its lambdas and comprehensions; nested defs that rebind a name keep theirs."""

    def __init__(self, suffix):
        self.suffix = suffix
        self.stack = []

    def _locals(self, fn):
        params = set()
        a = fn.args
        for x in a.posonlyargs + a.args + a.kwonlyargs:
            params.add(x.arg)
        if a.vararg:
            params.add(a.vararg.arg)
        if a.kwarg:
            params.add(a.kwarg.arg)
        stores, banned = set(), set()
        todo = list(fn.body)
        while todo:
            n = todo.pop()
            if isinstance(n, (_ast.FunctionDef, _ast.AsyncFunctionDef, _ast.ClassDef)):
                banned.add(n.name)     # the def name itself is a local binding we do not rename
                # names used inside nested defs/classes: renaming them would need scope analysis -> keep
                for m in _ast.walk(n):
                    if isinstance(m, _ast.Name):
                        banned.add(m.id)
                continue
            if isinstance(n, (_ast.Global, _ast.Nonlocal)):
                banned.update(n.names)
            if isinstance(n, _ast.Name) and isinstance(n.ctx, (_ast.Store, _ast.Del)):
                stores.add(n.id)
            if isinstance(n, _ast.ExceptHandler) and n.name:
                stores.add(n.name)
            if isinstance(n, (_ast.Import, _ast.ImportFrom)):
                for al in n.names:
                    banned.add((al.asname or al.name).split(".")[0])
            todo.extend(_ast.iter_child_nodes(n))
        return {x for x in stores - params - banned if not x.startswith("__")}

    def visit_FunctionDef(self, node):
        names = self._locals(node)
        self.stack.append(names)
        node.body = [self.visit(b) for b in node.body]
        self.stack.pop()
        return node

    visit_AsyncFunctionDef = visit_FunctionDef

    def visit_ClassDef(self, node):
        self.stack.append(set())
        self.generic_visit(node)
        self.stack.pop()
        return node

    def visit_Lambda(self, node):
        if not self.stack:
            return self.generic_visit(node)
        a = node.args
        own = {x.arg for x in a.posonlyargs + a.args + a.kwonlyargs}
        if a.vararg:
            own.add(a.vararg.arg)
        if a.kwarg:
            own.add(a.kwarg.arg)
        self.stack.append(self.stack[-1] - own)
        self.generic_visit(node)
        self.stack.pop()
        return node

    def visit_Name(self, node):
        if self.stack and node.id in self.stack[-1]:
            node.id = node.id + self.suffix
        return node

    def visit_ExceptHandler(self, node):
        if self.stack and node.name and node.name in self.stack[-1]:
            node.name = node.name + self.suffix
        self.generic_visit(node)
        return node


class _InsertNoop(_ast.NodeTransformer):
    def visit_FunctionDef(self, node):
        self.generic_visit(node)
        k = 1 if (node.body and isinstance(node.body[0], _ast.Expr) and isinstance(node.body[0].value, _ast.Constant)
                  and isinstance(node.body[0].value.value, str)) else 0
        noop = _ast.Expr(value=_ast.Constant(value=None))
        node.body.insert(k, noop)
        return node

    visit_AsyncFunctionDef = visit_FunctionDef


class _NegateIf(_ast.NodeTransformer):
    """`if c: A else: B`  ->  `if not c: B else: A`  (only plain if/else, not elif chains)."""

    def visit_If(self, node):
        self.generic_visit(node)
        if node.orelse and not (len(node.orelse) == 1 and isinstance(node.orelse[0], _ast.If)):
            test = node.test
            if isinstance(test, _ast.UnaryOp) and isinstance(test.op, _ast.Not):
                new_test = test.operand
            else:
                new_test = _ast.UnaryOp(op=_ast.Not(), operand=test)
            return _ast.copy_location(_ast.If(test=new_test, body=node.orelse, orelse=node.body), node)
        return node


class _ExpandAugAssign(_ast.NodeTransformer):
    """`x += e` -> `x = x + e` for plain names and self attributes (single evaluation of the target either way)."""

    def visit_AugAssign(self, node):
        t = node.target
        simple = isinstance(t, _ast.Name) or (isinstance(t, _ast.Attribute) and isinstance(t.value, _ast.Name))
        if not simple:
            return node
        import copy as _copy
        load = _copy.deepcopy(t)
        load.ctx = _ast.Load()
        return _ast.copy_location(_ast.Assign(targets=[t], value=_ast.BinOp(left=load, op=node.op, right=node.value)), node)


class _ExtractReturn(_ast.NodeTransformer):
    """`return <call>` -> `_ret = <call>; return _ret` (not inside lambdas; generators keep their returns)."""

    def _fix(self, body):
        out = []
        for st in body:
            if isinstance(st, _ast.Return) and isinstance(st.value, _ast.Call):
                tmp = _ast.Name(id="_ret", ctx=_ast.Store())
                out.append(_ast.copy_location(_ast.Assign(targets=[tmp], value=st.value), st))
                out.append(_ast.copy_location(_ast.Return(value=_ast.Name(id="_ret", ctx=_ast.Load())), st))
            else:
                out.append(st)
        return out

    def generic_visit(self, node):
        super().generic_visit(node)
        for field in ("body", "orelse", "finalbody"):
            seq = getattr(node, field, None)
            if isinstance(seq, list) and seq and isinstance(seq[0], _ast.stmt):
                setattr(node, field, self._fix(seq))
        return node


class _FlipCompare(_ast.NodeTransformer):
    """`a < b` -> `b > a`, `a == b` -> `b == a` for single comparisons of side-effect-free operands."""
    FLIP = {_ast.Lt: _ast.Gt, _ast.Gt: _ast.Lt, _ast.LtE: _ast.GtE, _ast.GtE: _ast.LtE, _ast.Eq: _ast.Eq, _ast.NotEq: _ast.NotEq}

    def visit_Compare(self, node):
        self.generic_visit(node)
        if len(node.ops) == 1 and type(node.ops[0]) in self.FLIP:
            pure = all(not isinstance(x, (_ast.Call, _ast.Yield, _ast.YieldFrom, _ast.Await, _ast.NamedExpr))
                       for side in (node.left, node.comparators[0]) for x in _ast.walk(side))
            if pure:
                return _ast.copy_location(_ast.Compare(left=node.comparators[0], ops=[self.FLIP[type(node.ops[0])]()],
                                                       comparators=[node.left]), node)
        return node


class _SwapIndependent(_ast.NodeTransformer):
    """Swap adjacent simple assignments that cannot influence each other: both are `name|self.attr = <expr>`, neither
    expression contains a call/yield/await, and neither reads or writes what the other writes."""

    @staticmethod
    def _simple(st):
        if not (isinstance(st, _ast.Assign) and len(st.targets) == 1):
            return None
        t = st.targets[0]
        if isinstance(t, _ast.Name):
            tgt = t.id
        elif isinstance(t, _ast.Attribute) and isinstance(t.value, _ast.Name) and t.value.id == "self":
            tgt = "self." + t.attr
        else:
            return None
        for x in _ast.walk(st.value):
            if isinstance(x, (_ast.Call, _ast.Yield, _ast.YieldFrom, _ast.Await, _ast.NamedExpr, _ast.Lambda, _ast.Subscript,
                              _ast.ListComp, _ast.DictComp, _ast.SetComp, _ast.GeneratorExp)):
                return None
        reads = set()
        for x in _ast.walk(st.value):
            if isinstance(x, _ast.Name):
                reads.add(x.id)
            if isinstance(x, _ast.Attribute) and isinstance(x.value, _ast.Name) and x.value.id == "self":
                reads.add("self." + x.attr)
        return tgt, reads

    def _swap(self, body):
        out = list(body)
        i = 0
        while i + 1 < len(out):
            a, b = self._simple(out[i]), self._simple(out[i + 1])
            if a and b and a[0] != b[0] and a[0] not in b[1] and b[0] not in a[1] \
                    and not (a[0].split(".")[0] in b[1] or b[0].split(".")[0] in a[1]):
                out[i], out[i + 1] = out[i + 1], out[i]
                i += 2
            else:
                i += 1
        return out

    def generic_visit(self, node):
        super().generic_visit(node)
        for field in ("body", "orelse", "finalbody"):
            seq = getattr(node, field, None)
            if isinstance(seq, list) and seq and isinstance(seq[0], _ast.stmt):
                setattr(node, field, self._swap(seq))
        return node


def _transform_tree(root, how, base_overlay=None):
    """Whole-tree rewrite; *base_overlay* (relpath -> text) replaces files on disk first (a mutant under a twin)."""
    overlay = {}
    base_overlay = base_overlay or {}
    for dirpath, dirs, files in os.walk(os.path.join(root, "lena")):
        dirs.sort()
        for f in sorted(files):
            if not f.endswith(".py"):
                continue
            path = os.path.join(dirpath, f)
            rel = os.path.relpath(path, root)
            if rel in base_overlay:
                text = base_overlay[rel]
            else:
                with open(path, encoding="utf-8") as fh:
                    text = fh.read()
            try:
                with warnings.catch_warnings():
                    warnings.simplefilter("ignore")
                    tree = _ast.parse(text)
            except SyntaxError:
                continue
            if how == "rename":
                tree = _RenameLocals("_rn").visit(tree)
            elif how == "noop":
                tree = _InsertNoop().visit(tree)
            elif how == "negate-if":
                tree = _NegateIf().visit(tree)
            elif how == "augassign":
                tree = _ExpandAugAssign().visit(tree)
            elif how == "extract-return":
                tree = _ExtractReturn().visit(tree)
            elif how == "flip-compare":
                tree = _FlipCompare().visit(tree)
            elif how == "swap-independent":
                tree = _SwapIndependent().visit(tree)
            _ast.fix_missing_locations(tree)
            overlay[rel] = _ast.unparse(tree) + "\n"
    return overlay


GENERIC_TWINS = (("generic/reformat-all", "reformat"), ("generic/rename-locals-all", "rename"), ("generic/noop-stmt-all", "noop"))
# deeper behaviour-preserving rewrites: a rule may answer UNKNOWN on them (an idiom it does not know), never VIOLATION
DEEP_TWINS = (("generic/negate-if-all", "negate-if"), ("generic/augassign-expanded", "augassign"),
              ("generic/extract-return-all", "extract-return"), ("generic/flip-compare-all", "flip-compare"),
              ("generic/swap-independent-all", "swap-independent"))


def generic_twin_tasks(prop, root, base_keys, base_unknown):
    out = []
    for name, how in GENERIC_TWINS:
        out.append((prop, root, name, "twin", _transform_tree(root, how), (), base_keys, base_unknown))
    for name, how in DEEP_TWINS:
        out.append((prop, root, name, "deep-twin", _transform_tree(root, how), (), base_keys, base_unknown))
    return out


def seeded_variants(prop):
    out = []
    for meta in sorted(glob.glob(os.path.join(VERIF, "seeded", "*", "meta.json"))):
        try:
            with open(meta) as f:
                md = json.load(f)
        except Exception:
            continue
        props = md.get("detected_by")
        if props is None:
            props = [md.get("property")]
        if prop not in props:
            continue
        pfile = os.path.join(os.path.dirname(meta), "patch.diff")
        if os.path.exists(pfile):
            out.append((os.path.basename(os.path.dirname(meta)), pfile, md))
    return out


def benign_variants():
    """independently written behaviour-preserving changes (/verif/benign/<name>/patch.diff): no rule of any property may
    report one of them"""
    out = []
    for pfile in sorted(glob.glob(os.path.join(VERIF, "benign", "*", "patch.diff"))):
        out.append((os.path.basename(os.path.dirname(pfile)), pfile))
    return out


def _key_set(ctx):
    return {f.key() for f in ctx.findings}


COMPOSE_WITH = ("rename", "noop", "negate-if", "augassign", "extract-return", "flip-compare", "swap-independent")


def _analyse_variant(args):
    prop, root, name, kind, overlay, expect, base_keys, base_unknown = args
    from ..cli import analyse
    if kind.startswith("under:"):
        how = kind.split(":", 1)[1]
        try:
            overlay = _transform_tree(root, how, base_overlay=overlay)
        except SyntaxError as err:
            return {"name": name, "kind": "mutant-under-twin", "status": "invalid", "detail": str(err)}
        ctx = analyse(prop, root=root, overlay=overlay)
        new = [f for f in ctx.findings if f.key() not in base_keys]
        hit = [f for f in new if not expect or any(f.rule == e or f.rule.startswith(e) for e in expect)]
        if hit or new:
            return {"name": name, "kind": "mutant-under-twin", "status": "detected", "detail": (hit or new)[0].line()[:300],
                    "rules": sorted({f.rule for f in (hit or new)})}
        if len(ctx.unknowns) > base_unknown:
            return {"name": name, "kind": "mutant-under-twin", "status": "unknown", "detail": "; ".join("%s %s" % u for u in ctx.unknowns[:2])[:300]}
        return {"name": name, "kind": "mutant-under-twin", "status": "missed", "detail": ""}
    for rel, text in overlay.items():
        try:
            with warnings.catch_warnings():
                warnings.simplefilter("ignore")
                compile(text, rel, "exec")
        except SyntaxError as err:
            return {"name": name, "kind": kind, "status": "invalid", "detail": str(err)}
    ctx = analyse(prop, root=root, overlay=overlay)
    keys = _key_set(ctx)
    new = [f for f in ctx.findings if f.key() not in base_keys]
    if kind in ("mutant", "seeded"):
        hit = [f for f in new if not expect or any(f.rule == e or f.rule.startswith(e) for e in expect)]
        if hit:
            return {"name": name, "kind": kind, "status": "detected",
                    "detail": hit[0].line(), "rules": sorted({f.rule for f in hit})}
        if new:
            return {"name": name, "kind": kind, "status": "detected-other-rule",
                    "detail": new[0].line(), "rules": sorted({f.rule for f in new})}
        if len(ctx.unknowns) > base_unknown:
            return {"name": name, "kind": kind, "status": "unknown", "detail": "; ".join("%s %s" % u for u in ctx.unknowns[:2])}
        return {"name": name, "kind": kind, "status": "missed", "detail": ""}
    # twin / deep-twin / benign
    if new:
        return {"name": name, "kind": kind, "status": "false-alarm", "detail": new[0].line()}
    if len(ctx.unknowns) > base_unknown:
        return {"name": name, "kind": kind, "status": "unknown", "detail": "; ".join("%s %s" % u for u in ctx.unknowns[:2])}
    if keys != base_keys:
        return {"name": name, "kind": kind, "status": "lost-finding", "detail": ""}
    return {"name": name, "kind": kind, "status": "silent", "detail": ""}


def run_for_property(prop, root, base_ctx, seed=0, jobs=0):
    from ..cli import rule_module
    mod = rule_module(prop)
    variants = list(getattr(mod, "VARIANTS", []))
    base_keys = _key_set(base_ctx)
    base_unknown = len(base_ctx.unknowns)
    tasks = []
    skipped = []
    for v in variants:
        ov = _apply_edits(root, v.edits)
        if ov is None:
            skipped.append(v.name)
            continue
        tasks.append((prop, root, v.name, v.kind, ov, v.expect, base_keys, base_unknown))
    for name, pfile, md in seeded_variants(prop):
        with open(pfile) as f:
            ov = apply_patch_text(root, f.read())
        if ov is None:
            skipped.append("seeded/" + name)
            continue
        tasks.append((prop, root, "seeded/" + name, "seeded", ov, (), base_keys, base_unknown))
    benign_skipped = []
    for name, pfile in benign_variants():
        with open(pfile) as f:
            ov = apply_patch_text(root, f.read())
        if ov is None:
            benign_skipped.append(name)
            continue
        tasks.append((prop, root, "benign/" + name, "benign", ov, (), base_keys, base_unknown))
    if os.environ.get("VERIF_GENERIC_TWINS", "1") != "0":
        # every mutant and seeded change once more under two of the whole-tree rewrites (which two: by name and VERIF_SEED):
        # what a rule reports must not depend on how the surrounding code is spelled
        import zlib
        composed = []
        per = int(os.environ.get("VERIF_COMPOSE", "2") or 2)
        for t in list(tasks):
            if t[3] not in ("mutant", "seeded"):
                continue
            h = zlib.crc32(("%s:%d" % (t[2], seed)).encode())
            for k in range(per):
                how = COMPOSE_WITH[(h + k * 3) % len(COMPOSE_WITH)]
                composed.append((t[0], t[1], "%s @ %s" % (t[2], how), "under:" + how, t[4], t[5], t[6], t[7]))
        tasks.extend(composed)
        tasks.extend(generic_twin_tasks(prop, root, base_keys, base_unknown))
    results = []
    jobs = jobs or min(16, os.cpu_count() or 1)
    if tasks:
        if jobs > 1 and len(tasks) > 1:
            with ProcessPoolExecutor(max_workers=jobs) as ex:
                results = list(ex.map(_analyse_variant, tasks))
        else:
            results = [_analyse_variant(t) for t in tasks]
    mutants = [r for r in results if r["kind"] in ("mutant", "seeded")]
    twins = [r for r in results if r["kind"] == "twin"]
    deep = [r for r in results if r["kind"] == "deep-twin"]
    detected = [r for r in mutants if r["status"] in ("detected", "detected-other-rule")]
    silent = [r for r in twins if r["status"] == "silent"]
    # a deeper rewrite may leave a rule undecided (unknown idiom), it must never be reported as a violation
    deep_ok = [r for r in deep if r["status"] in ("silent", "unknown")]
    under = [r for r in results if r["kind"] == "mutant-under-twin"]
    # under a rewrite a rule must still report the change, or at least refuse to decide (exit 2); passing silently is a miss
    under_bad = [r for r in under if r["status"] in ("missed", "invalid")]
    benign = [r for r in results if r["kind"] == "benign"]
    # an independently written behaviour-preserving change: VIOLATION is a false alarm; an unknown idiom (exit 2) is recorded
    benign_bad = [r for r in benign if r["status"] not in ("silent", "unknown")]
    bad = ([r for r in mutants if r not in detected] + [r for r in twins if r not in silent] + [r for r in deep if r not in deep_ok]
           + under_bad + benign_bad)
    for r in bad:
        base_ctx.unknowns.append(("selftest", "%s %s: %s %s" % (r["kind"], r["name"], r["status"], r["detail"])))
    n_total = len(variants)
    if n_total and len(skipped) * 2 > n_total + len(seeded_variants(prop)):
        base_ctx.unknowns.append(("selftest", "more than half of the variants no longer apply to the tree (%s...)"
                                  % ", ".join(skipped[:4])))
    return {
        "variants_analysed": len(results),
        "selftest": {
            "mutants_total": len(mutants), "mutants_detected": len(detected),
            "twins_total": len(twins), "twins_silent": len(silent),
            "deep_twins_total": len(deep), "deep_twins_silent": len([r for r in deep if r["status"] == "silent"]),
            "deep_twins_undecided": [r["name"] for r in deep if r["status"] == "unknown"],
            "mutants_under_twins_total": len(under), "mutants_under_twins_detected": len([r for r in under if r["status"] == "detected"]),
            "mutants_under_twins_undecided": [r["name"] for r in under if r["status"] == "unknown"],
            "benign_total": len(benign), "benign_silent": len([r for r in benign if r["status"] == "silent"]),
            "benign_undecided": [r["name"] for r in benign if r["status"] == "unknown"],
            "benign_no_longer_apply": benign_skipped,
            "skipped_anchor_gone": skipped,
            "results": results,
        },
    }
