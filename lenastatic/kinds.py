"""A6 -- a small kind abstraction for nested-dictionary code.

Kinds: DICT (certainly a dict), MAYBE (dict or leaf: may be 0, False, None, "", {}),
STR, LIST, TUPLE, BOOL, NONE, OTHER.  Kinds are computed for an expression at a
point of an enumerated path: names are looked up in the assignments executed
earlier on the path, `isinstance(E, dict)` literals of the path condition refine
E (matched on normalised source, invalidated by stores to its root).
"""
import ast

from . import astutil as A

DICT, MAYBE, STR, LIST, TUPLE, BOOL, NONE, OTHER = "DICT", "MAYBE", "STR", "LIST", "TUPLE", "BOOL", "NONE", "OTHER"


class Kinds(object):
    def __init__(self, res, fn, path, dict_params=(), maybe_params=(), call_kinds=None):
        self.res = res
        self.fn = fn
        self.path = path
        self.dict_params = set(dict_params)
        self.maybe_params = set(maybe_params)
        self.call_kinds = call_kinds or {}

    def guarded_dict(self, expr, upto):
        """isinstance(<expr>, dict) holds at event index *upto* of the path
        (X.get(k) in the guard counts for X[k]); a store `<expr> = <dict-kinded value>`
        establishes it as well."""
        want = {A.src(expr)}
        if isinstance(expr, ast.Subscript) and not isinstance(expr.slice, ast.Slice):
            want.add("%s.get(%s)" % (A.src(expr.value), A.src(expr.slice)))
        root = A.root_name(expr)
        ok = False
        for idx, e in enumerate(self.path.ev[:upto]):
            if e[0] == "cond":
                for t, pol in A.literals(e[1], e[2]):
                    if isinstance(t, ast.Call) and A.call_name(t) == "isinstance" and len(t.args) == 2 \
                            and A.src(t.args[0]) in want and "dict" in A.src(t.args[1]):
                        ok = bool(pol)
            elif e[0] == "stmt":
                s = e[1]
                if isinstance(s, ast.Assign):
                    for t in s.targets:
                        if A.src(t) in want and not isinstance(t, ast.Name):
                            ok = self.kind(s.value, idx) == DICT
                        elif ok and isinstance(t, ast.Name) and t.id == root:
                            ok = False
                        elif ok and isinstance(t, (ast.Tuple, ast.List)) and root in A.target_names(t):
                            ok = False
                elif ok:
                    for n in A.walk_local(s):
                        if isinstance(n, ast.Name) and isinstance(n.ctx, (ast.Store, ast.Del)) and n.id == root:
                            ok = False
                        if isinstance(n, ast.Subscript) and isinstance(n.ctx, (ast.Store, ast.Del)) and A.src(n) in want:
                            ok = False
            elif e[0] == "iter" and root in A.target_names(e[1].target):
                ok = False
        return ok

    def last_assignment(self, name, upto):
        for e in reversed(self.path.ev[:upto]):
            if e[0] == "stmt":
                s = e[1]
                if isinstance(s, ast.Assign):
                    for t in s.targets:
                        if isinstance(t, ast.Name) and t.id == name:
                            return ("value", s.value, self.path.ev.index(e))
                        if isinstance(t, (ast.Tuple, ast.List)) and name in A.target_names(t):
                            return ("unpack", s.value, self.path.ev.index(e))
                elif isinstance(s, ast.AugAssign) and isinstance(s.target, ast.Name) and s.target.id == name:
                    return ("aug", s.value, self.path.ev.index(e))
            elif e[0] == "iter" and name in A.target_names(e[1].target):
                return ("element", e[1].iter, self.path.ev.index(e))
            elif e[0] == "with":
                for it in e[1].items:
                    if it.optional_vars is not None and name in A.target_names(it.optional_vars):
                        return ("with", it.context_expr, self.path.ev.index(e))
        return None

    def kind(self, expr, upto):
        if isinstance(expr, ast.Constant):
            if expr.value is None:
                return NONE
            if isinstance(expr.value, bool):
                return BOOL
            if isinstance(expr.value, str):
                return STR
            return OTHER
        if isinstance(expr, (ast.Dict, ast.DictComp)):
            return DICT
        if isinstance(expr, (ast.List, ast.ListComp)):
            return LIST
        if isinstance(expr, ast.Tuple):
            return TUPLE
        if isinstance(expr, (ast.Compare,)):
            return BOOL
        if isinstance(expr, ast.UnaryOp) and isinstance(expr.op, ast.Not):
            return BOOL
        if isinstance(expr, ast.BoolOp):
            ks = {self.kind(v, upto) for v in expr.values}
            return ks.pop() if len(ks) == 1 else (MAYBE if MAYBE in ks else OTHER)
        if isinstance(expr, ast.IfExp):
            ks = {self.kind(expr.body, upto), self.kind(expr.orelse, upto)}
            return ks.pop() if len(ks) == 1 else (MAYBE if (MAYBE in ks or DICT in ks) else OTHER)
        if self.guarded_dict(expr, upto):
            return DICT
        if isinstance(expr, ast.Name):
            la = self.last_assignment(expr.id, upto)
            if la is not None:
                how, val, idx = la
                if how == "value":
                    return self.kind(val, idx)
                if how == "element":
                    k = self.kind(val, idx)
                    return self.element_kind(val, idx)
                if how == "unpack":
                    return DICT if expr.id in self.dict_params else MAYBE
                return OTHER
            a = self.fn.args
            if a.vararg is not None and a.vararg.arg == expr.id:
                return TUPLE
            if a.kwarg is not None and a.kwarg.arg == expr.id:
                return DICT
            if expr.id in self.dict_params:
                return DICT
            if expr.id in self.maybe_params:
                return MAYBE
            return OTHER
        if isinstance(expr, ast.Subscript):
            base = expr.value
            if isinstance(expr.slice, ast.Slice):
                return self.kind(base, upto)
            a = self.fn.args
            if isinstance(base, ast.Name) and a.vararg is not None and a.vararg.arg == base.id:
                return DICT if base.id in self.dict_params else MAYBE
            bk = self.kind(base, upto)
            if bk in (DICT, MAYBE):
                return MAYBE        # an item of a (possible) dictionary: dict or leaf
            return OTHER
        if isinstance(expr, ast.Call):
            canon = self.res.canon(expr.func) if isinstance(expr.func, (ast.Name, ast.Attribute)) else None
            name = A.call_name(expr)
            if canon in self.call_kinds:
                return self.call_kinds[canon](self, expr, upto)
            if canon in ("copy.deepcopy", "copy.copy") and expr.args:
                return self.kind(expr.args[0], upto)
            if canon == "builtins.dict":
                return DICT
            if canon in ("builtins.list", "builtins.sorted"):
                return LIST
            if canon == "builtins.tuple":
                return TUPLE
            if canon in ("builtins.isinstance", "builtins.hasattr", "builtins.callable", "builtins.bool",
                         "builtins.any", "builtins.all"):
                return BOOL
            if canon in ("builtins.str", "builtins.repr"):
                return STR
            if isinstance(expr.func, ast.Attribute) and expr.func.attr == "get":
                bk = self.kind(expr.func.value, upto)
                if bk in (DICT, MAYBE):
                    return MAYBE
            if isinstance(expr.func, ast.Attribute) and expr.func.attr in ("split", "rsplit", "splitlines"):
                return LIST
            return OTHER
        return OTHER

    def element_kind(self, iterable, upto):
        if isinstance(iterable, ast.Subscript) and isinstance(iterable.slice, ast.Slice):
            iterable = iterable.value
        a = self.fn.args
        if isinstance(iterable, ast.Name) and a.vararg is not None and a.vararg.arg == iterable.id:
            return DICT if iterable.id in self.dict_params else MAYBE
        k = self.kind(iterable, upto)
        if k in (DICT,):
            return OTHER    # iterating a dict gives keys
        if isinstance(iterable, ast.Call) and isinstance(iterable.func, ast.Attribute) and iterable.func.attr == "values":
            return MAYBE
        return OTHER


def truth_tests(test):
    """Sub-expressions of a condition whose truthiness (as opposed to a comparison
    result) decides the branch: operands of and/or/not that are not comparisons."""
    out = []
    t, _ = A.strip_not(test)
    if isinstance(t, ast.BoolOp):
        for v in t.values:
            out.extend(truth_tests(v))
    elif isinstance(t, ast.Compare):
        pass
    else:
        out.append(t)
    return out
