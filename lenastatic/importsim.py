"""A2 -- static simulation of module initialisation.

``Sim(tree).imp('lena.flow')`` plays `import lena.flow` in a fresh interpreter:
top-level statements in order, imports recursing into modules that are not yet
initialised, partially initialised namespaces visible as they are at that
moment.  Nothing is executed; only binding events are followed.
"""
import ast

from . import astutil as A
from .resolve import fold_version, abs_module, statement_bindings, BUILTINS

MODULE_DUNDERS = {"__name__", "__file__", "__doc__", "__path__", "__package__", "__spec__",
                  "__builtins__", "__loader__", "__cached__"}


class Sim(object):
    def __init__(self, tree):
        self.tree = tree
        self.ns = {}        # module -> set of bound names (grows during init)
        self.state = {}     # module -> 'init' | 'done'
        self.order = []
        self.problems = []  # (kind, module, node, message)

    def copy(self):
        s = Sim(self.tree)
        s.ns = {k: set(v) for k, v in self.ns.items()}
        s.state = dict(self.state)
        s.order = list(self.order)
        return s

    @property
    def loaded(self):
        return {m for m, st in self.state.items() if st == "done"}

    def internal(self, name):
        return name in self.tree.modules

    def imp(self, name, importer=None, node=None):
        """import a.b.c: initialise lena, lena.a, ... in order.  Returns True
        if the name is a lena module."""
        parts = name.split(".")
        if parts[0] != "lena":
            return False
        for i in range(1, len(parts) + 1):
            m = ".".join(parts[:i])
            if not self.internal(m):
                self.problems.append(("import", importer, node, "no module named %s" % m))
                return True
            if m not in self.state:
                self.run(m)
            if i > 1 and self.state.get(m) == "done":
                # the parent package gets the attribute once the child's import has finished
                self.ns[".".join(parts[:i - 1])].add(parts[i - 1])
        return True

    def run(self, m):
        mod = self.tree.modules[m]
        self.state[m] = "init"
        self.ns[m] = set(MODULE_DUNDERS)
        self.order.append(m)
        self.block(mod, mod.tree.body)
        self.state[m] = "done"
        if "." in m:
            parent, _, child = m.rpartition(".")
            if parent in self.ns:
                self.ns[parent].add(child)

    def block(self, mod, body):
        m = mod.name
        for st in body:
            if isinstance(st, ast.Import):
                for a in st.names:
                    self.imp(a.name, m, st)
                    self.ns[m].add(a.asname or a.name.split(".")[0])
            elif isinstance(st, ast.ImportFrom):
                src = abs_module(mod, st.level, st.module)
                internal = self.imp(src, m, st) and self.internal(src)
                for a in st.names:
                    if a.name == "*":
                        if internal:
                            self.ns[m].update(n for n in self.ns[src] if not n.startswith("_"))
                        continue
                    if internal and a.name not in self.ns[src]:
                        sub = src + "." + a.name
                        if self.internal(sub):
                            self.imp(sub, m, st)
                            if self.state.get(sub) != "done" and a.name not in self.ns[src]:
                                # partially initialised submodule: `from pkg import sub` works
                                # through sys.modules since 3.7
                                pass
                        else:
                            self.problems.append((
                                "from-import", m, st,
                                "from %s import %s: name not bound in %s at that moment (%s)" % (
                                    src, a.name, src,
                                    "module still initialising" if self.state.get(src) == "init" else "no such name")))
                    self.ns[m].add(a.asname or a.name)
            elif isinstance(st, (ast.FunctionDef, ast.AsyncFunctionDef)):
                self.check_loads(mod, st.decorator_list + st.args.defaults
                                 + [d for d in st.args.kw_defaults if d is not None])
                self.ns[m].add(st.name)
            elif isinstance(st, ast.ClassDef):
                self.check_loads(mod, st.decorator_list + st.bases + [k.value for k in st.keywords])
                self.class_body(mod, st)
                self.ns[m].add(st.name)
            elif isinstance(st, ast.If):
                v = fold_version(st.test)
                if v is None:
                    self.check_loads(mod, [st.test])
                if v is True:
                    self.block(mod, st.body)
                elif v is False:
                    self.block(mod, st.orelse)
                else:
                    self.block(mod, st.body)
                    self.block(mod, st.orelse)
            elif isinstance(st, ast.Try):
                self.block(mod, st.body)
                for h in st.handlers:
                    if h.type is not None:
                        self.check_loads(mod, [h.type])
                    if h.name:
                        self.ns[m].add(h.name)
                    self.block(mod, h.body)
                self.block(mod, st.orelse)
                self.block(mod, st.finalbody)
            elif isinstance(st, (ast.With, ast.For, ast.While)):
                if isinstance(st, ast.With):
                    self.check_loads(mod, [i.context_expr for i in st.items])
                elif isinstance(st, ast.For):
                    self.check_loads(mod, [st.iter])
                else:
                    self.check_loads(mod, [st.test])
                for tgt in A.assigned_targets(st):
                    self.ns[m].update(A.target_names(tgt))
                self.block(mod, st.body)
                self.block(mod, getattr(st, "orelse", []))
            else:
                self.check_loads(mod, [st])
                for tgt in A.assigned_targets(st):
                    self.ns[m].update(A.target_names(tgt))

    def class_body(self, mod, cls):
        """Expressions evaluated when the class statement runs (not method bodies)."""
        local = set()
        for st in cls.body:
            if isinstance(st, (ast.FunctionDef, ast.AsyncFunctionDef)):
                self.check_loads(mod, st.decorator_list + st.args.defaults
                                 + [d for d in st.args.kw_defaults if d is not None], local)
                local.add(st.name)
            elif isinstance(st, ast.ClassDef):
                local.add(st.name)
            elif isinstance(st, (ast.Assign, ast.AugAssign, ast.AnnAssign, ast.Expr)):
                self.check_loads(mod, [st], local)
                for tgt in A.assigned_targets(st):
                    local.update(A.target_names(tgt))
            elif isinstance(st, (ast.Import, ast.ImportFrom)):
                for nm, _ in statement_bindings(st, mod):
                    local.add(nm)

    def check_loads(self, mod, exprs, extra=()):
        """Names loaded by expressions that are evaluated at import time must be
        bound at that moment; lena attribute chains must resolve at that moment."""
        m = mod.name
        for e in exprs:
            for n in A.walk_local(e):
                if isinstance(n, (ast.Lambda,)):
                    continue
                if isinstance(n, ast.Name) and isinstance(n.ctx, ast.Load):
                    if A.enclosing(n, (ast.Lambda, ast.ListComp, ast.SetComp, ast.DictComp, ast.GeneratorExp)) is not None:
                        continue
                    if n.id in self.ns[m] or n.id in BUILTINS or n.id in extra:
                        continue
                    self.problems.append(("import-time-name", m, n,
                                          "name %s is not bound when this statement runs at import time" % n.id))
                elif isinstance(n, ast.Attribute):
                    ch = A.attr_chain(n)
                    if ch and ch[0] == "lena" and isinstance(A.parent(n), ast.AST) \
                            and not isinstance(A.parent(n), ast.Attribute):
                        if A.enclosing(n, (ast.Lambda,)) is not None:
                            continue
                        self.check_chain_now(m, n, ch)

    def check_chain_now(self, m, node, chain):
        cur = chain[0]
        if cur not in self.ns.get(m, ()):  # `lena` itself unbound: reported as a name problem
            return
        for a in chain[1:]:
            if cur not in self.tree.modules:
                return
            if cur not in self.ns:
                self.problems.append(("import-time-attr", m, node, "module %s is not imported yet" % cur))
                return
            if a not in self.ns[cur]:
                self.problems.append((
                    "import-time-attr", m, node,
                    "%s.%s is not available while %s is being imported (AttributeError on module %s)" % (cur, a, m, cur)))
                return
            cur = cur + "." + a
