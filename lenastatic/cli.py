"""Command line: python -m lenastatic check C04 --tier quick|thorough"""
import argparse
import importlib
import json
import os
import sys
import time
import traceback

from .loader import Tree, AnalysisError
from .resolve import Resolver
from . import report

COMMON_ASSUMPTIONS = [
    "CPython 3.12 ast/symtable parse lena as the interpreter does; the builtins of /venv/bin/python are those at run time",
    "copy.deepcopy returns an object sharing no mutable state with its argument; itertools.islice/chain/count, "
    "generator expressions and iter() do not pull at construction",
    "user-supplied callables and elements are outside the analysis: every claim is about the framework's own code",
    "a shape rule decides a necessary condition: HOLDS means no violation of the decided clauses on any path of "
    "the current tree, not that the behaviour is correct for all inputs",
]


def rule_module(prop):
    return importlib.import_module("lenastatic.rules." + prop.lower())


def analyse(prop, root="/repo", overlay=None, tier="quick", base_tree=None):
    """Run the rules of one property; returns the Ctx (never raises)."""
    try:
        # C20 resolves the names of the program as written: it reads the tree without the helper inlining of normalize.py
        tree = Tree(root, overlay, inline=(prop != "C20")) if base_tree is None else base_tree
        res = Resolver(tree)
    except AnalysisError as err:
        class _T(object):
            digest = ""
            n_files = 0
        t = _T()
        t.root = root
        ctx = report.Ctx(prop, t, None, tier)
        ctx.unknowns.append(("engine", str(err)))
        return ctx
    ctx = report.Ctx(prop, tree, res, tier)
    try:
        mod = rule_module(prop)
        mod.check(ctx)
    except AnalysisError as err:
        ctx.unknowns.append(("engine", str(err)))
    except RecursionError:
        ctx.unknowns.append(("engine", "recursion limit in the analyser"))
    except Exception:
        tb = traceback.format_exc().strip().splitlines()
        ctx.unknowns.append(("engine", "internal error: " + " | ".join(tb[-3:])))
    return ctx


def cmd_check(args):
    t0 = time.time()
    prop = args.property.upper()
    seed = int(os.environ.get("VERIF_SEED", "0") or 0)
    tier = args.tier or os.environ.get("VERIF_TIER") or "quick"
    if tier not in ("quick", "thorough"):
        tier = "quick"
    try:
        mod = rule_module(prop)
    except ImportError:
        print("ANALYSIS-ERROR property=%s no rule module" % prop)
        return 2
    ctx = analyse(prop, root=args.root, tier=tier)
    extra = None
    if tier == "thorough":
        from .selftest import runner
        extra = runner.run_for_property(prop, args.root, ctx, seed=seed, jobs=args.jobs)
    code, ev = report.finish(
        ctx, getattr(mod, "RULES", {}), getattr(mod, "EXPLANATION", ""),
        COMMON_ASSUMPTIONS + list(getattr(mod, "ASSUMPTIONS", [])), t0,
        evidence_path=args.evidence, seed=seed, extra_coverage=extra, write=not args.no_evidence)
    return code


def cmd_explain(args):
    with open(args.replay) as f:
        rec = json.load(f)
    print(json.dumps(rec, indent=1))
    prop = rec["property"]
    ctx = analyse(prop, root=args.root or rec.get("root", "/repo"))
    hits = [f for f in ctx.findings if f.rule == rec["rule"] and f.function == rec["function"]
            and f.module == rec["module"] and f.construct == rec["construct"]]
    if hits:
        for f in hits:
            print("REPRODUCED: " + f.line())
        return 1
    print("not reproduced on the current tree (%d other finding(s) of %s)" % (len(ctx.findings), prop))
    return 0


def cmd_all(args):
    rc = 0
    for prop in args.properties or ALL:
        a = argparse.Namespace(property=prop, tier=args.tier, root=args.root, evidence=None,
                               no_evidence=args.no_evidence, jobs=args.jobs)
        rc = max(rc, cmd_check(a))
    return rc


ALL = ["C01", "C02", "C03", "C04", "C05", "C06", "C07", "C08", "C09", "C10", "C11", "C12", "C13",
       "C14", "C15", "C16", "C17", "C18", "C19", "C20"]


def main(argv=None):
    ap = argparse.ArgumentParser(prog="lenastatic")
    sub = ap.add_subparsers(dest="cmd")
    c = sub.add_parser("check")
    c.add_argument("property")
    c.add_argument("--tier", default=None)
    c.add_argument("--root", default=os.environ.get("LENA_ROOT", "/repo"))
    c.add_argument("--evidence", default=None)
    c.add_argument("--no-evidence", action="store_true")
    c.add_argument("--jobs", type=int, default=int(os.environ.get("VERIF_JOBS", "0") or 0))
    e = sub.add_parser("explain")
    e.add_argument("replay")
    e.add_argument("--root", default=None)
    a = sub.add_parser("all")
    a.add_argument("properties", nargs="*")
    a.add_argument("--tier", default=None)
    a.add_argument("--root", default=os.environ.get("LENA_ROOT", "/repo"))
    a.add_argument("--no-evidence", action="store_true")
    a.add_argument("--jobs", type=int, default=0)
    args = ap.parse_args(argv)
    try:
        if args.cmd == "check":
            return cmd_check(args)
        if args.cmd == "explain":
            return cmd_explain(args)
        if args.cmd == "all":
            return cmd_all(args)
        ap.print_help()
        return 2
    except Exception:
        tb = traceback.format_exc().strip().splitlines()
        print("ANALYSIS-ERROR internal: " + " | ".join(tb[-4:]))
        return 2
