"""Normalisation before the rules run: private helpers that the reference tree does not have are inlined.

The rules describe the shape of named functions of lena (``Split.run``, ``histogram.fill`` ...).  The most common
behaviour-preserving edit of such a function is *extract helper*: a block moves into a new private function or method and
the original calls it.  A rule that reads the original function then no longer sees the statements it reasons about.
Rather than teaching every rule about every possible helper, the loader undoes the extraction: a function

* whose name starts with one underscore, and
* whose qualified name is not in ``baseline_functions.json`` (the functions of the pinned tree, the reference against which
  every rule instance was confirmed by reading), and
* which is simple enough to be inlined exactly (no generator, no nested def, no ``*args``, no recursion, returns in
  positions that can be turned into assignments without duplicating code)

is substituted into its call sites inside the same module (parameters substituted or bound, colliding locals renamed,
``return`` turned into an assignment of the call's target), and its definition is removed when no reference is left.
The transformation preserves the semantics of the module; when a helper or a call site is outside what is supported,
nothing is changed and the rules see the call as it is (and say UNKNOWN where they cannot look through it).
Functions that exist in the reference tree are never touched: the rules know them by name.
"""
import ast
import copy
import json
import os

_BASE = None


def baseline():
    global _BASE
    if _BASE is None:
        p = os.path.join(os.path.dirname(os.path.abspath(__file__)), "baseline_functions.json")
        try:
            with open(p) as f:
                _BASE = {k: set(v) for k, v in json.load(f).items()}
        except (OSError, ValueError):
            _BASE = {}
    return _BASE


class Unsupported(Exception):
    pass


_FUNC = (ast.FunctionDef, ast.AsyncFunctionDef)


def _walk_no_defs(node):
    """walk without entering nested function/class definitions and lambdas (the node itself is yielded)"""
    todo = [node]
    while todo:
        n = todo.pop()
        yield n
        for c in ast.iter_child_nodes(n):
            if isinstance(c, _FUNC + (ast.ClassDef, ast.Lambda)):
                continue
            todo.append(c)


def _stored_names(fn_or_stmts):
    out = set()
    nodes = fn_or_stmts.body if isinstance(fn_or_stmts, _FUNC) else fn_or_stmts
    for st in nodes:
        for n in ast.walk(st):
            if isinstance(n, ast.Name) and isinstance(n.ctx, (ast.Store, ast.Del)):
                out.add(n.id)
            elif isinstance(n, ast.ExceptHandler) and n.name:
                out.add(n.name)
            elif isinstance(n, _FUNC + (ast.ClassDef,)):
                out.add(n.name)
            elif isinstance(n, (ast.Import, ast.ImportFrom)):
                for a in n.names:
                    out.add((a.asname or a.name).split(".")[0])
    return out


def _all_names(fn):
    out = set(a.arg for a in fn.args.args + fn.args.kwonlyargs + fn.args.posonlyargs)
    if fn.args.vararg:
        out.add(fn.args.vararg.arg)
    if fn.args.kwarg:
        out.add(fn.args.kwarg.arg)
    for n in ast.walk(fn):
        if isinstance(n, ast.Name):
            out.add(n.id)
        elif isinstance(n, ast.ExceptHandler) and n.name:
            out.add(n.name)
    return out


def _contains_return(node):
    return any(isinstance(n, ast.Return) for n in _walk_no_defs(node))


def _is_static(fn):
    return any(isinstance(d, ast.Name) and d.id == "staticmethod" for d in fn.decorator_list)


def _helper_ok(fn):
    if any(not (isinstance(d, ast.Name) and d.id == "staticmethod") for d in fn.decorator_list):
        return False
    a = fn.args
    if a.vararg or a.kwarg or a.posonlyargs:
        return False
    for n in ast.walk(fn):
        if n is fn:
            continue
        if isinstance(n, _FUNC + (ast.ClassDef, ast.Lambda, ast.Yield, ast.YieldFrom, ast.Global, ast.Nonlocal, ast.Await)):
            return False
        if isinstance(n, ast.Name) and n.id == fn.name:
            return False
        if isinstance(n, ast.Attribute) and n.attr == fn.name:
            return False
        if isinstance(n, ast.Name) and isinstance(n.ctx, ast.Del):
            return False
        if isinstance(n, ast.Call) and isinstance(n.func, ast.Name) and n.func.id in ("locals", "vars", "super", "eval", "exec"):
            return False
    return True


def _is_const(e):
    return e is None or isinstance(e, ast.Constant) or (isinstance(e, ast.UnaryOp) and isinstance(e.operand, ast.Constant))


# ----------------------------------------------------------------------------------------------------------------------
# return elimination

class _Elim(object):
    """Rewrite a helper body so that every ``return v`` becomes ``<assign>(v)`` and control falls to the end of the block."""

    def __init__(self, assign, preinit_ok):
        self.assign = assign            # value-expr (or None) -> list of statements
        self.preinit_ok = preinit_ok

    def block(self, stmts):
        """-> (new statements, always_returns)"""
        out = []
        for i, st in enumerate(stmts):
            rest = stmts[i + 1:]
            if isinstance(st, ast.Return):
                out.extend(self.assign(st.value, st))
                return out, True
            if isinstance(st, ast.Raise):
                out.append(st)
                return out, True
            if not _contains_return(st):
                out.append(st)
                continue
            if isinstance(st, ast.If):
                b, br = self.block(st.body)
                o, orr = self.block(st.orelse)
                new = copy.copy(st)
                if br and orr:
                    new.body, new.orelse = b, o
                    out.append(new)
                    return out, True
                if br and not _contains_return_list(st.orelse):
                    r, rr = self.block(rest)
                    new.body, new.orelse = b, o + r
                    out.append(new)
                    return out, rr
                if orr and not _contains_return_list(st.body):
                    r, rr = self.block(rest)
                    new.body, new.orelse = (b + r) or [ast.Pass()], o
                    out.append(new)
                    return out, rr
                raise Unsupported("partial return in a branch")
            if isinstance(st, ast.With):
                b, br = self.block(st.body)
                new = copy.copy(st)
                new.body = b
                out.append(new)
                if br:
                    return out, True
                raise Unsupported("partial return in with")
            if isinstance(st, ast.Try):
                if st.finalbody and _contains_return_list(st.finalbody):
                    raise Unsupported("return in finally")
                b, br = self.block(st.body)
                o, orr = self.block(st.orelse)
                hs = [self.block(h.body) for h in st.handlers]
                body_ret = br or orr
                new = copy.copy(st)
                new.body = b
                new.orelse = o
                new.handlers = []
                for h, (hb, _) in zip(st.handlers, hs):
                    nh = copy.copy(h)
                    nh.body = hb
                    new.handlers.append(nh)
                if body_ret and all(hr for _, hr in hs):
                    out.append(new)
                    return out, True
                partial = ((_contains_return_list(st.body) and not br) or (_contains_return_list(st.orelse) and not orr)
                           or any(_contains_return_list(h.body) and not hr for h, (_, hr) in zip(st.handlers, hs)))
                if partial:
                    raise Unsupported("partial return in try")
                if not body_ret and all(hr for _, hr in hs):
                    # every handler returns, the body falls through: what follows runs only after a body without exception --
                    # the else clause (not protected by the handlers)
                    if st.finalbody:
                        raise Unsupported("finally with a continuing body")
                    r, rr = self.block(rest)
                    new.orelse = o + r
                    out.append(new)
                    return out, rr
                falling = [k for k, (_, hr) in enumerate(hs) if not hr]
                if body_ret and len(falling) == 1 and not st.finalbody:
                    r, rr = self.block(rest)
                    new.handlers[falling[0]].body = hs[falling[0]][0] + r
                    out.append(new)
                    return out, rr
                raise Unsupported("try shape")
            if isinstance(st, (ast.For, ast.While)):
                if st.orelse:
                    raise Unsupported("loop with else and return")
                if len(rest) > 1 or (rest and not isinstance(rest[0], ast.Return)):
                    raise Unsupported("code after a loop that returns")
                final = rest[0].value if rest else None
                new = copy.copy(st)
                new.body = self._loop_body(st.body)
                if _is_const(final) and self.preinit_ok:
                    out.extend(self.assign(final, rest[0] if rest else st))
                    out.append(new)
                    return out, True
                if any(isinstance(n, ast.Break) for s in st.body for n in _walk_loop_level(s)):
                    raise Unsupported("loop with break and a non-constant final return")
                new.orelse = self.assign(final, rest[0] if rest else st)
                out.append(new)
                return out, True
            raise Unsupported("return inside %s" % type(st).__name__)
        return out, False

    def _loop_body(self, stmts):
        out = []
        for st in stmts:
            if isinstance(st, ast.Return):
                out.extend(self.assign(st.value, st))
                out.append(ast.copy_location(ast.Break(), st))
                return out
            if not _contains_return(st):
                out.append(st)
                continue
            new = copy.copy(st)
            if isinstance(st, ast.If):
                new.body = self._loop_body(st.body)
                new.orelse = self._loop_body(st.orelse)
            elif isinstance(st, ast.With):
                new.body = self._loop_body(st.body)
            elif isinstance(st, ast.Try):
                if _contains_return_list(st.finalbody):
                    raise Unsupported("return in finally")
                new.body = self._loop_body(st.body)
                new.orelse = self._loop_body(st.orelse)
                new.handlers = []
                for h in st.handlers:
                    nh = copy.copy(h)
                    nh.body = self._loop_body(h.body)
                    new.handlers.append(nh)
            else:
                raise Unsupported("return in a nested loop")
            out.append(new)
        return out


def _contains_return_list(stmts):
    return any(_contains_return(s) for s in stmts)


def _walk_loop_level(node):
    """nodes of a loop body that belong to this loop (nested loops are not entered)"""
    todo = [node]
    while todo:
        n = todo.pop()
        yield n
        if isinstance(n, (ast.For, ast.While) + _FUNC + (ast.ClassDef, ast.Lambda)):
            continue
        todo.extend(ast.iter_child_nodes(n))


# ----------------------------------------------------------------------------------------------------------------------
# substitution

class _Subst(ast.NodeTransformer):
    def __init__(self, subst, rename):
        self.subst = subst
        self.rename = rename

    def visit_Name(self, node):
        if node.id in self.subst:
            if not isinstance(node.ctx, ast.Load):
                raise Unsupported("parameter stored")
            return ast.copy_location(copy.deepcopy(self.subst[node.id]), node)
        if node.id in self.rename:
            return ast.copy_location(ast.Name(id=self.rename[node.id], ctx=node.ctx), node)
        return node

    def visit_ExceptHandler(self, node):
        self.generic_visit(node)
        if node.name and node.name in self.rename:
            node.name = self.rename[node.name]
        return node


def _pure_stable(arg, helper_stored_attrs, helper_calls_on=()):
    """May the argument expression be written where the parameter is read?  Its value must be the same at every point of the
    helper body: arithmetic over the caller's local names and constants (the helper cannot rebind a caller's local: colliding
    names are renamed), and attribute chains that the helper neither stores nor can change through a call on the same object."""
    for n in ast.walk(arg):
        if isinstance(n, (ast.Constant, ast.Name, ast.BinOp, ast.UnaryOp, ast.Compare, ast.BoolOp, ast.Tuple, ast.operator,
                          ast.unaryop, ast.cmpop, ast.boolop, ast.expr_context)):
            continue
        if isinstance(n, ast.Attribute):
            e = n
            while isinstance(e, ast.Attribute):
                e = e.value
            if not isinstance(e, ast.Name):
                return False
            if any(x == ast.unparse(n) or x.startswith(ast.unparse(n) + ".") or ast.unparse(n).startswith(x + ".")
                   for x in helper_stored_attrs):
                return False
            if e.id in helper_calls_on:
                return False
            continue
        return False
    return True


def _bind(fn, call, receiver, caller_names, same_var=None, free=()):
    """-> (prologue statements, transformer) or raise Unsupported.  *same_var*: a parameter that may be identified with the
    caller's variable of the same role (see _Inliner.inline)."""
    keep_name = {}
    params = [a.arg for a in fn.args.args]
    defaults = dict(zip(params[len(params) - len(fn.args.defaults):], fn.args.defaults))
    kwonly = [a.arg for a in fn.args.kwonlyargs]
    for k, d in zip(kwonly, fn.args.kw_defaults):
        if d is not None:
            defaults[k] = d
    actual = {}
    order = []
    pos = list(call.args)
    if any(isinstance(a, ast.Starred) for a in pos) or any(k.arg is None for k in call.keywords):
        raise Unsupported("star arguments")
    plist = list(params)
    if receiver is not None:
        if not plist:
            raise Unsupported("method without self")
        actual[plist[0]] = receiver
        order.append(plist[0])
        plist = plist[1:]
    if len(pos) > len(plist):
        raise Unsupported("too many arguments")
    for p, a in zip(plist, pos):
        actual[p] = a
        order.append(p)
    for k in call.keywords:
        if k.arg in actual or k.arg not in params + kwonly:
            raise Unsupported("keyword")
        actual[k.arg] = k.value
        order.append(k.arg)
    for p in params + kwonly:
        if p not in actual:
            if p not in defaults:
                raise Unsupported("missing argument")
            actual[p] = defaults[p]
            order.append(p)
    stored = _stored_names(fn)
    stored_attrs = set()
    for n in ast.walk(fn):
        if isinstance(n, ast.Attribute) and isinstance(n.ctx, (ast.Store, ast.Del)):
            stored_attrs.add(ast.unparse(n))
    calls_on = set()
    for n in ast.walk(fn):
        if isinstance(n, ast.Call):
            e = n.func
            while isinstance(e, (ast.Attribute, ast.Subscript, ast.Call)):
                e = e.func if isinstance(e, ast.Call) else e.value
            if isinstance(e, ast.Name):
                calls_on.add(e.id)
    subst, rename, prologue = {}, {}, []
    locals_ = set(stored)
    for p in order:
        a = actual[p]
        # a plain name or constant is always substituted; an attribute chain only if no call in the helper could change it
        simple = isinstance(a, (ast.Name, ast.Constant))
        roots = {p2: actual[p2].id for p2 in order if isinstance(actual[p2], ast.Name)}
        helper_calls = {roots.get(c, c) for c in calls_on}
        if same_var is not None and p == same_var:
            # `T = helper(.., T, ..)`: the parameter is the caller's variable itself, which the call's result overwrites anyway
            subst_same = True
        else:
            subst_same = False
        if subst_same:
            keep_name[p] = actual[p].id
            continue
        if p not in stored and (simple or _pure_stable(a, stored_attrs, helper_calls)):
            subst[p] = a
        else:
            locals_.add(p)
    # the argument expressions are evaluated in the caller's scope: a helper local must not capture their names
    arg_names = set()
    for a in actual.values():
        for n in ast.walk(a):
            if isinstance(n, ast.Name):
                arg_names.add(n.id)
    # *free*: the caller's variable that receives the call's result (outside any try): the helper may use the name meanwhile
    taken = (set(caller_names) - set(free)) | arg_names
    for p, tname in keep_name.items():
        locals_.discard(p)
        if p != tname:
            rename[p] = tname
    for name in sorted(locals_):
        if name in keep_name:
            continue
        if name in taken:
            new = "%s__%s" % (name, fn.name.strip("_"))
            k = 1
            while new in taken or new in locals_:
                k += 1
                new = "%s__%s%d" % (name, fn.name.strip("_"), k)
            rename[name] = new
    for p in order:
        if p in subst or p in keep_name:
            continue
        tgt = ast.Name(id=rename.get(p, p), ctx=ast.Store())
        prologue.append(ast.copy_location(ast.Assign(targets=[tgt], value=copy.deepcopy(actual[p]), lineno=call.lineno), call))
    return prologue, _Subst(subst, rename)


# ----------------------------------------------------------------------------------------------------------------------
# call sites

def _first_evaluated(expr, call):
    """Is *call* the first thing with an effect that evaluating *expr* evaluates?"""
    e = expr
    while True:
        if e is call:
            return True
        if isinstance(e, ast.UnaryOp):
            e = e.operand
        elif isinstance(e, ast.BoolOp):
            e = e.values[0]
        elif isinstance(e, ast.Compare):
            e = e.left
        elif isinstance(e, ast.BinOp):
            e = e.left
        elif isinstance(e, (ast.Attribute, ast.Starred)):
            e = e.value
        elif isinstance(e, ast.Subscript):
            e = e.value
        elif isinstance(e, ast.IfExp):
            e = e.test
        elif isinstance(e, (ast.Tuple, ast.List)) and e.elts:
            e = e.elts[0]
        elif isinstance(e, ast.Call):
            f = e.func
            while isinstance(f, ast.Attribute):
                f = f.value
            if not isinstance(f, ast.Name) or not e.args:
                return False
            e = e.args[0]
        else:
            return False


class _Inliner(object):
    def __init__(self, tree, modname, known):
        self.tree = tree
        self.modname = modname
        self.known = known
        self.count = 0
        self.inlined = []

    def helpers(self):
        """name -> (FunctionDef, class name or None)"""
        out = {}
        for st in self.tree.body:
            if isinstance(st, _FUNC) and self._new_private(st.name, st.name):
                out[(None, st.name)] = st
            elif isinstance(st, ast.ClassDef):
                for m in st.body:
                    if isinstance(m, _FUNC) and self._new_private(m.name, "%s.%s" % (st.name, m.name)):
                        out[(st.name, m.name)] = m
        return {k: v for k, v in out.items() if _helper_ok(v)}

    def _new_private(self, name, qual):
        return name.startswith("_") and not name.startswith("__") and qual not in self.known

    def match(self, call, cls, helpers):
        """-> (helper def, receiver expr or None) for a call of a helper from a function of class *cls*"""
        f = call.func
        if isinstance(f, ast.Name) and (None, f.id) in helpers:
            return helpers[(None, f.id)], None
        if isinstance(f, ast.Attribute) and isinstance(f.value, ast.Name):
            if f.value.id == "self" and cls and (cls, f.attr) in helpers:
                h = helpers[(cls, f.attr)]
                return h, (None if _is_static(h) else f.value)
            if (f.value.id, f.attr) in helpers and _is_static(helpers[(f.value.id, f.attr)]):
                return helpers[(f.value.id, f.attr)], None
        return None, None

    def run(self):
        for _ in range(4):
            helpers = self.helpers()
            if not helpers:
                return
            changed = False
            for st in self.tree.body:
                if isinstance(st, _FUNC):
                    changed |= self.func(st, None, helpers)
                elif isinstance(st, ast.ClassDef):
                    for m in st.body:
                        if isinstance(m, _FUNC):
                            changed |= self.func(m, st.name, helpers)
            self.remove_unreferenced(helpers)
            if not changed:
                return

    def remove_unreferenced(self, helpers):
        for (cls, name), fn in helpers.items():
            used = False
            for n in ast.walk(self.tree):
                if n is fn:
                    continue
                if isinstance(n, ast.Name) and n.id == name and cls is None:
                    used = True
                elif isinstance(n, ast.Attribute) and n.attr == name:
                    used = True
                elif isinstance(n, ast.Constant) and n.value == name:
                    used = True
            if used:
                continue
            body = self.tree.body
            if cls is not None:
                body = [c for c in self.tree.body if isinstance(c, ast.ClassDef) and c.name == cls][0].body
            if fn in body and (len(body) > 1):
                body.remove(fn)

    def func(self, fn, cls, helpers):
        if (cls, fn.name) in helpers:
            # helpers are inlined into each other only through their callers' copies
            pass
        self.caller = fn
        self.try_depth = 0
        self.cls = cls
        self.helpers_now = helpers
        before = self.count
        fn.body = self.stmts(fn.body)
        return self.count != before

    def stmts(self, body):
        out = []
        for st in body:
            rep = self.stmt(st)
            out.extend(rep)
        return out

    def stmt(self, st):
        # nested statement lists first
        if isinstance(st, _FUNC + (ast.ClassDef,)):
            return [st]
        is_try = isinstance(st, ast.Try)
        if is_try:
            self.try_depth += 1
        for field in ("body", "orelse", "finalbody"):
            v = getattr(st, field, None)
            if isinstance(v, list) and v and isinstance(v[0], ast.stmt):
                setattr(st, field, self.stmts(v))
        if is_try:
            for h in st.handlers:
                h.body = self.stmts(h.body)
            self.try_depth -= 1
        # the leading expression of the statement
        lead = None
        if isinstance(st, (ast.Expr, ast.Return, ast.Assign, ast.AugAssign, ast.AnnAssign)):
            lead = st.value
        elif isinstance(st, ast.If):
            lead = st.test
        elif isinstance(st, ast.For):
            lead = st.iter
        if lead is None:
            return [st]
        calls = [n for n in _walk_no_defs(lead) if isinstance(n, ast.Call) and self.match(n, self.cls, self.helpers_now)[0] is not None]
        if len(calls) != 1:
            return [st]
        call = calls[0]
        helper, receiver = self.match(call, self.cls, self.helpers_now)
        if helper is self.caller:
            return [st]
        try:
            return self.inline(st, lead, call, helper, receiver)
        except Unsupported:
            return [st]

    def inline(self, st, lead, call, helper, receiver):
        caller_names = _all_names(self.caller)
        same_var = None
        free = ()
        if isinstance(st, ast.Assign) and lead is call and len(st.targets) == 1 and isinstance(st.targets[0], ast.Name) \
                and self.try_depth == 0:
            # `T = helper(.., T, ..)` outside any try of the caller: the helper may work on T itself
            t = st.targets[0].id
            free = (t,)
            params = [a.arg for a in helper.args.args][(0 if receiver is None else 1):]
            hits = [p for p, a in zip(params, call.args) if isinstance(a, ast.Name) and a.id == t]
            hits += [k.arg for k in call.keywords if isinstance(k.value, ast.Name) and k.value.id == t]
            if len(hits) == 1:
                same_var = hits[0]
        prologue, tr = _bind(helper, call, receiver, caller_names, same_var, free)
        body = [tr.visit(copy.deepcopy(s)) for s in helper.body]
        if body and isinstance(body[0], ast.Expr) and isinstance(body[0].value, ast.Constant) and isinstance(body[0].value.value, str):
            body = body[1:]
        for s in body:
            for n in ast.walk(s):
                if not hasattr(n, "_inlined_from"):
                    n._inlined_from = helper.name

        def mk_assign_to(targets):
            def assign(value, at):
                v = value if value is not None else ast.Constant(value=None)
                if len(targets) == 1 and isinstance(targets[0], ast.Name) and isinstance(v, ast.Name) and v.id == targets[0].id:
                    return []       # `T = T`
                a = ast.Assign(targets=[copy.deepcopy(t) for t in targets], value=v, lineno=getattr(at, "lineno", call.lineno))
                return [ast.copy_location(a, at)]
            return assign

        def discard(value, at):
            if value is None or isinstance(value, (ast.Constant, ast.Name)):
                return []
            return [ast.copy_location(ast.Expr(value=value), at)]

        if isinstance(st, ast.Return) and lead is call:
            new = prologue + body
            if not _always_leaves(body):
                new.append(ast.copy_location(ast.Return(value=ast.Constant(value=None)), st))
            return self._done(new, helper)
        if isinstance(st, ast.Expr) and lead is call:
            el = _Elim(discard, True)
            new, _ = el.block(body)
            return self._done(prologue + new, helper)
        if isinstance(st, ast.Assign) and lead is call:
            simple = all(isinstance(t, ast.Name) for t in st.targets)
            el = _Elim(mk_assign_to(st.targets), simple)
            new, always = el.block(body)
            if not always:
                new = new + mk_assign_to(st.targets)(None, st)
            return self._done(prologue + new, helper)
        if not _first_evaluated(lead, call):
            raise Unsupported("call is not evaluated first")
        # single tail return: hoist the statements, put the returned expression in place of the call
        if body and isinstance(body[-1], ast.Return) and not _contains_return_list(body[:-1]) and body[-1].value is not None:
            self._replace(st, call, body[-1].value)
            return self._done(prologue + body[:-1] + [st], helper)
        tmp = "_r_%s" % helper.name.strip("_")
        k = 0
        while tmp in caller_names:
            k += 1
            tmp = "_r_%s%d" % (helper.name.strip("_"), k)
        el = _Elim(mk_assign_to([ast.Name(id=tmp, ctx=ast.Store())]), True)
        new, always = el.block(body)
        if not always:
            new = new + mk_assign_to([ast.Name(id=tmp, ctx=ast.Store())])(None, st)
        self._replace(st, call, ast.copy_location(ast.Name(id=tmp, ctx=ast.Load()), call))
        return self._done(prologue + new + [st], helper)

    def _replace(self, st, call, expr):
        class R(ast.NodeTransformer):
            def visit_Call(self, node):
                if node is call:
                    return expr
                return self.generic_visit(node)
        for field in ("value", "test", "iter"):
            v = getattr(st, field, None)
            if isinstance(v, ast.AST):
                setattr(st, field, R().visit(v))

    def _done(self, stmts, helper):
        self.count += 1
        self.inlined.append("%s -> %s" % (helper.name, self.caller.name))
        return stmts or [ast.Pass()]


def _always_leaves(stmts):
    if not stmts:
        return False
    last = stmts[-1]
    if isinstance(last, (ast.Return, ast.Raise)):
        return True
    if isinstance(last, ast.If):
        return _always_leaves(last.body) and _always_leaves(last.orelse)
    if isinstance(last, ast.Try):
        return ((_always_leaves(last.body) or _always_leaves(last.orelse)) and all(_always_leaves(h.body) for h in last.handlers)) \
            or _always_leaves(last.finalbody)
    if isinstance(last, ast.With):
        return _always_leaves(last.body)
    return False


def inline_new_helpers(tree, modname):
    """Inline, in place, the private helpers of *tree* that the reference tree does not have.  Returns the list of
    'helper -> caller' substitutions made (for the evidence)."""
    known = baseline().get(modname)
    if known is None:
        return []
    inl = _Inliner(tree, modname, known)
    try:
        inl.run()
    except RecursionError:
        return inl.inlined
    ast.fix_missing_locations(tree)
    return inl.inlined


# -- constant dispatch tables ---------------------------------------------------------------------------------------
class _NameSubst(ast.NodeTransformer):
    def __init__(self, mapping):
        self.mapping = mapping

    def visit_Name(self, node):
        if isinstance(node.ctx, ast.Load) and node.id in self.mapping:
            return copy.deepcopy(self.mapping[node.id])
        return node


def unroll_constant_tables(tree):
    """`for a, b in T: if <test>: <body>; break` -- a first-match search over a table T that is a tuple/list display of
    equally long tuple displays (written in place or bound once, in the same function, to a local that is used nowhere else)
    whose items are names, attributes or constants -- is the if/elif chain it abbreviates.  The loop is replaced, in place,
    by that chain (loop targets substituted by the row's items) so that the rules, which read dispatch chains, see the
    same program whichever way it is spelt.  Only done when the loop has no else clause, its body is that single if without
    else ending in `break`, contains no other break/continue, and the targets are not used after the loop.  Returns the
    number of loops rewritten."""
    count = 0
    for fn in [n for n in ast.walk(tree) if isinstance(n, (ast.FunctionDef, ast.AsyncFunctionDef))]:
        for holder in ast.walk(fn):
            for field in ("body", "orelse", "finalbody"):
                stmts = getattr(holder, field, None)
                if not isinstance(stmts, list):
                    continue
                for i, st in enumerate(list(stmts)):
                    new = _unrolled(fn, st)
                    if new is not None:
                        stmts[stmts.index(st)] = new
                        count += 1
    if count:
        ast.fix_missing_locations(tree)
    return count


def _unrolled(fn, st):
    if not (isinstance(st, ast.For) and not st.orelse and len(st.body) == 1 and isinstance(st.body[0], ast.If) and not st.body[0].orelse):
        return None
    iff = st.body[0]
    if not (iff.body and isinstance(iff.body[-1], ast.Break)):
        return None
    inner = iff.body[:-1]
    if any(isinstance(x, (ast.Break, ast.Continue, ast.Yield, ast.YieldFrom, ast.Return)) for b in inner for x in ast.walk(b)) or not inner:
        return None
    tgt = st.target
    names = [tgt.id] if isinstance(tgt, ast.Name) else ([e.id for e in tgt.elts] if isinstance(tgt, (ast.Tuple, ast.List))
                                                        and all(isinstance(e, ast.Name) for e in tgt.elts) else None)
    if not names:
        return None
    table = st.iter
    binding = None
    if isinstance(table, ast.Name):
        defs = [a for a in ast.walk(fn) if isinstance(a, ast.Assign) and len(a.targets) == 1 and isinstance(a.targets[0], ast.Name)
                and a.targets[0].id == table.id]
        uses = [n for n in ast.walk(fn) if isinstance(n, ast.Name) and n.id == table.id]
        if len(defs) != 1 or len(uses) != 2 or defs[0].lineno > st.lineno:
            return None
        binding = defs[0]
        table = binding.value
    if not isinstance(table, (ast.Tuple, ast.List)) or not table.elts or len(table.elts) > 12:
        return None
    rows = []
    for row in table.elts:
        items = [row] if isinstance(tgt, ast.Name) else (row.elts if isinstance(row, (ast.Tuple, ast.List)) else None)
        if items is None or len(items) != len(names):
            return None
        for it in items:
            if not isinstance(it, (ast.Name, ast.Attribute, ast.Constant)) or any(isinstance(x, ast.Call) for x in ast.walk(it)):
                return None
        rows.append(items)
    # the loop targets must not be read after the loop or stored elsewhere
    for n in ast.walk(fn):
        if isinstance(n, ast.Name) and n.id in names and not (st.lineno <= n.lineno <= (st.end_lineno or st.lineno)):
            return None
    if any(isinstance(x, ast.Name) and isinstance(x.ctx, ast.Store) and x.id in names for b in iff.body for x in ast.walk(b)):
        return None
    chain = None
    for items in reversed(rows):
        sub = _NameSubst(dict(zip(names, items)))
        test = sub.visit(copy.deepcopy(iff.test))
        body = [sub.visit(copy.deepcopy(b)) for b in inner]
        node = ast.If(test=test, body=body, orelse=[chain] if chain is not None else [])
        ast.copy_location(node, st)
        chain = node
    return chain
