"""A9 -- flow-consumption analysis (laziness).

For a function and the local names that hold its input flow, every use of the
flow (or of a lazy view derived from it) is classified by what it does to the
iterator *when it is executed*:

    pull-loop     ``for x in <view>``                       one value per iteration
    pull-one      ``next(<view>)``                          one value
    eager         list/tuple/sorted/sum/... of the view, a list/set/dict
                  comprehension over it, ``*view``           consumes the whole flow and holds it
    bounded       an eager consumer of ``islice(view, n)`` /
                  ``zip(range(n), view)``                     consumes and holds at most n values
    drain         ``deque(view, maxlen=m)``                  consumes the whole flow, holds m values
    lazy views    iter, flow_to_iter, islice, chain, zip, enumerate, map, filter,
                  generator expressions, ``X.run(view)`` (another element: lazy by
                  composition), a generator method/function of the tree
    return / yield-from                                       hands the view on
    unknown       anything else (reported as UNKNOWN, never guessed)

Functions of the tree that receive the flow (nested defs, methods of self,
lambda-valued attributes) are followed: a generator callee is a lazy view and is
analysed on its own; a plain callee's uses are attributed to the call site.
"""
import ast

from . import astutil as A
from .loader import methods

LAZY_CANON = {
    "builtins.iter", "itertools.islice", "itertools.chain", "builtins.zip",
    "builtins.enumerate", "builtins.map", "builtins.filter", "itertools.takewhile", "itertools.dropwhile",
    "itertools.starmap", "itertools.tee", "itertools.izip", "itertools.imap", "itertools.ifilter",
    "itertools.chain.from_iterable", "itertools.zip_longest", "itertools.compress", "itertools.filterfalse",
    "itertools.accumulate", "future_builtins.zip", "future_builtins.map", "future_builtins.filter",
}
EAGER_CANON = {
    "builtins.list", "builtins.tuple", "builtins.sorted", "builtins.set", "builtins.frozenset", "builtins.dict",
    "builtins.sum", "builtins.max", "builtins.min", "builtins.any", "builtins.all", "builtins.len",
    "builtins.reversed", "builtins.bytes", "builtins.bytearray", "functools.reduce", "collections.Counter",
    "collections.OrderedDict", "numpy.array", "numpy.fromiter", "numpy.asarray", "itertools.cycle",
    "itertools.permutations", "itertools.combinations", "itertools.product", "statistics.mean", "math.fsum",
    "random.shuffle", "random.sample", "copy.deepcopy", "copy.copy", "pickle.dumps", "pickle.dump",
}
NO_CONSUME_CANON = {"builtins.hasattr", "builtins.isinstance", "builtins.callable", "builtins.id", "builtins.type",
                    "builtins.repr", "builtins.print", "builtins.getattr", "inspect.isgenerator", "inspect.isgeneratorfunction"}
DEQUE = ("collections.deque",)
RUN_ATTRS = ("run",)
GROW_METHODS = ("append", "appendleft", "extend", "extendleft", "add", "insert", "update", "setdefault", "put",
                "push")


class Use(object):
    __slots__ = ("kind", "node", "bound", "via", "root", "detail")

    def __init__(self, kind, node, bound=None, via=(), root=None, detail=""):
        self.kind = kind
        self.node = node        # the consuming construct (For, Call, comprehension, Return ...)
        self.bound = bound      # expression node bounding the number of values taken, or None
        self.via = tuple(via)   # lazy views between the flow and the consumer (outermost last)
        self.root = root        # the Name node of the flow that is used
        self.detail = detail

    def describe(self):
        s = "%s `%s`" % (self.kind, A.short(self.node if not isinstance(self.node, (ast.For, ast.AsyncFor))
                                            else self.node.iter, 70))
        if self.bound is not None:
            s += " (at most %s values)" % A.src(self.bound)
        return s

    def __repr__(self):
        return "Use(%s)" % self.describe()


def range_bound(expr):
    """n for range(n) / xrange(n), else None."""
    if isinstance(expr, ast.Call) and A.call_name(expr) in ("range", "xrange") and len(expr.args) == 1:
        return expr.args[0]
    return None


class FlowAnalyser(object):
    def __init__(self, res):
        self.res = res
        self._memo = {}

    # -- helpers -----------------------------------------------------------------
    def local_alias_value(self, name_node):
        """If *name_node* is a local bound exactly once by `x = <expr>`, return expr."""
        fn = A.enclosing_func(name_node)
        if fn is None or not isinstance(name_node, ast.Name):
            return None
        vals = []
        for n in A.walk_local(fn, include_self=False):
            if isinstance(n, ast.Name) and n.id == name_node.id and isinstance(n.ctx, ast.Store):
                st = A.parent(n)
                if isinstance(st, ast.Assign) and len(st.targets) == 1 and st.targets[0] is n:
                    vals.append(st.value)
                else:
                    return None
        if name_node.id in A.func_params(fn) if not isinstance(fn, ast.Lambda) else False:
            return None
        return vals[0] if len(vals) == 1 else None

    def callee_nodes(self, call):
        """Function/lambda nodes of the tree that this call may invoke:
        nested def, module function, self.method, lambda-valued self attribute."""
        f = call.func
        if isinstance(f, ast.Attribute) and A.is_self_attr(f):
            cls = A.enclosing_class(call)
            if cls is None:
                return []
            t = self.res.class_attr(self.res.class_target(cls._module.name, A.qualname(cls)), f.attr)
            out = []
            if t is not None and t.is_func:
                out.append(t.node)
            # attribute (re)bound to lambdas / methods in the class
            for m in methods(cls).values():
                for n in A.walk_local(m, include_self=False):
                    if isinstance(n, ast.Assign) and any(A.is_self_attr(tg, f.attr) for tg in n.targets):
                        v = n.value
                        if isinstance(v, ast.Lambda):
                            out.append(v)
                        elif A.is_self_attr(v):
                            t2 = self.res.class_attr(self.res.class_target(cls._module.name, A.qualname(cls)), v.attr)
                            if t2 is not None and t2.is_func and t2.node not in out:
                                out.append(t2.node)
                        else:
                            out.append(None)   # bound to something the analyser cannot follow
            return out
        if isinstance(f, (ast.Name, ast.Attribute)):
            t = self.res.resolve(f)
            if t is not None and t.is_func:
                return [t.node]
            if t is not None and t.kind == "local" and isinstance(f, ast.Name):
                v = self.local_alias_value(f)
                if isinstance(v, ast.Lambda):
                    return [v]
        return []

    def is_run_delegate(self, call):
        """X.run(...) of some other object (an element or a sequence), or a local alias
        `el_run = self._el.run`."""
        f = call.func
        if isinstance(f, ast.Attribute) and f.attr in RUN_ATTRS and not A.is_self_attr(f):
            return True
        if isinstance(f, ast.Name):
            v = self.local_alias_value(f)
            if isinstance(v, ast.Attribute) and v.attr in RUN_ATTRS and not A.is_self_attr(v):
                return True
        return False

    # -- classification --------------------------------------------------------------
    def classify(self, node, root, via=(), bound=None, depth=0):
        """[Use] for expression *node* that evaluates to (a lazy view of) the flow."""
        par = A.parent(node)
        mk = lambda kind, n, **kw: [Use(kind, n, bound=kw.get("bound", bound), via=via, root=root,
                                        detail=kw.get("detail", ""))]
        if isinstance(par, (ast.For, ast.AsyncFor)) and par.iter is node:
            return mk("pull-loop", par)
        if isinstance(par, ast.comprehension) and par.iter is node:
            comp = A.parent(par)
            if isinstance(comp, ast.GeneratorExp):
                return self.classify(comp, root, via + (comp,), bound, depth)
            return mk("eager", comp, detail="a %s materialises everything it iterates" % type(comp).__name__)
        if isinstance(par, ast.keyword):
            call = A.parent(par)
            return self.classify_arg(call, node, root, via, bound, depth)
        if isinstance(par, ast.Call):
            if par.func is node:
                return mk("unknown", par, detail="the flow object is called")
            return self.classify_arg(par, node, root, via, bound, depth)
        if isinstance(par, ast.Starred):
            return mk("eager", A.parent(par), detail="*-unpacking materialises the flow")
        if isinstance(par, ast.Return):
            return mk("return", par)
        if isinstance(par, ast.YieldFrom):
            return mk("yield-from", par)
        if isinstance(par, ast.Lambda) and par.body is node:
            return mk("return", par)
        if isinstance(par, ast.Assign) and par.value is node:
            tnames = [t.id for t in par.targets if isinstance(t, ast.Name)]
            if len(tnames) == len(par.targets):
                return mk("alias", par, detail=",".join(tnames))
            if all(A.is_self_attr(t) for t in par.targets):
                return mk("store-self", par, detail="the flow is stored in %s" % A.src(par.targets[0]))
            return mk("unknown", par, detail="the flow is unpacked or stored by an assignment the analyser does not follow")
        if isinstance(par, ast.IfExp):
            if par.test is node:
                return mk("test", par)
            return self.classify(par, root, via, bound, depth)
        if isinstance(par, (ast.If, ast.While, ast.UnaryOp, ast.Compare, ast.Assert)):
            return mk("test", par)
        if isinstance(par, ast.BoolOp):
            return self.classify(par, root, via, bound, depth)
        if isinstance(par, ast.Expr):
            return mk("test", par)
        if isinstance(par, ast.Attribute):
            gp = A.parent(par)
            if par.attr in ("__next__", "next") and isinstance(gp, ast.Call) and gp.func is par:
                return mk("pull-one", gp)
            if par.attr == "__iter__" and isinstance(gp, ast.Call) and gp.func is par:
                return self.classify(gp, root, via + (gp,), bound, depth)
            return mk("unknown", par, detail="attribute `%s` of the flow" % par.attr)
        if isinstance(par, ast.Yield):
            return mk("unknown", par, detail="the flow object itself is yielded as a value")
        if isinstance(par, (ast.Tuple, ast.List, ast.Set, ast.Dict, ast.Subscript)):
            return mk("unknown", par, detail="the flow is put into a display / subscripted")
        return mk("unknown", par if par is not None else node, detail="unrecognised context %s" % type(par).__name__)

    def classify_arg(self, call, arg, root, via, bound, depth):
        mk = lambda kind, n, **kw: [Use(kind, n, bound=kw.get("bound", bound), via=via, root=root,
                                        detail=kw.get("detail", ""))]
        canon = self.res.canon(call.func) if isinstance(call.func, (ast.Name, ast.Attribute)) else None
        name = A.call_name(call)
        pos = call.args.index(arg) if arg in call.args else None
        if canon == "builtins.next":
            if pos == 0:
                return mk("pull-one", call)
            return mk("test", call)
        if canon in NO_CONSUME_CANON:
            return mk("test", call)
        if canon in LAZY_CANON:
            b = bound
            if canon == "itertools.islice" and pos == 0:
                # islice(it, stop) / islice(it, start, stop[, step])
                if any(isinstance(a, ast.Starred) for a in call.args):
                    b = bound
                elif len(call.args) == 2:
                    b = call.args[1]
                elif len(call.args) >= 3:
                    b = call.args[2]
                else:
                    b = None if not any(isinstance(a, ast.Starred) for a in call.args) else bound
                if isinstance(b, ast.Constant) and b.value is None:
                    b = bound
            elif canon in ("builtins.zip", "future_builtins.zip"):
                for a in call.args:
                    rb = range_bound(a)
                    if rb is not None:
                        b = rb
            return self.classify(call, root, via + (call,), b, depth)
        if canon in DEQUE:
            ml = A.kwarg(call, "maxlen")
            if ml is None and len(call.args) >= 2:
                ml = call.args[1]
            if pos == 0:
                if ml is not None and not (isinstance(ml, ast.Constant) and ml.value is None):
                    if bound is not None:
                        return mk("bounded", call)
                    return mk("drain", call, bound=ml)
                if bound is not None:
                    return mk("bounded", call)
                return mk("eager", call, detail="deque() without maxlen keeps the whole flow")
            return mk("test", call)
        if canon == "functools.reduce" and pos == 2 and len(call.args) == 3 and isinstance(call.args[0], (ast.Name, ast.Attribute)):
            # reduce(f, items, flow): the flow is the initial accumulator, handed to f as its first argument for every item --
            # the left fold `for x in items: flow = f(flow, x)`.  Lazy exactly when f only wraps its first argument.
            t = self.res.resolve(call.args[0])
            cal = t.node if t is not None and t.is_func else None
            if cal is not None and depth < 4 and not (not isinstance(cal, ast.Lambda) and A.is_generator(cal)):
                params = [p for p in A.func_params(cal) if p != "self"]
                if len(params) == 2:
                    inner = self.uses(cal, [params[0]], depth + 1)
                    out = []
                    returns_view = False
                    for u in inner:
                        if u.kind == "return":
                            returns_view = True
                        elif u.kind not in ("alias", "test"):
                            out.append(Use(u.kind, u.node, bound=u.bound if u.bound is not None else bound, via=via + (call,) + u.via,
                                           root=root, detail=u.detail or "inside %s" % A.qualname(cal)))
                    if returns_view:
                        out.extend(self.classify(call, root, via + (call,), bound, depth))
                    return out
        if canon in EAGER_CANON or (canon is None and name == "join" and isinstance(call.func, ast.Attribute)
                                    and isinstance(call.func.value, ast.Constant)):
            if bound is not None:
                return mk("bounded", call)
            return mk("eager", call, detail="%s() consumes its whole argument before returning" % (name,))
        if self.is_run_delegate(call):
            return self.classify(call, root, via + (call,), bound, depth)
        callees = self.callee_nodes(call)
        if callees and all(c is not None for c in callees) and depth < 4:
            out = []
            for cal in callees:
                params = [p for p in A.func_params(cal) if p != "self"]
                pname = None
                if pos is not None and pos < len(params):
                    pname = params[pos]
                else:
                    for k in call.keywords:
                        if k.value is arg and k.arg in params:
                            pname = k.arg
                if pname is None:
                    out.extend(mk("unknown", call, detail="cannot match the argument to a parameter of %s" % A.short(call.func)))
                    continue
                if not isinstance(cal, ast.Lambda) and A.is_generator(cal):
                    # a generator function: nothing happens at the call; the result is a lazy view,
                    # the callee is analysed as a streaming function on its own
                    out.append(Use("gen-call", call, bound=bound, via=via, root=root, detail=A.qualname(cal)))
                    out.extend(self.classify(call, root, via + (call,), bound, depth))
                    continue
                inner = self.uses(cal, [pname], depth + 1)
                returns_view = False
                for u in inner:
                    if u.kind == "return":
                        returns_view = True
                        continue
                    if u.kind in ("alias", "test"):
                        continue
                    # bound given by a parameter of the callee: translate to the call site
                    b = u.bound
                    if isinstance(b, ast.Name) and b.id in params:
                        i = params.index(b.id)
                        if i < len(call.args):
                            b = call.args[i]
                        else:
                            kw = A.kwarg(call, b.id)
                            b = kw if kw is not None else b
                    out.append(Use(u.kind, u.node, bound=b if b is not None else bound, via=via + (call,) + u.via,
                                   root=root, detail=u.detail or "inside %s" % (A.qualname(cal) if not isinstance(cal, ast.Lambda) else "lambda")))
                if returns_view:
                    out.extend(self.classify(call, root, via + (call,), bound, depth))
            return out
        # constructors / functions the analyser does not know
        return mk("unknown", call, detail="the flow is passed to `%s`, which the analyser cannot classify" % A.short(call.func, 50))

    # -- per function -----------------------------------------------------------------
    def flow_aliases(self, fn, names):
        """Local names that hold the flow or a lazy view of it (fixed point over
        `x = <view>` assignments).  Returns (aliases, [Use]) for the uses found."""
        aliases = set(names)
        body = fn.body if not isinstance(fn, ast.Lambda) else [fn.body]
        while True:
            uses = []
            grew = False
            nodes = []
            if isinstance(fn, ast.Lambda):
                nodes = list(ast.walk(fn.body))
            else:
                nodes = list(A.walk_local(fn, include_self=False))
            for n in nodes:
                if isinstance(n, ast.Name) and isinstance(n.ctx, ast.Load) and n.id in aliases:
                    # a nested def/lambda with a parameter of the same name shadows it
                    sc = A.enclosing(n, A.FUNC)
                    if sc is not fn and sc is not None and n.id in A.func_params(sc):
                        continue
                    comp = A.enclosing(n, (ast.ListComp, ast.SetComp, ast.DictComp, ast.GeneratorExp))
                    if comp is not None and any(n.id in A.target_names(g.target) for g in comp.generators):
                        continue
                    for u in self.classify(n, n):
                        uses.append(u)
                        if u.kind == "alias":
                            for nm in u.detail.split(","):
                                if nm and nm not in aliases:
                                    aliases.add(nm)
                                    grew = True
            if not grew:
                return aliases, uses

    def uses(self, fn, names, depth=0):
        key = (fn, tuple(sorted(names)))
        if key in self._memo:
            return self._memo[key]
        self._memo[key] = []
        aliases, uses = self.flow_aliases(fn, names)
        self._memo[key] = uses
        return uses


def enclosing_loops(node, fn):
    out = []
    for a in A.ancestors(node):
        if a is fn:
            break
        if isinstance(a, (ast.For, ast.While, ast.AsyncFor)):
            out.append(a)
    return out


def in_loop_body(node, loop):
    """node is inside the body (not the iter/test/orelse) of loop."""
    prev = node
    for a in A.ancestors(node):
        if a is loop:
            return any(prev is st for st in loop.body)
        prev = a
    return False


def pulled_taint(fn, seeds, loop=None):
    """Local names whose value derives from the pulled values *seeds* (names) by
    plain assignments / unpacking / for-iteration, inside *loop* (or the whole function)."""
    tainted = set(seeds)
    body = loop.body if loop is not None else fn.body
    changed = True
    while changed:
        changed = False
        for n in A.walk_body(body):
            if isinstance(n, ast.Assign):
                if A.names_loaded(n.value) & tainted:
                    for t in n.targets:
                        if isinstance(t, (ast.Name, ast.Tuple, ast.List)):
                            for nm in A.target_names(t):
                                if nm not in tainted:
                                    tainted.add(nm)
                                    changed = True
            elif isinstance(n, (ast.For, ast.AsyncFor)) and n is not loop:
                if A.names_loaded(n.iter) & tainted:
                    for nm in A.target_names(n.target):
                        if nm not in tainted:
                            tainted.add(nm)
                            changed = True
    return tainted


def carried_names(loop, paths, fn):
    """Names assigned in the loop body that some iteration reads before it assigns
    them (their value comes from the previous iteration): {name: (node, path)}."""
    assigned = set()
    for n in A.walk_body(loop.body):
        if isinstance(n, ast.Name) and isinstance(n.ctx, ast.Store):
            comp = A.enclosing(n, (ast.ListComp, ast.SetComp, ast.DictComp, ast.GeneratorExp))
            if comp is not None and loop in list(A.ancestors(comp)):
                continue
            if A.enclosing_func(n) is not fn:
                continue
            assigned.add(n.id)
    if isinstance(loop, (ast.For, ast.AsyncFor)):
        for nm in A.target_names(loop.target):
            assigned.discard(nm)
    carried = {}
    for p in paths:
        done = set(A.target_names(loop.target)) if isinstance(loop, (ast.For, ast.AsyncFor)) else set()
        for e in p.ev:
            k = e[0]
            reads, writes = [], []
            if k in ("stmt", "partial"):
                s = e[1]
                if isinstance(s, ast.AugAssign) and isinstance(s.target, ast.Name):
                    reads.append(s.target)
                for n in A.walk_local(s):
                    if isinstance(n, ast.Name):
                        if isinstance(n.ctx, ast.Load):
                            reads.append(n)
                        elif isinstance(n.ctx, ast.Store):
                            writes.append(n.id)
            elif k == "cond":
                reads = [n for n in A.walk_local(e[1]) if isinstance(n, ast.Name) and isinstance(n.ctx, ast.Load)]
            elif k == "iter":
                reads = [n for n in A.walk_local(e[1].iter) if isinstance(n, ast.Name) and isinstance(n.ctx, ast.Load)]
                writes = A.target_names(e[1].target)
            elif k == "with":
                for it in e[1].items:
                    reads += [n for n in A.walk_local(it.context_expr) if isinstance(n, ast.Name) and isinstance(n.ctx, ast.Load)]
                    if it.optional_vars is not None:
                        writes += A.target_names(it.optional_vars)
            elif k == "exc" and e[1].name:
                writes = [e[1].name]
            for r in reads:
                if r.id in assigned and r.id not in done and r.id not in carried:
                    comp = A.enclosing(r, (ast.ListComp, ast.SetComp, ast.DictComp, ast.GeneratorExp))
                    if comp is not None and r.id in {t for g in comp.generators for t in A.target_names(g.target)}:
                        continue
                    carried[r.id] = (r, p)
            if k != "partial":
                done.update(writes)
    return carried
