"""lenastatic -- repository-specific static analysis for ynikitenko/lena.

Every verdict is computed from the source text of <root>/lena/**/*.py with the
standard ``ast``/``symtable`` modules.  Nothing in this package imports lena
or executes any of its code.
"""
__version__ = "1"
