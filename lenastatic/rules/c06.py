"""C06 -- histogram fill: weight conservation and the half-open interval convention."""
import ast

from .. import astutil as A
from .. import paths as P
from ..loader import methods
from ..selftest.runner import M, TW, V
from . import common as K

PROPERTY = "C06"
EXPLANATION = (
    "Claimed for conservation and convention only.  (a) ONCE -- on every enumerated path of histogram.fill there is "
    "exactly one accounting effect `<cell or n_out_of_range> += weight`, the added value is the weight parameter "
    "itself, the cell is reached from self.bins by the indices get_bin_on_value(coord, self.edges) computed in this "
    "call, and fill keeps no other state between calls; Histogram.fill forwards to the structure exactly once; "
    "(b) GUARD -- every subscript of the bins by a computed index is dominated by the `ind < 0` test (Python's "
    "negative indexing would put underflow into the last cell) and enclosed by an IndexError handler; (c) AGREE -- "
    "every comparison of the value with an edge in get_bin_on_value_1d is `val < edge`, `val >= edge` or "
    "`val == edge` after normalisation (the half-open [low, high) convention as a belief all sites share); "
    "(d) check_edges_increasing runs in histogram.__init__ before the edges are stored; (e) get_bin_on_value pairs "
    "arg[i] with edges[i] in order and rejects a length mismatch first; the coordinate and the edges compared in "
    "get_bin_on_value_1d are the parameters as given, never rebound to a converted copy; (f) every way round the `while True` search loop moves a bound strictly "
    "(by a constant step, or `bound = guess` only after `guess == bound` was refuted), which is what makes fill() return.  (g) histogram.__init__, check_edges_increasing, get_bin_edges, unify_1_md, iter_bins_with_edges "
    "(and init_bins, a tabled exception) tell one- from multidimensional edges by the same test on edges[0].  Does not decide that the interpolation "
    "search returns the right index (loop invariants over floats)."    " Added after the eighth round of seeded changes and the second round of behaviour-preserving changes: (h, converse) a helper of lena that reports by raising (returns None on every path) is never asked for its value inside all()/any() over a generator or in a test."
)
RULES = {
    "C06-h": "VERDICT USED: no statement-level call discards the result of a lena function that returns a value on every path "
             "(check_edges_increasing and its helper either raise or are acted upon)",
    "C06-a": "ONCE: exactly one `+= weight` per fill on every path, on a cell reached from self.bins in this call; no other state",
    "C06-b": "GUARD: bins[ind] is dominated by `ind < 0` excluded and enclosed by `except IndexError`",
    "C06-c": "AGREE: all value/edge comparisons use <, >=, == only (half-open intervals)",
    "C06-d": "check_edges_increasing precedes storing the edges",
    "C06-e": "get_bin_on_value maps the 1-d lookup over the dimensions in order, after the length check",
    "C06-g": "AGREE on dimension: histogram.__init__ derives dim/nbins/ranges with the same test on edges[0] as the edge check and the "
             "iterators",
    "C06-f": "PROGRESS: every way round the search loop of get_bin_on_value_1d strictly shrinks the interval of candidate indices",
}
HIST = "lena.structures.histogram"
HF = "lena.structures.hist_functions"


def as_add(st):
    """(target, value) when *st* adds *value* to *target* in place, however it is spelled:
    `T += E`, `T = T + E` or `T = E + T` (numeric accumulation commutes); else None."""
    aa = A.as_augassign(st)
    if aa is not None:
        return (aa[0], aa[2]) if isinstance(aa[1], ast.Add) else None
    if isinstance(st, ast.Assign) and len(st.targets) == 1 and isinstance(st.value, ast.BinOp) and isinstance(st.value.op, ast.Add) \
            and isinstance(st.targets[0], (ast.Name, ast.Attribute, ast.Subscript)) and A.src(st.targets[0]) == A.src(st.value.right):
        return st.targets[0], st.value.left
    return None


def accounting_effects(stmt):
    """[(statement, target, added value)] for every in-place addition inside *stmt*."""
    out = []
    for n in A.walk_local(stmt):
        if isinstance(n, (ast.AugAssign, ast.Assign)):
            tv = as_add(n)
            if tv is not None:
                out.append((n, tv[0], tv[1]))
    return out


def descent_names(fn, field="bins"):
    """Locals that hold (sub-arrays of) self.<field> reached in this call."""
    names = set()
    changed = True
    while changed:
        changed = False
        for n in A.walk_local(fn):
            if isinstance(n, ast.Assign) and len(n.targets) == 1 and isinstance(n.targets[0], ast.Name):
                v = n.value
                root = v
                while isinstance(root, ast.Subscript):
                    root = root.value
                if (A.is_self_attr(root, field) or (isinstance(root, ast.Name) and root.id in names)) \
                        and n.targets[0].id not in names:
                    names.add(n.targets[0].id)
                    changed = True
    return names


def check_once(ctx):
    fn = ctx.tree.func(HIST, "histogram.fill")
    params = A.func_params(fn)
    if not ctx.require(len(params) >= 3 and params[2] == "weight", "C06-a", fn, "histogram.fill(self, coord, weight) expected"):
        return
    coord, weight = params[1], params[2]
    cells = descent_names(fn)
    n_paths = 0
    for p in P.paths_of(fn):
        if p.end == "raise":
            continue
        effs = []
        for e in p.ev:
            if e[0] == "stmt":
                effs.extend(accounting_effects(e[1]))
        n_paths += 1
        ctx.check("C06-a", len(effs) == 1, fn, "histogram.fill has %d accounting effects on path [%s]: the weight is %s, so "
                  "sum(bins) + n_out_of_range no longer equals the total filled weight" % (
                      len(effs), p.describe(), "lost" if not effs else "added more than once"),
                  detail="exactly one accounting effect on path [%s]" % p.describe(3), construct="once:%d:%s" % (len(effs), p.describe(3)), path=p)
        for a, t, added in effs:
            okv = isinstance(added, ast.Name) and added.id == weight
            ctx.check("C06-a", okv, a, "histogram.fill adds `%s` instead of the weight it was given" % A.src(added),
                      detail="the added value is the weight parameter", construct="weight:%s" % A.norm_src(a))
            if A.is_self_attr(t, "n_out_of_range"):
                continue
            root = A.root_name(t)
            okt = isinstance(t, ast.Subscript) and (root in cells)
            ctx.check("C06-a", okt, a, "histogram.fill adds the weight to `%s`, which is not a cell reached from self.bins in this "
                      "call (a remembered or foreign list may be stale after bins are rebound by scale/set_nevents)" % A.src(t),
                      detail="the cell is reached from self.bins in this call", construct="cell:%s" % A.src(t))
    ctx.instances_floor("C06-a", n_paths, 5, "paths of histogram.fill")
    # indices come from get_bin_on_value(coord, self.edges)
    idx = [n for n in A.walk_local(fn) if isinstance(n, ast.Assign) and isinstance(n.value, ast.Call)
           and A.call_name(n.value) == "get_bin_on_value"]
    ok = len(idx) == 1 and len(idx[0].value.args) == 2 and A.src(idx[0].value.args[0]) == coord and A.src(idx[0].value.args[1]) == "self.edges"
    ctx.check("C06-a", ok, fn, "histogram.fill does not compute its indices as get_bin_on_value(%s, self.edges)" % coord,
              detail="indices = get_bin_on_value(coord, self.edges)", construct="indices")
    # no other state written
    for n in A.walk_local(fn):
        if isinstance(n, (ast.Attribute,)) and A.is_self_attr(n) and isinstance(n.ctx, ast.Store) and n.attr != "n_out_of_range":
            ctx.violation("C06-a", n, "histogram.fill stores self.%s: a fill must change exactly one cell or n_out_of_range and nothing "
                          "else (state remembered between fills goes stale when the coordinate object or the bins change)" % n.attr,
                          construct="fill-state:%s" % n.attr)
    # an early fast path that bypasses the lookup: a path that returns (or falls off the end) without the index computation
    if ok:
        flagged = set()
        for p in P.paths_of(fn):
            if p.end == "raise" or p.has(idx[0]):
                continue
            rets = [st for st in p.stmts() if isinstance(st, ast.Return)]
            r = rets[-1] if rets else fn
            if id(r) in flagged:
                continue
            flagged.add(id(r))
            ctx.violation("C06-a", r, "histogram.fill returns before the bin lookup: some fills bypass get_bin_on_value",
                          construct="early-return")
    el = ctx.tree.func(HIST, "Histogram.fill")
    for p in P.paths_of(el):
        if p.end == "raise":
            continue
        calls = [c for e in p.ev if e[0] == "stmt" for c in A.walk_local(e[1]) if isinstance(c, ast.Call) and A.src(c.func) == "self._hist.fill"]
        ctx.check("C06-a", len(calls) == 1, el, "Histogram.fill fills the structure %d times on path [%s]" % (len(calls), p.describe()),
                  detail="Histogram.fill forwards once", construct="element-once:%d" % len(calls), path=p)


def index_subscripts(fn, cells):
    """Subscripts cell[ind] of the bins by a computed index, one per statement and spelling
    (`c[i] = c[i] + w` names the same access twice)."""
    out = []
    seen = set()
    for n in A.walk_local(fn):
        if isinstance(n, ast.Subscript) and isinstance(n.value, ast.Name) and n.value.id in cells and isinstance(n.slice, ast.Name):
            k = (id(A.enclosing(n, (ast.stmt,))), A.src(n))
            if k not in seen:
                seen.add(k)
                out.append(n)
    return out


def excludes_negative(t, pol, ind):
    """Does the branch literal (*t* with outcome *pol*) establish  ind >= 0  for an integer *ind*?  Orientation and
    negation do not matter: `not ind < 0`, `not 0 > ind`, `ind >= 0`, `0 <= ind`, `ind > -1` all do."""
    lc = K.linear_cmp(t)
    if lc is None:
        return False
    if not pol:
        lc = K.negate_linear(lc)
    coef, const, op = lc
    if set(coef) != {ind}:
        return False
    c = coef[ind]
    if op == "==":          # c*ind + const == 0
        return (-const * c) >= 0
    if op == "!=" or c > 0:  # an upper bound on ind, or no bound at all
        return False
    a = -c                  # -a*ind + const (<|<=) 0,  a > 0:  ind (>|>=) const/a
    return const >= -a if op == "<" else const > -a


def check_negative_guard(ctx, modname, qual, rule):
    res = ctx.res
    fn = ctx.tree.func(modname, qual)
    cells = descent_names(fn)
    subs = index_subscripts(fn, cells)
    n = 0
    for s in subs:
        ind = s.slice.id
        stmt = A.enclosing(s, (ast.stmt,))
        tr = A.enclosing(s, (ast.Try,))
        handled = tr is not None and any(stmt is b or stmt in list(ast.walk(b)) for b in tr.body) and any(
            h.type is not None and res.canon(h.type) in ("builtins.IndexError", "builtins.LookupError", "builtins.Exception") for h in tr.handlers)
        ctx.check(rule, handled, s, "%s indexes the bins with `%s` outside an `except IndexError`: an overflow index raises instead of "
                  "being counted/ignored" % (qual, A.src(s)), detail="%s: `%s` enclosed by except IndexError" % (qual, A.src(s)),
                  construct="no-indexerror:%s" % A.src(s))
        dominated = True
        npaths = 0
        for p in P.paths_of(fn):
            i = -1
            for k, e in enumerate(p.ev):
                if e[0] in ("stmt", "partial") and e[1] is stmt:
                    i = k
                    break
            if i < 0:
                continue
            npaths += 1
            # the test that excludes a negative index, with no rebinding of ind between it and the use
            guards = [k for k, e in enumerate(p.ev[:i]) if e[0] == "cond" and any(
                excludes_negative(t, pol, ind) for t, pol in A.literals(e[1], e[2]))]
            ok = bool(guards)
            if ok:
                last_guard = max(guards)
                for e in p.ev[last_guard:i]:
                    if e[0] in ("stmt", "partial") and any(ind in A.target_names(t) for t in A.assigned_targets(e[1])):
                        ok = False
                    if e[0] == "iter" and ind in A.target_names(e[1].target):
                        ok = False
            if not ok:
                dominated = False
                ctx.violation(rule, s, "%s reaches `%s` on path [%s] without having excluded %s < 0: Python's negative indexing puts a "
                              "value below the first edge into the last cell" % (qual, A.src(s), P.Path(p.ev[:i]).describe(4), ind),
                              construct="no-negative-guard:%s" % A.src(s), path=P.Path(p.ev[:i + 1]))
                break
        if dominated and npaths:
            n += 1
            ctx.ok(rule, s, "%s: `%s` dominated by the `%s < 0` test on %d paths" % (qual, A.src(s), ind, npaths))
    return n


def check_convention(ctx):
    fn = ctx.tree.func(HF, "get_bin_on_value_1d")
    params = A.func_params(fn)
    val, arr = params[0], params[1]
    n = 0
    for c in A.walk_local(fn):
        if not isinstance(c, ast.Compare):
            continue
        operands = [c.left] + list(c.comparators)
        for (l, op, r) in zip(operands, c.ops, operands[1:]):
            lv = isinstance(l, ast.Name) and l.id == val
            rv = isinstance(r, ast.Name) and r.id == val
            le = isinstance(l, ast.Subscript) and A.root_name(l) == arr
            re_ = isinstance(r, ast.Subscript) and A.root_name(r) == arr
            if not ((lv and re_) or (le and rv)):
                continue
            name = type(op).__name__
            if le and rv:   # edge OP val  ==  val OP' edge
                name = {"Lt": "Gt", "LtE": "GtE", "Gt": "Lt", "GtE": "LtE"}.get(name, name)
            n += 1
            ok = name in ("Lt", "GtE", "Eq")
            sym = {"Lt": "<", "LtE": "<=", "Gt": ">", "GtE": ">=", "Eq": "==", "NotEq": "!="}.get(name, name)
            ctx.check("C06-c", ok, c, "get_bin_on_value_1d compares `%s`, i.e. val %s edge: every other site uses only val < edge, "
                      "val >= edge, val == edge (closed lower, open upper bound); with this comparison a value exactly on an edge goes "
                      "to the cell below it" % (A.src(c), sym), detail="val %s edge" % sym, construct="compare:%s" % A.norm_src(c))
    ctx.instances_floor("C06-c", n, 6, "value/edge comparison sites")
    # the operands compared are the caller's own: the coordinate and the edges are not replaced by converted copies
    for par, what in ((val, "coordinate"), (arr, "edges")):
        rebinds = [s for s in A.walk_local(fn) if isinstance(s, (ast.Assign, ast.AugAssign, ast.For, ast.With))
                   and any(par in A.target_names(t) for t in A.assigned_targets(s))]
        for s in rebinds:
            v = getattr(s, "value", None)
            lossy = isinstance(v, ast.Call) and A.call_name(v) in ("float", "int", "round", "abs", "float32", "float64", "array",
                                                                    "asarray", "trunc", "floor", "ceil", "list", "tuple", "sorted")
            if lossy or isinstance(s, ast.AugAssign) or isinstance(v, ast.BinOp):
                ctx.violation("C06-c", s, "get_bin_on_value_1d replaces the %s by `%s` before comparing it with the edges: the cell is "
                              "then chosen for a converted copy (a float conversion rounds integers beyond 2**53, so a value lands in "
                              "a neighbouring cell), not for the value that was filled" % (what, A.src(s)),
                              construct="rebound-operand:%s" % par)
            else:
                ctx.unknown("C06-c", s, "get_bin_on_value_1d rebinds its %s parameter (`%s`)" % (what, A.short(s, 60)))
        if not rebinds:
            ctx.ok("C06-c", fn, "the %s compared is the parameter as given (never rebound)" % what)


def check_edges_guard(ctx):
    res = ctx.res
    fn = ctx.tree.func(HIST, "histogram.__init__")
    calls = [c for c in A.walk_local(fn) if isinstance(c, ast.Call) and res.canon(c.func) == HF + ".check_edges_increasing"]
    stores = [n for n in A.walk_local(fn) if isinstance(n, ast.Assign) and any(A.is_self_attr(t, "edges") for t in n.targets)]
    ok = len(calls) >= 1 and len(stores) >= 1 and A.src(calls[0].args[0]) == "edges" and all(c.lineno < s.lineno for c in calls[:1] for s in stores) \
        and A.enclosing(calls[0], (ast.If, ast.Try, ast.For, ast.While)) is None
    ctx.check("C06-d", ok, fn, "histogram.__init__ does not call check_edges_increasing(edges) unconditionally before storing the edges",
              detail="edges are checked before they are stored", construct="edges-check")
    ce = ctx.tree.func(HF, "check_edges_increasing")
    raises = [r for r in ast.walk(ce) if isinstance(r, ast.Raise) and r.exc is not None]
    okr = bool(raises) and all(res.canon(r.exc.func if isinstance(r.exc, ast.Call) else r.exc) == "lena.core.exceptions.LenaValueError" for r in raises)
    ctx.check("C06-d", okr, ce, "check_edges_increasing does not reject bad edges with LenaValueError", detail="bad edges raise LenaValueError",
              construct="edges-raise")


def check_md_lookup(ctx):
    res = ctx.res
    fn = ctx.tree.func(HF, "get_bin_on_value")
    arg, edges = A.func_params(fn)[:2]
    loops = [l for l in A.walk_local(fn) if isinstance(l, ast.For)]
    ok = False
    if len(loops) == 1:
        l = loops[0]
        it = l.iter
        if isinstance(it, ast.Call) and A.call_name(it) == "enumerate" and A.src(it.args[0]) == edges and isinstance(l.target, ast.Tuple):
            i, arrn = [A.src(e) for e in l.target.elts]
            calls = [c for c in A.walk_local(l) if isinstance(c, ast.Call) and A.call_name(c) == "get_bin_on_value_1d"]
            apps = [c for c in A.walk_local(l) if isinstance(c, ast.Call) and isinstance(c.func, ast.Attribute) and c.func.attr == "append"]
            ok = len(calls) == 1 and A.src(calls[0].args[0]) == "%s[%s]" % (arg, i) and A.src(calls[0].args[1]) == arrn and len(apps) == 1 \
                and all(p.end == "fall" and sum(1 for s in p.stmts() for c in A.walk_local(s) if c in apps) == 1 for p in P.loop_body_paths(l))
    comp_stmt = None
    if not loops:
        # the same as one expression: [get_bin_on_value_1d(arg[i], e) for i, e in enumerate(edges)], returned (or bound and returned)
        comps = [c for c in A.walk_local(fn) if isinstance(c, ast.ListComp)]
        if len(comps) == 1 and len(comps[0].generators) == 1 and not comps[0].generators[0].ifs:
            g = comps[0].generators[0]
            e = comps[0].elt
            if isinstance(g.iter, ast.Call) and A.call_name(g.iter) == "enumerate" and len(g.iter.args) == 1 and A.src(g.iter.args[0]) == edges \
                    and isinstance(g.target, ast.Tuple) and len(g.target.elts) == 2 and isinstance(e, ast.Call) \
                    and A.call_name(e) == "get_bin_on_value_1d" and len(e.args) == 2:
                i, arrn = [A.src(x) for x in g.target.elts]
                ok = A.src(e.args[0]) == "%s[%s]" % (arg, i) and A.src(e.args[1]) == arrn
                comp_stmt = A.enclosing(comps[0], (ast.stmt,))
                rets = [r for r in A.walk_local(fn) if isinstance(r, ast.Return)]
                ok = ok and (isinstance(comp_stmt, ast.Return) or (isinstance(comp_stmt, ast.Assign) and len(comp_stmt.targets) == 1 and any(
                    r.value is not None and A.src(comp_stmt.targets[0]) == A.src(r.value) and r.lineno > comp_stmt.lineno for r in rets)))
        elif comps:
            ctx.unknown("C06-e", fn, "get_bin_on_value builds the indices with `%s`, a form the rule does not read" % A.short(comps[0], 60))
            return
    ctx.check("C06-e", ok, fn, "get_bin_on_value does not append get_bin_on_value_1d(arg[i], edges[i]) once per dimension in order",
              detail="one 1-d lookup per dimension, arg[i] paired with edges[i]", construct="md-lookup")
    raises = [r for r in A.walk_local(fn) if isinstance(r, ast.Raise)]
    okr = len(raises) == 1 and isinstance(raises[0].exc, ast.Call) and res.canon(raises[0].exc.func) == "lena.core.exceptions.LenaValueError" \
        and (len(loops) == 1 or comp_stmt is not None)
    is_lookup = (lambda e: e[0] == "iter" and e[1] is loops[0]) if loops else (lambda e: e[0] == "stmt" and e[1] is comp_stmt)
    if okr:
        # polarity- and orientation-independent: the raise is reached under the mismatch, the loop only after it was refuted
        mism = A.norm_src(ast.parse("len(%s) != len(%s)" % (arg, edges)).body[0].value)
        match = A.norm_src(ast.parse("len(%s) == len(%s)" % (arg, edges)).body[0].value)

        def decided(path, upto, mismatch):
            for e in path.ev[:upto]:
                if e[0] != "cond":
                    continue
                for t, pol in A.literals(e[1], e[2]):
                    # a taken `a or mismatch` is the mismatch as one of the reasons to raise
                    alts = t.values if (mismatch and pol and isinstance(t, ast.BoolOp) and isinstance(t.op, ast.Or)) else [t]
                    for a in alts:
                        a, apol = A.strip_not(a)
                        apol = apol if pol else not apol
                        if (A.norm_src(a), apol) in (((mism, True), (match, False)) if mismatch else ((mism, False), (match, True))):
                            return True
            return False
        n_raise = n_loop = 0
        for p in P.paths_of(fn):
            i = p.index(raises[0])
            if i >= 0:
                n_raise += 1
                okr = okr and decided(p, i, True) and not any(is_lookup(e) for e in p.ev[:i])
            its = [k for k, e in enumerate(p.ev) if is_lookup(e)]
            if its:
                n_loop += 1
                okr = okr and decided(p, its[0], False)
        okr = okr and n_raise >= 1 and n_loop >= 1
    ctx.check("C06-e", okr, fn, "get_bin_on_value does not raise LenaValueError for a length mismatch before any lookup",
              detail="length mismatch rejected first", construct="md-length")


def check_progress(ctx):
    """The search loop of get_bin_on_value_1d has no exit condition of its own (`while True`): it ends because every
    iteration that does not return strictly shrinks [low, high].  A step `bound += 1` / `bound -= 1` always does; a step
    `bound = guess` does only if the path has established `guess != bound` -- otherwise the state repeats and fill() hangs."""
    fn = ctx.tree.func(HF, "get_bin_on_value_1d")
    loops = [l for l in fn.body if isinstance(l, ast.While)]
    if not ctx.require(len(loops) == 1 and isinstance(loops[0].test, ast.Constant) and bool(loops[0].test.value), "C06-f", fn,
                       "get_bin_on_value_1d: expected one `while True` search loop"):
        return
    loop = loops[0]
    bounds = [s.targets[0].id for s in fn.body if isinstance(s, ast.Assign) and len(s.targets) == 1 and isinstance(s.targets[0], ast.Name)
              and s.lineno < loop.lineno]
    bounds = [b for b in bounds if any(isinstance(x, (ast.Assign, ast.AugAssign)) and b in [n for t in A.assigned_targets(x) for n in A.target_names(t)]
                                       for x in A.walk_body(loop.body))]
    if not ctx.require(len(bounds) == 2, "C06-f", loop, "search loop: the two interval bounds were not identified (%s)" % bounds):
        return
    n = 0
    for p in P.loop_body_paths(loop):
        if p.end not in ("fall", "continue"):
            continue
        n += 1
        steps = []
        for i, e in enumerate(p.ev):
            if e[0] != "stmt":
                continue
            st = e[1]
            aa = A.as_augassign(st)     # `b += 1` and `b = b + 1` alike
            if aa is not None and isinstance(aa[0], ast.Name) and aa[0].id in bounds:
                strict = isinstance(aa[1], (ast.Add, ast.Sub)) and (A.int_const(aa[2]) or 0) >= 1
                steps.append((st, strict, "by a constant step"))
            elif isinstance(st, ast.Assign) and len(st.targets) == 1 and isinstance(st.targets[0], ast.Name) and st.targets[0].id in bounds:
                b = st.targets[0].id
                v = st.value
                strict = False
                why = "assigned `%s`" % A.src(v)
                if isinstance(v, ast.Name):
                    # the path must have refuted  b == v
                    for t, pol in p.literals():
                        if isinstance(t, ast.Compare) and len(t.ops) == 1 and {A.src(t.left), A.src(t.comparators[0])} == {b, v.id}:
                            if (isinstance(t.ops[0], ast.Eq) and pol is False) or (isinstance(t.ops[0], ast.NotEq) and pol is True):
                                strict = True
                    why = "assigned `%s` %s" % (v.id, "after `%s != %s` was established" % (v.id, b) if strict else
                                                "although the path has not excluded `%s == %s`" % (v.id, b))
                steps.append((st, strict, why))
        ok = any(strict for _, strict, _ in steps)
        ctx.check("C06-f", ok, loop, "get_bin_on_value_1d can go round its search loop without shrinking the interval [%s]: %s -- with the "
                  "same bounds the next iteration repeats this one, so histogram.fill never returns (the interpolated guess can equal a "
                  "bound through floating-point rounding)" % (p.describe(4), "; ".join("`%s` %s" % (A.src(st), why) for st, _, why in steps) or "no bound changes"),
                  detail="search loop [%s]: a bound moves strictly" % p.describe(3), construct="no-progress:" + ";".join(
                      A.norm_src(st, {bounds[0]: "low", bounds[1]: "high"}) for st, _, _ in steps), path=p)
    ctx.instances_floor("C06-f", n, 3, "ways round the search loop of get_bin_on_value_1d")


def _always_returns_value(fn):
    if A.is_generator(fn):
        return False
    try:
        ps = P.paths_of(fn)
    except Exception:
        return False
    ok = False
    for p in ps:
        if p.end == "raise":
            continue
        rets = [s for s in p.stmts() if isinstance(s, ast.Return)]
        if not rets or rets[-1].value is None or A.is_const(rets[-1].value, None):
            return False
        ok = True
    return ok


def check_verdict_used(ctx):
    """A checking helper either raises itself (and is called as a statement) or returns its verdict (and the caller must act on
    it).  A function of lena that returns a value on every normal path, called as a bare statement, has its answer thrown
    away: a validation turned from raising into returning True/False while one of its call sites still ignores the result
    silently accepts what it was there to reject (non-increasing edges of a multidimensional histogram).  Tree-wide, resolved
    module-level functions of lena; none on the reference tree."""
    res = ctx.res
    n_calls = n_q = 0
    cache = {}
    for mod, fn in ctx.tree.functions():
        for st in A.walk_local(fn):
            if not (isinstance(st, ast.Expr) and isinstance(st.value, ast.Call)):
                continue
            c = res.call_canon(st.value)
            if not c or not c.startswith("lena."):
                continue
            m, _, q = c.rpartition(".")
            callee = ctx.tree.maybe(m, q)
            if not isinstance(callee, ast.FunctionDef):
                continue
            n_calls += 1
            if c not in cache:
                cache[c] = _always_returns_value(callee)
            if cache[c]:
                n_q += 1
                ctx.violation("C06-h", st, "%s calls `%s` as a statement, but %s returns a value on every path: its verdict is "
                              "discarded (a check that reports by its result, not by raising, rejects nothing here)"
                              % (A.qualname(fn), A.short(st.value, 50), q), construct="verdict-dropped:%s:%s" % (A.qualname(fn), q))
    # the converse: a helper that reports by raising returns nothing; asked for its value in a short-circuiting aggregate
    # (all/any over a generator) or in a test it is None -- all() stops after the first item, so only the first axis is checked
    n_val = 0
    pcache = {}
    for mod, fn in ctx.tree.functions():
        for call in A.walk_local(fn):
            if not isinstance(call, ast.Call):
                continue
            c = res.call_canon(call)
            if not c or not c.startswith("lena."):
                continue
            m, _, q = c.rpartition(".")
            callee = ctx.tree.maybe(m, q)
            if not isinstance(callee, ast.FunctionDef):
                continue
            if c not in pcache:
                pcache[c] = (not A.is_generator(callee)) and all(
                    r.value is None or A.is_const(r.value, None) for r in A.walk_local(callee) if isinstance(r, ast.Return))
            if not pcache[c]:
                continue
            par = A.parent(call)
            where = None
            if isinstance(par, (ast.GeneratorExp, ast.ListComp, ast.SetComp)) and par.elt is call:
                agg = A.parent(par)
                if isinstance(agg, ast.Call) and res.call_canon(agg) in ("builtins.all", "builtins.any"):
                    where = "`%s(...)` over its results" % res.call_canon(agg).split(".")[-1]
            elif isinstance(par, (ast.If, ast.While, ast.IfExp)) and par.test is call:
                where = "a test"
            elif isinstance(par, ast.BoolOp) or (isinstance(par, ast.UnaryOp) and isinstance(par.op, ast.Not)):
                where = "a boolean expression"
            n_val += 1
            if where:
                n_q += 1
                ctx.violation("C06-h", call, "%s uses `%s` in %s, but %s reports by raising and returns None on every path: the "
                              "evaluation short-circuits on that None, so the check is not made for every item (only the first axis of "
                              "multidimensional edges is validated)" % (A.qualname(fn), A.short(call, 50), where, q),
                              construct="none-verdict-used:%s:%s" % (A.qualname(fn), q))
    ctx.note("calls_of_raising_procedures", n_val)
    ctx.note("statement_calls_of_lena_functions", n_calls)
    ctx.instances_floor("C06-h", n_calls, 20, "statement-level calls of module functions of lena")
    if not n_q:
        ctx.ok("C06-h", ctx.tree.func(HF, "check_edges_increasing"), "%d statement calls of lena functions: none discards a returned verdict" % n_calls)


def check(ctx):
    check_verdict_used(ctx)
    K.check_dimension_predicates(ctx, "C06-g", "dim, nbins and ranges of the histogram no longer describe the bins that fill() walks")
    check_progress(ctx)
    check_once(ctx)
    n = check_negative_guard(ctx, HIST, "histogram.fill", "C06-b")
    n += check_negative_guard(ctx, "lena.structures.split_into_bins", "SplitIntoBins.fill", "C06-b")
    ctx.instances_floor("C06-b", n, 3, "guarded index subscripts")
    check_convention(ctx)
    check_edges_guard(ctx)
    check_md_lookup(ctx)


VARIANTS = [
    V("mutant", "edges-check-returns-verdict", None, None, None, ["C06-h"], edits=[
        ("lena/structures/hist_functions.py", "    if not all(increasing):\n        raise lena.core.LenaValueError(\n            \"expected strictly increasing values, \"\n            \"{} provided\".format(arr)\n        )\n", "    return all(increasing)\n", 0)]),
    M("histogram-dim-lists-only", "lena/structures/histogram.py", "        if hasattr(edges[0], \"__iter__\"):\n            self.dim = len(edges)", "        if isinstance(edges[0], list):\n            self.dim = len(edges)", ["C06-g"]),
    M("search-safeguard-removed", "lena/structures/hist_functions.py", "            elif ind_max == ind_guess:\n                ind_max -= 1\n                continue\n", "", ["C06-f"]),
    M("search-first-guard-removed", "lena/structures/hist_functions.py", "            if ind_min == ind_guess:\n                ind_min += 1\n                continue\n            # ind_max is always more that ind_guess,\n            # because val < arr[ind_max] (see the formula for shift).\n            # This branch is not needed and can't be tested.\n            # But for the sake of numerical inaccuracies, let us keep this\n            # so that we never get into an infinite loop.\n            elif ind_max == ind_guess:", "            if ind_max == ind_guess:", ["C06-f"]),
    M("search-step-zero", "lena/structures/hist_functions.py", "            if ind_min == ind_guess:\n                ind_min += 1\n                continue", "            if ind_min == ind_guess:\n                ind_min += 0\n                continue", ["C06-f"]),
    M("value-float-once", "lena/structures/hist_functions.py", "    ind_min = 0\n    ind_max = len(arr) - 1\n    while True:\n        if ind_max - ind_min <= 1:", "    ind_min = 0\n    ind_max = len(arr) - 1\n    val = float(val)\n    while True:\n        if ind_max - ind_min <= 1:", ["C06-c"]),
    M("drop-overflow-accounting", "lena/structures/histogram.py", "        try:\n            ## filling the found bin ##\n            subarr[ind] += weight\n        except IndexError:\n            self.n_out_of_range += weight\n            return",
      "        try:\n            ## filling the found bin ##\n            subarr[ind] += weight\n        except IndexError:\n            return", ["C06-a"]),
    M("double-weight", "lena/structures/histogram.py", "        if ind < 0:\n            self.n_out_of_range += weight\n            return\n\n        try:\n            ## filling the found bin ##\n            subarr[ind] += weight",
      "        if ind < 0:\n            self.n_out_of_range += weight\n            return\n\n        try:\n            subarr[ind] += weight\n            self.n_out_of_range += 0 * weight", ["C06-a"]),
    M("unit-weight", "lena/structures/histogram.py", "            subarr[ind] += weight\n        except IndexError:", "            subarr[ind] += 1\n        except IndexError:", ["C06-a"]),
    M("no-negative-guard", "lena/structures/histogram.py", "        ind = indices[-1]\n        # underflow\n        if ind < 0:\n            self.n_out_of_range += weight\n            return\n", "        ind = indices[-1]\n", ["C06-b"]),
    M("flip-upper-bound", "lena/structures/hist_functions.py", "            elif val >= arr[ind_max]:\n                return ind_max\n            else:\n                return ind_min", "            elif val > arr[ind_max]:\n                return ind_max\n            else:\n                return ind_min", ["C06-c"]),
    M("flip-lower-bound", "lena/structures/hist_functions.py", "        if val < arr[ind_min]:\n            return ind_min - 1\n        elif val >= arr[ind_max]:\n            return ind_max\n        else:\n            shift",
      "        if val <= arr[ind_min]:\n            return ind_min - 1\n        elif val >= arr[ind_max]:\n            return ind_max\n        else:\n            shift", ["C06-c"]),
    M("element-fills-twice", "lena/structures/histogram.py", "        self._hist.fill(data)\n", "        self._hist.fill(data)\n        self._hist.fill(data, 0)\n", ["C06-a"]),
    M("edges-unchecked", "lena/structures/histogram.py", "        hf.check_edges_increasing(edges)\n        self.edges = edges", "        self.edges = edges", ["C06-d"]),
    M("lookup-wrong-pairing", "lena/structures/hist_functions.py", "        cur_bin = get_bin_on_value_1d(arg[ind], array)", "        cur_bin = get_bin_on_value_1d(arg[0], array)", ["C06-e"]),
    TW("rename-subarr", "lena/structures/histogram.py", "        try:\n            ## filling the found bin ##\n            subarr[ind] += weight\n        except IndexError:\n            self.n_out_of_range += weight\n            return",
       "        try:\n            ## filling the found bin ##\n            subarr[ind] += weight\n        except IndexError:\n            self.n_out_of_range += weight\n            return\n        return"),
]
