"""C04 -- context non-interference between Split branches and across accumulators."""
import ast

from .. import astutil as A
from .. import paths as P
from ..loader import methods, AnalysisError
from ..taint import Interp, Policy, Val, State, Fresh, IMMUTABLE
from ..selftest.runner import M, TW, V
from . import common as K

PROPERTY = "C04"
EXPLANATION = (
    "Decides the freshness/aliasing shape clauses: (a) in every framework accumulator (classes outside lena/core "
    "with fill and compute|request) every context-kind value that reaches a yield of compute/request is a "
    "copy.deepcopy made for that yield (not the stored field, not a shallow copy, not a copy hoisted out of the "
    "loop containing the yield, not the same object twice) -- decided by an alias/freshness abstract "
    "interpretation over all enumerated paths with same-class helpers inlined and module helpers summarised; "
    "(b) in Split._fill, Split.run and Zip._fill every branch but at most the last one receives copy.deepcopy of "
    "the value/block, the copy being made inside the branch loop, and the guard of Split.run's copy is decided "
    "as a linear condition over (ind, n_of_active_seqs); (c) copy_buf defaults to True and reaches _copy_buf "
    "only through bool(); (d) the isolation rests on copy.deepcopy copying everything a value holds: every __deepcopy__ "
    "defined anywhere in lena (expected: none) must hand the object's content to the copy only through copy.deepcopy, and "
    "no class defines __copy__-style shortcuts under the name __deepcopy__ (`__deepcopy__ = __copy__`).  Does not decide that a branch computes what it would compute alone (values) nor "
    "aliasing introduced by user elements."    " Added after the eighth round of seeded changes and the second round of behaviour-preserving changes: (e) KEEP AND YIELD, tree-wide: a generator run() that both yields a value of its flow (as it is or through copy.copy/tuple/list) and keeps it in the element (self.<x>.update/append/fill(val)) on one way through its loop separates the two by copy.deepcopy."
)
RULES = {
    "C04-a": "FRESH: every context-kind value yielded by an accumulator's compute/request is a per-yield deep copy",
    "C04-b": "FRESH: Split._fill / Split.run / Zip._fill hand a per-branch deep copy to every branch but (at most) the last",
    "C04-d": "COPY PROTOCOL: a __deepcopy__ defined in lena passes the content of self on only inside copy.deepcopy(...) "
             "(a shallow hook makes Split's per-branch copies share their nested dictionaries)",
    "C04-e": "KEEP AND YIELD: a run() that both hands a value of its flow on and keeps it in the element (a group, a store) separates "
             "the two by a deep copy -- copy.copy of a (data, context) tuple is the same tuple",
    "C04-c": "Split.__init__: copy_buf defaults to True and is stored as bool(copy_buf)",
}

GDC = ("lena.flow.functions.get_data_context",)
GC = ("lena.flow.functions.get_context",)


class AccPolicy(Policy):
    """Sources: context of a filled value.  Sink: yields of compute/request."""

    def __init__(self, res, cls, ctx, check_yields):
        Policy.__init__(self, res, cls)
        self.c = ctx
        self.check_yields = check_yields
        self.new_ctx_fields = set()
        self.method = None

    def call_value(self, interp, call, canon, args, state):
        if canon in GDC:
            src = args[0] if args else Val()
            return Val(origin="pair", fresh=Fresh(state.loops, call), items=[
                Val(origin="data of %s" % (src.origin or "value"), labels=src.labels),
                Val(ctx=True, fresh=None, origin="the context of %s" % (src.origin or "a value"), labels=src.labels)])
        if canon in GC:
            src = args[0] if args else Val()
            return Val(ctx=True, fresh=None, origin="the context of %s" % (src.origin or "a value"), labels=src.labels)
        return None

    def param_value(self, fn, name):
        return Val(origin="the filled value" if fn.name in ("fill", "fill_into") else "parameter %s" % name,
                   labels=[("param", name)])

    def on_field_store(self, interp, node, field, val, state):
        if any(l.ctx for l in val.leaves()):
            if field not in self.ctx_fields:
                self.new_ctx_fields.add(field)

    def field_value(self, name, state):
        return Val(ctx=name in self.ctx_fields, fresh=None,
                   origin="field self.%s (kept by the element between calls)" % name, labels=[("field", name)])

    def on_yield(self, interp, node, val, state):
        if not self.check_yields:
            return
        c = self.c
        bad = False
        nctx = 0
        for leaf in val.leaves():
            if not leaf.ctx:
                continue
            if leaf.fresh == IMMUTABLE:
                continue
            nctx += 1
            if leaf.fresh is None:
                c.violation("C04-a", node, "%s hands out %s without copy.deepcopy: downstream in-place updates reach "
                            "the stored/filled context" % (A.short(node, 80), leaf.origin), path=state.path)
                bad = True
                continue
            if leaf.fresh.escaped:
                c.violation("C04-a", node, "%s hands out a context object that was already handed out (two results "
                            "share one context)" % A.short(node, 80), path=state.path)
                bad = True
                continue
            missing = [l for l in state.loops if l not in leaf.fresh.stack]
            if missing:
                c.violation("C04-a", node, "%s: the deep copy was made outside the loop `%s` that contains the yield "
                            "(every iteration yields the same object)" % (A.short(node, 80), A.short(missing[0], 50).split(":")[0]),
                            path=state.path)
                bad = True
                continue
        for leaf in val.leaves():
            if leaf.fresh not in (None, IMMUTABLE):
                leaf.fresh.escaped = True
        if not bad:
            c.ok("C04-a", node, "%s: %d context value(s), each a per-yield deep copy [%s]" % (
                A.short(node, 70), nctx, state.path.describe(3)), nontrivial=nctx > 0)


def accumulator_classes(ctx):
    out = []
    for mod, cls in ctx.tree.classes():
        if mod.name.startswith("lena.core"):
            continue
        ms = methods(cls)
        if "fill" in ms and ("compute" in ms or "request" in ms):
            out.append((mod, cls))
    return out


def check_accumulators(ctx):
    accs = accumulator_classes(ctx)
    ctx.instances_floor("C04-a", len(accs), 12, "accumulator classes (fill + compute|request outside lena/core)")
    ctx.note("accumulators", ["%s.%s" % (m.name, c.name) for m, c in accs])
    for mod, cls in accs:
        ms = methods(cls)
        pol = AccPolicy(ctx.res, cls, ctx, check_yields=False)
        # fixpoint over the set of context-kind fields
        for _ in range(6):
            pol.new_ctx_fields = set()
            it = Interp(pol)
            for name, fn in ms.items():
                it.run_function(fn)
            if not pol.new_ctx_fields:
                break
            pol.ctx_fields |= pol.new_ctx_fields
        pol.check_yields = True
        n_yields = 0
        for name in ("compute", "request"):
            fn = ms.get(name)
            if fn is None:
                continue
            n_yields += sum(1 for n in A.walk_local(fn) if isinstance(n, (ast.Yield, ast.YieldFrom)))
            Interp(pol).run_function(fn)
        if n_yields == 0:
            ctx.ok("C04-a", cls, "%s: compute/request delegates (no own yield)" % cls.name, nontrivial=False)
        ctx.note("ctx_fields:%s" % cls.name, sorted(pol.ctx_fields))


# -- Split / Zip --------------------------------------------------------------

def loop_over_field(fn, field):
    """for-loops of fn iterating self.<field> or a slice of it."""
    out = []
    for n in A.walk_local(fn):
        if isinstance(n, ast.For):
            it = n.iter
            base = it.value if isinstance(it, ast.Subscript) else it
            if A.is_self_attr(base, field):
                out.append(n)
    return out


def fill_calls(node):
    return [n for n in A.walk_local(node) if isinstance(n, ast.Call) and isinstance(n.func, ast.Attribute)
            and n.func.attr == "fill"]


def check_split_fill(ctx):
    res = ctx.res
    fn = ctx.tree.func("lena.core.split", "Split._fill")
    val = [p for p in A.func_params(fn) if p != "self"][0]
    loops = loop_over_field(fn, "_seqs")
    if not ctx.require(len(loops) == 1, "C04-b", fn, "Split._fill: expected exactly one loop over self._seqs"):
        return
    loop = loops[0]
    # which branches the loop covers
    it = loop.iter
    covers_all = A.is_self_attr(it, "_seqs")
    covers_but_last = (isinstance(it, ast.Subscript) and isinstance(it.slice, ast.Slice)
                       and it.slice.lower is None and it.slice.step is None
                       and A.src(it.slice.upper) == "-1")
    if not ctx.require(covers_all or covers_but_last, "C04-b", loop,
                       "Split._fill: loop iterates neither self._seqs nor self._seqs[:-1]"):
        return
    # every path through the loop body with _copy_buf true fills the branch with a deepcopy made in the body
    n = 0
    for p in P.loop_body_paths(loop):
        lits = p.literal_srcs()
        copying = "not self._copy_buf" not in lits
        fills = [c for s in p.stmts() for c in fill_calls(s)]
        for c in fills:
            n += 1
            arg = c.args[0] if c.args else None
            fresh = arg is not None and res.is_call_to(arg, "copy.deepcopy") and A.src(arg.args[0]) == val
            same = arg is not None and A.src(arg) == val
            if copying:
                ctx.check("C04-b", fresh, c,
                          "Split._fill: with copy_buf set, a branch before the last is filled with `%s` instead of "
                          "copy.deepcopy(%s): branches share the value" % (A.src(arg) if arg is not None else "", val),
                          detail="Split._fill: non-last branch receives copy.deepcopy(%s) [%s]" % (val, p.describe()),
                          path=p)
            else:
                ctx.check("C04-b", fresh or same, c, "Split._fill: fills a branch with something that is not the value",
                          detail="Split._fill (copy_buf off): branch receives the value", path=p)
        if not fills and p.end in ("fall", "continue"):
            ctx.violation("C04-b", loop, "Split._fill: a path through the branch loop fills nothing (%s)" % p.describe(),
                          construct="no-fill:" + p.describe(), path=p)
    # the copy condition must be `self._copy_buf` alone
    for n_ in A.walk_local(loop):
        if isinstance(n_, ast.If):
            names = {A.src(t) for t, pol in A.literals(n_.test, True)}
            ctx.check("C04-b", names <= {"self._copy_buf"}, n_,
                      "Split._fill: copying depends on `%s`, not only on copy_buf" % A.src(n_.test),
                      detail="Split._fill: copy is conditional on self._copy_buf only")
    # the last branch, when excluded from the loop, is filled exactly once after it
    tail = [c for st in fn.body if st is not loop for c in fill_calls(st)]
    if covers_but_last:
        ok = len(tail) == 1 and A.src(tail[0].func.value) == "self._seqs[-1]" and tail[0].args and \
            (A.src(tail[0].args[0]) == val or res.is_call_to(tail[0].args[0], "copy.deepcopy"))
        ctx.check("C04-b", ok, fn, "Split._fill: the last branch self._seqs[-1] is not filled exactly once with the value "
                  "(slices [:-1] and [-1] must partition the branch list)",
                  detail="Split._fill: [:-1] and [-1] partition the branches; the original goes to the last only",
                  construct="tail-fill")
    else:
        ctx.check("C04-b", not tail, fn, "Split._fill: a branch is filled twice", detail="no second fill",
                  construct="tail-fill")
        # all branches in the loop: then every one must get a copy
        for p in P.loop_body_paths(loop):
            if "not self._copy_buf" in p.literal_srcs():
                continue
            for s in p.stmts():
                for c in fill_calls(s):
                    if c.args and A.src(c.args[0]) == val:
                        ctx.violation("C04-b", c, "Split._fill: the original value is handed to more than one branch",
                                      path=p)


def check_zip_fill(ctx):
    res = ctx.res
    fn = ctx.tree.func("lena.flow.zip", "Zip._fill")
    val = [p for p in A.func_params(fn) if p != "self"][0]
    loops = loop_over_field(fn, "_sequences")
    if not ctx.require(len(loops) == 1 and A.is_self_attr(loops[0].iter, "_sequences"), "C04-b", fn,
                       "Zip._fill: expected one loop over self._sequences"):
        return
    loop = loops[0]
    for p in P.loop_body_paths(loop):
        fills = [c for s in p.stmts() for c in fill_calls(s)]
        for c in fills:
            arg = c.args[0] if c.args else None
            fresh = arg is not None and res.is_call_to(arg, "copy.deepcopy") and A.src(arg.args[0]) == val
            ctx.check("C04-b", fresh, c, "Zip._fill: a branch is filled with `%s` instead of its own copy.deepcopy(%s)"
                      % (A.src(arg) if arg is not None else "", val),
                      detail="Zip._fill: every branch receives copy.deepcopy(%s)" % val, path=p)
        if not fills and p.end in ("fall", "continue"):
            ctx.violation("C04-b", loop, "Zip._fill: a path fills nothing", construct="no-fill", path=p)
    outside = [c for st in fn.body if st is not loop for c in fill_calls(st)]
    ctx.check("C04-b", not outside, fn, "Zip._fill: fill outside the branch loop", detail="Zip._fill: no fill outside the loop",
              construct="outside-fill")


def check_split_run(ctx):
    """buf handed to a branch is copy.deepcopy(orig_buf) whenever copy_buf is set
    and the branch is not the last active one."""
    res = ctx.res
    fn = ctx.tree.func("lena.core.split", "Split.run")
    # the block pull: X = list(islice(flow, ...))
    pull = None
    for n in A.walk_local(fn):
        if isinstance(n, ast.Assign) and len(n.targets) == 1 and isinstance(n.targets[0], ast.Name) \
                and isinstance(n.value, ast.Call) and any(
                    isinstance(x, ast.Call) and res.canon(x.func) == "itertools.islice" for x in ast.walk(n.value)):
            pull = n
    if not ctx.require(pull is not None, "C04-b", fn, "Split.run: block pull `X = list(islice(flow, bufsize))` not found"):
        return
    orig = pull.targets[0].id
    # the inner branch loop: while <ind> < <n>
    inner = None
    for n in A.walk_local(fn):
        if isinstance(n, ast.While) and isinstance(n.test, ast.Compare):
            inner = n
    if not ctx.require(inner is not None, "C04-b", fn, "Split.run: branch loop `while ind < n_of_active_seqs` not found"):
        return
    lin = K.linear_cmp(inner.test)
    if not ctx.require(lin is not None and len(lin[0]) == 2, "C04-b", inner, "Split.run: branch loop test is not a linear "
                       "comparison of two names"):
        return
    # names: index variable and count variable from `ind < n`
    (coef, const_, op) = lin
    # normalised as sum(coef*name) + const  op  0
    ind = n_ = None
    for nm, cf in coef.items():
        if cf > 0:
            ind = nm
        else:
            n_ = nm
    if op not in ("<",) or ind is None or n_ is None:
        ctx.unknown("C04-b", inner, "Split.run: unrecognised branch loop test %s" % A.src(inner.test))
        return
    # the buffer variable used by the branches: names assigned from orig or deepcopy(orig) in the inner loop
    bufs = set()
    assigns = []
    for s in A.walk_local(inner):
        if isinstance(s, ast.Assign) and len(s.targets) == 1 and isinstance(s.targets[0], ast.Name):
            v = s.value
            if (isinstance(v, ast.Name) and v.id == orig) or (
                    isinstance(v, ast.Call) and v.args and A.src(v.args[0]) == orig):
                bufs.add(s.targets[0].id)
                assigns.append(s)
    if len(bufs) > 1:
        # a copy of the block kept in a second local and handed to the branches from there: the copy is made once per
        # block (or lazily, the first time it is needed) and every non-last branch receives the same object
        direct = {s2.targets[0].id for s2 in assigns if isinstance(s2.value, ast.Name)}
        memo = {s2.targets[0].id for s2 in assigns if isinstance(s2.value, ast.Call)} - direct
        via = [s2 for s2 in A.walk_local(inner) if isinstance(s2, ast.Assign) and len(s2.targets) == 1 and isinstance(s2.targets[0], ast.Name)
               and s2.targets[0].id in direct and isinstance(s2.value, ast.Name) and s2.value.id in memo]
        if len(direct) == 1 and via:
            ctx.violation("C04-b", via[0], "Split.run hands the branches `%s`, a copy of the block that is kept in `%s` across the branch loop: "
                          "all branches but the last one receive one and the same copy, so an in-place change made by one branch (a "
                          "Variable, an UpdateContext) is seen by the next" % (via[0].targets[0].id, via[0].value.id),
                          construct="shared-memo-copy")
            return
    if not ctx.require(len(bufs) == 1 and assigns, "C04-b", inner,
                       "Split.run: per-branch buffer assignment from %s not found" % orig):
        return
    buf = bufs.pop()
    # every use of the block by a branch must go through buf, never orig directly
    for n in A.walk_local(inner):
        if isinstance(n, ast.Name) and n.id == orig and isinstance(n.ctx, ast.Load):
            par = A.parent(n)
            okuse = (isinstance(par, ast.Assign) and par in assigns) or (
                isinstance(par, ast.Call) and res.canon(par.func) == "copy.deepcopy")
            ctx.check("C04-b", okuse, n, "Split.run: a branch uses the shared block `%s` directly" % orig,
                      detail="Split.run: %s is only copied or assigned to %s" % (orig, buf), construct="use:%s" % A.short(A.parent(n), 80))
    # path rule over one iteration of the inner loop
    n_paths = 0
    seen = set()
    for p in P.loop_body_paths(inner):
        # find the assignment to buf on this path
        a = [s for s in p.stmts() if s in assigns]
        if not a:
            key = ("nobuf", tuple(p.literal_srcs()[:3]))
            if key not in seen:
                seen.add(key)
                ctx.violation("C04-b", inner, "Split.run: a path through the branch loop never sets the branch buffer `%s` "
                              "(stale buffer from the previous branch)" % buf, construct="no-buffer-assignment", path=p)
            continue
        s = a[0]
        cut = p.index(s)
        pre = Pview(p, cut)
        copied = res.is_call_to(s.value, "copy.deepcopy")
        shallow = isinstance(s.value, ast.Call) and not copied
        key = (A.src(s), tuple(pre.literal_srcs()))
        if key in seen:
            continue
        seen.add(key)
        n_paths += 1
        if copied:
            ctx.ok("C04-b", s, "Split.run: branch buffer is copy.deepcopy(%s) under [%s]" % (orig, " and ".join(pre.literal_srcs())))
            continue
        if shallow:
            ctx.violation("C04-b", s, "Split.run: branch buffer is `%s`, not a deep copy of the block" % A.src(s.value), path=p)
            continue
        # buf = orig: allowed only if copy_buf is off or this is the last active branch (ind >= n - 1);
        # the path condition is split into its disjunctive cases, every case must be fine
        bad_case = None
        for case in pre.p.cases():
            if any(A.src(t) == "self._copy_buf" and pol is False for t, pol in case):
                continue
            # constraints known in this case: ind < n (loop test) plus the linear atoms
            cons = [(coef, const_, "<")]
            defs = K.path_defs(p, cut, exclude=(ind, n_))
            for t, pol in case:
                lc = K.linear_cmp(K.expand(t, defs))
                if lc is not None and set(lc[0]) <= {ind, n_}:
                    cons.append(lc if pol else K.negate_linear(lc))
            # claim: ind == n - 1.  Refute `ind <= n - 2`, i.e. ind - n + 2 <= 0.
            if not K.linear_unsat_two_vars(cons + [({ind: 1, n_: -1}, 2, "<=")], ind, n_):
                bad_case = case
                break
        if bad_case is None:
            ctx.ok("C04-b", s, "Split.run: the block itself goes only to the last active branch or with copy_buf off: "
                   "[%s] implies not copy_buf or %s == %s - 1" % (" and ".join(pre.literal_srcs()), ind, n_))
        else:
            ctx.violation("C04-b", s, "Split.run: with copy_buf set, the shared block `%s` is handed to a branch that is "
                          "not the last active one (path [%s] admits %s < %s - 1): a later branch sees this branch's mutations"
                          % (orig, " and ".join(pre.literal_srcs()), ind, n_), path=pre)
    ctx.instances_floor("C04-b/run-paths", n_paths, 2, "distinct buffer-assignment paths in Split.run")
    # the copy is made inside the branch loop: assigns are inside `inner` by construction; the pull is outside it
    ctx.check("C04-b", A.enclosing(pull, (ast.While,)) is not inner and all(
        inner in list(A.ancestors(s)) for s in assigns), inner,
        "Split.run: the per-branch copy is not made inside the branch loop",
        detail="Split.run: the deep copy is made per branch, inside the branch loop", construct="copy-in-loop")


class Pview(object):
    """Prefix view of a path."""

    def __init__(self, p, cut):
        self.p = P.Path(p.ev[:cut], "fall")

    def literals(self):
        return self.p.literals()

    def literal_srcs(self):
        return self.p.literal_srcs()


def check_default(ctx):
    fn = ctx.tree.func("lena.core.split", "Split.__init__")
    d = A.param_defaults(fn).get("copy_buf")
    ctx.check("C04-c", d is not None and A.is_const(d, True), fn,
              "Split.__init__: copy_buf does not default to True", detail="copy_buf defaults to True", construct="default:copy_buf")
    stores = [s for s in A.walk_local(fn) if isinstance(s, ast.Assign)
              and any(A.is_self_attr(t, "_copy_buf") for t in s.targets)]
    ok = len(stores) >= 1 and all(A.src(s.value) in ("bool(copy_buf)", "copy_buf") for s in stores)
    ctx.check("C04-c", ok, fn, "Split.__init__: self._copy_buf is not bool(copy_buf)",
              detail="self._copy_buf = bool(copy_buf)", construct="store:_copy_buf")
    # _copy_buf is written nowhere else
    cls = ctx.tree.cls("lena.core.split", "Split")
    for name, m in methods(cls).items():
        if name == "__init__":
            continue
        for n in A.walk_local(m):
            if isinstance(n, ast.Attribute) and A.is_self_attr(n, "_copy_buf") and isinstance(n.ctx, ast.Store):
                ctx.violation("C04-c", n, "Split.%s rewrites _copy_buf" % name)


def check_copy_protocol(ctx):
    """copy.deepcopy(block) is the only barrier between branches: a class of lena that customises the protocol and
    hands its content over uncopied defeats every copy made by Split / Zip / the accumulators at once."""
    res = ctx.res
    n_cls = n_hooks = 0
    for mod, cls in ctx.tree.classes():
        n_cls += 1
        for st in cls.body:
            # __deepcopy__ = <something else>
            if isinstance(st, ast.Assign) and any(isinstance(t, ast.Name) and t.id == "__deepcopy__" for t in st.targets):
                n_hooks += 1
                ctx.violation("C04-d", st, "%s binds __deepcopy__ to `%s`: copy.deepcopy of such an object (a context travelling in the "
                              "flow) no longer copies what it holds, so Split's per-branch copies share nested dictionaries"
                              % (cls.name, A.short(st.value, 40)), construct="deepcopy-alias:%s" % cls.name)
        hook = methods(cls).get("__deepcopy__")
        if hook is None:
            continue
        n_hooks += 1
        selfn = A.func_params(hook)[0] if A.func_params(hook) else "self"
        inside = set()
        for c in A.walk_local(hook):
            if isinstance(c, ast.Call) and res.call_canon(c) == "copy.deepcopy":
                for x in ast.walk(c):
                    inside.add(id(x))
        bad = []
        for n in A.walk_local(hook):
            if isinstance(n, ast.Name) and n.id == selfn and isinstance(n.ctx, ast.Load) and id(n) not in inside:
                par = A.parent(n)
                # reading an attribute of self is not handing over its content -- unless the attribute value itself is handed
                # over (checked by the same rule on the attribute expression below); type(self) / self.__class__ are fine
                if isinstance(par, ast.Attribute):
                    gp = A.parent(par)
                    if par.attr in ("__class__",) or (isinstance(gp, ast.Call) and gp.func is par):
                        if isinstance(gp, ast.Call) and gp.func is par and par.attr in ("items", "values", "keys", "copy", "__iter__"):
                            bad.append(gp)
                        continue
                    # self._x passed on as it is: fine for callables and immutables, which cannot be told from here; but an
                    # attribute that is copied *shallowly* (list(self.x), self.x[:], self.x.copy(), copy.copy(self.x)) is thereby
                    # declared a container, and its elements are shared
                    if isinstance(gp, ast.Call) and par in gp.args and res.call_canon(gp) in (
                            "builtins.list", "builtins.dict", "builtins.set", "builtins.tuple", "copy.copy"):
                        bad.append(gp)
                    elif isinstance(gp, ast.Subscript) and gp.value is par and isinstance(gp.slice, ast.Slice):
                        bad.append(gp)
                    elif isinstance(gp, ast.Attribute) and gp.attr == "copy" and isinstance(A.parent(gp), ast.Call):
                        bad.append(A.parent(gp))
                    continue
                if isinstance(par, ast.Call) and par.func is not n and res.call_canon(par) in ("builtins.type", "builtins.id", "builtins.isinstance"):
                    continue
                bad.append(par if par is not None else n)
        ctx.check("C04-d", not bad, hook, "%s.__deepcopy__ hands the content of %s over without copy.deepcopy (`%s`): the copy shares every "
                  "nested dictionary and list with the original, so an in-place update made in one Split branch is visible in the "
                  "others and in the source data" % (cls.name, selfn, A.short(bad[0], 60) if bad else ""),
                  detail="%s.__deepcopy__ copies its content with copy.deepcopy" % cls.name, construct="shallow-deepcopy:%s" % cls.name)
    ctx.note("deepcopy_hooks", n_hooks)
    ctx.instances_floor("C04-d", n_cls, 60, "classes examined for copy hooks")
    if not n_hooks:
        ctx.ok("C04-d", ("lena", "<tree>"), "no class of lena customises __deepcopy__ (%d classes): copy.deepcopy copies all they hold" % n_cls)


def check_keep_and_yield(ctx):
    """C04-e.  Tree-wide over generator functions with a flow parameter: on one way through the body of `for val in flow`, the
    value is yielded (as it is, or through a shallow copy.copy/tuple/list of it) and also passed to a method of something
    the element keeps (self.<x>.update(val), .append(val), .fill(val), self.<x> = val).  Downstream elements change the
    context of what they receive in place (MakeFilename, Write, ...): the kept value would change with it."""
    from .. import paths as P
    res = ctx.res
    n = 0
    bad = 0
    for mod, fn in ctx.tree.functions():
        if not A.is_generator(fn) or "flow" not in A.func_params(fn) or "self" not in A.func_params(fn):
            continue
        for loop in A.walk_local(fn):
            if not (isinstance(loop, ast.For) and isinstance(loop.target, ast.Name) and A.root_name(loop.iter) == "flow"):
                continue
            v = loop.target.id
            for p in P.loop_body_paths(loop):
                shallow_yield = None
                for _, y in p.yields():
                    e = y.value
                    if isinstance(e, ast.Name) and e.id == v:
                        shallow_yield = y
                    elif isinstance(e, ast.Call) and res.call_canon(e) in ("copy.copy", "builtins.tuple", "builtins.list") and len(e.args) == 1 \
                            and isinstance(e.args[0], ast.Name) and e.args[0].id == v:
                        shallow_yield = y
                kept = None
                for _, c in p.calls():
                    if isinstance(c.func, ast.Attribute) and A.root_name(c.func.value) == "self" and not A.is_self_attr(c.func) \
                            and c.func.attr in ("update", "append", "add", "fill", "extend", "appendleft", "insert", "setdefault") \
                            and any(isinstance(a, ast.Name) and a.id == v for a in c.args):
                        kept = c
                for st in p.stmts():
                    if isinstance(st, ast.Assign) and isinstance(st.value, ast.Name) and st.value.id == v and any(
                            A.root_name(t) == "self" for t in st.targets if isinstance(t, (ast.Attribute, ast.Subscript))):
                        kept = st
                n += 1
                if shallow_yield is not None and kept is not None:
                    key = (A.qualname(fn), A.src(shallow_yield))
                    if key in _KY_SEEN:
                        continue
                    _KY_SEEN.add(key)
                    bad += 1
                    ctx.violation("C04-e", shallow_yield, "%s yields `%s` and keeps the same value in the element (`%s`) [%s]: the object "
                                  "handed downstream and the one kept share their context (copy.copy of a (data, context) tuple is that "
                                  "tuple), so what later elements write into the context of the yielded value -- output.filename, "
                                  "output.changed -- shows up in the kept value and in what is made of it afterwards" % (
                                      A.qualname(fn), A.src(shallow_yield.value), A.short(kept, 50), p.describe(3)),
                                  construct="keep-and-yield:%s" % A.qualname(fn), path=p)
    _KY_SEEN.clear()
    ctx.instances_floor("C04-e", n, 20, "ways through the value loops of generator methods with a flow parameter")
    if not bad:
        ctx.ok("C04-e", ("lena", "<tree>"), "%d ways through value loops: no value both kept and yielded without a deep copy" % n)


_KY_SEEN = set()


def check(ctx):
    check_keep_and_yield(ctx)
    check_copy_protocol(ctx)
    check_accumulators(ctx)
    check_split_fill(ctx)
    check_split_run(ctx)
    check_zip_fill(ctx)
    check_default(ctx)


VARIANTS = [
    M("groupplots-yields-shallow-copy", "lena/flow/group_plots.py", "                    yield copy.deepcopy(val)\n                self._group_by.update(val)", "                    yield copy.copy(val)\n                self._group_by.update(val)", ["C04-e"]),
    M("context-shallow-deepcopy", "lena/context/context.py", "    def __getattr__(self, name):", "    def __deepcopy__(self, memo):\n        return Context(self, formatter=self._formatter)\n\n    def __getattr__(self, name):", ["C04-d"]),
    M("context-deepcopy-is-copy", "lena/context/context.py", "    def __getattr__(self, name):", "    __deepcopy__ = dict.copy\n\n    def __getattr__(self, name):", ["C04-d"]),
    M("histogram-deepcopy-shares-bins", "lena/structures/histogram.py", "    def __eq__(self, other):", "    def __deepcopy__(self, memo):\n        new = histogram(self.edges, None)\n        new.bins = list(self.bins)\n        return new\n\n    def __eq__(self, other):", ["C04-d"], nth=0),
    V("twin", "context-deep-deepcopy", None, None, None, (), edits=[
        ("lena/context/context.py", "import functools\n", "import copy\nimport functools\n", 0),
        ("lena/context/context.py", "    def __getattr__(self, name):", "    def __deepcopy__(self, memo):\n        return Context(copy.deepcopy(dict(self), memo), formatter=self._formatter)\n\n    def __getattr__(self, name):", 0)]),
    M("split-run-memo-copy", "lena/core/split.py", "            ind = 0\n            while ind < n_of_active_seqs:\n                if self._copy_buf and n_of_active_seqs - ind > 1:\n                    # last sequence doesn't need a copy of the buffer\n                    buf = copy.deepcopy(orig_buf)", "            ind = 0\n            buf_copy = None\n            while ind < n_of_active_seqs:\n                if self._copy_buf and n_of_active_seqs - ind > 1:\n                    if buf_copy is None:\n                        buf_copy = copy.deepcopy(orig_buf)\n                    buf = buf_copy", ["C04-b"]),
    M("sum-no-copy", "lena/math/elements.py", "yield (self._total, copy.deepcopy(self._cur_context))",
      "yield (self._total, self._cur_context)", ["C04-a"], nth=1),
    M("dsum-shallow", "lena/math/elements.py", "yield (self._total, copy.deepcopy(self._cur_context))",
      "yield (self._total, copy.copy(self._cur_context))", ["C04-a"]),
    V("mutant", "vectorize-hoist", None, None, None, ["C04-a"], edits=[
        ("lena/math/elements.py", "        it = _zip_longest(*(seq.compute() for seq in self._seqs))\n",
         "        it = _zip_longest(*(seq.compute() for seq in self._seqs))\n        ctx_copy = copy.deepcopy(self._cur_context)\n", 0),
        ("lena/math/elements.py", "yield _maybe_with_context(res, copy.deepcopy(self._cur_context))",
         "yield _maybe_with_context(res, ctx_copy)", 1)]),
    M("count-no-copy", "lena/flow/elements.py", "yield (self.count, copy.deepcopy(self._cur_context))",
      "yield (self.count, self._cur_context)", ["C04-a"]),
    M("splitintobins-no-copy", "lena/structures/split_into_bins.py", "yield (hist, copy.deepcopy(cur_context))",
      "yield (hist, cur_context)", ["C04-a"]),
    M("graph-no-copy", "lena/structures/graph.py", "self._context = copy.deepcopy(self._cur_context)",
      "self._context = self._cur_context", ["C04-a"]),
    M("split-fill-no-copy", "lena/core/split.py", "seq.fill(copy.deepcopy(val))", "seq.fill(val)", ["C04-b"]),
    M("split-fill-shallow", "lena/core/split.py", "seq.fill(copy.deepcopy(val))", "seq.fill(copy.copy(val))", ["C04-b"]),
    M("split-run-off-by-one", "lena/core/split.py", "n_of_active_seqs - ind > 1", "n_of_active_seqs - ind > 2", ["C04-b"]),
    M("split-run-shallow", "lena/core/split.py", "buf = copy.deepcopy(orig_buf)", "buf = list(orig_buf)", ["C04-b"]),
    M("zip-no-copy", "lena/flow/zip.py", "seq.fill(copy.deepcopy(val))", "seq.fill(val)", ["C04-b"]),
    M("default-false", "lena/core/split.py", "bufsize=1000, copy_buf=True", "bufsize=1000, copy_buf=False", ["C04-c"]),
    TW("copy-in-fill", "lena/math/elements.py", "        self._total += data\n        self._cur_context = context\n",
       "        self._total += data\n        self._cur_context = copy.deepcopy(context)\n"),
    TW("split-run-equivalent-guard", "lena/core/split.py", "n_of_active_seqs - ind > 1", "ind < n_of_active_seqs - 1"),
    TW("local-alias", "lena/flow/elements.py", "        yield (self.count, copy.deepcopy(self._cur_context))",
       "        cc = copy.deepcopy(self._cur_context)\n        yield (self.count, cc)"),
]
