"""C08 -- context addressing, formatting and update elements touch exactly the named item."""
import ast

from .. import astutil as A
from .. import paths as P
from ..loader import methods
from ..effects import Effects
from ..kinds import Kinds, DICT, MAYBE
from ..taint import Interp, Policy, Val, Fresh, IMMUTABLE
from ..selftest.runner import M, TW, V
from . import common as K

PROPERTY = "C08"
EXPLANATION = (
    "Decides guards, exception discipline and exact stores: (a) GUARD/dict descent -- in contains, get_recursively, "
    "update_recursively, DeleteContext.__call__, UpdateContext.__call__ and IncludeExcludeTree.get, every dictionary "
    "operation (in, [], del, .get, .items ...) on a value reached by descending into the user's context (kind MAYBE on "
    "paths with two loop iterations unrolled) is dominated by isinstance(X, dict) or enclosed by a handler of "
    "TypeError/Exception; (b) GUARD/empty key -- a constant subscript [-1]/[0] of a key list is dominated by a "
    "non-emptiness test, comes from str.split, or the constructor rejects the empty key; (c) every raise resolves to "
    "LenaTypeError/LenaValueError/LenaKeyError (or re-raises one), foreign exceptions caught are converted, and "
    "to_string serialises its argument itself with json.dumps(sort_keys=True); (d) UpdateContext stores only `{}` "
    "along the key path and a fresh (deep copied) or immutable update at the last key, returns the unpacked data; "
    "DeleteContext's only destructive operations are `del subcont[key]` / clear for the empty key and it returns its "
    "input; (e) format_update_with formats before it touches d, and touches d only through "
    "update_recursively(d, str_to_dict(key, ...)); (f) the function format_context returns changes nothing it captured from the "
    "enclosing call; (g) the presence of an optional value/default that is also used as data is decided by the module's private "
    "sentinel, never by `is None` or truthiness (None is a context value); (h) no one-argument .get() lookup decides presence by "
    "comparing the value with None, and UpdateContext deep-copies the item it inserts before its first store into the value's context.  (i) Every iteration of the descent loop over the intermediate keys in contains and get_recursively either returns/raises or "
    "rebinds the descent variable to its item under that key: no path leaves the loop early or skips a key, so the string, "
    "list and dictionary notations cannot disagree on how deep a path reaches.  (j) The look-up and conversion functions mutate none of their parameters through any "
    "alias (an effect summary over assignments, loops and callees).  Does not decide agreement of the three notations on values."    " Added after the eighth round of seeded changes and the second round of behaviour-preserving changes: A path of UpdateContext.__call__ that has written the update returns (data, context), a path that changes nothing returns the value itself; a membership test on something the path has turned into a string (substring test) is reported; the guard of the {} store is read as a disjunction whichever way it is spelt."
)
RULES = {
    "C08-k": "COPY-SAFE: no method other than __init__ compares an attribute with a module-level object() sentinel by identity",
    "C08-l": "GUARD: every 'take the first key' step over the dictionary notation of a key follows len(<that dictionary>) == 1",
    "C08-a": "GUARD: dictionary operations on values reached by descending into a context are dominated by isinstance(., dict)",
    "C08-b": "GUARD: [-1]/[0] of a key list is dominated by a non-emptiness test or a constructor check",
    "C08-c": "exception discipline: only LenaTypeError/LenaValueError/LenaKeyError are raised; to_string uses sort_keys=True",
    "C08-d": "exact store: UpdateContext/DeleteContext change only the addressed item, with a fresh value, and keep the data",
    "C08-e": "format_update_with formats first and updates d only through update_recursively(d, str_to_dict(...))",
    "C08-f": "STATELESS formatter: the function format_context returns mutates nothing it captured from the enclosing call",
    "C08-g": "SENTINEL: absence of an optional context value is decided by a private sentinel, never by None/falsiness (None is a value)",
    "C08-i": "ONE KEY PER STEP: the descent loops of contains and get_recursively either leave the function or go exactly one "
             "level down for every intermediate key (no break/continue that skips the remaining keys)",
    "C08-j": "READ-ONLY arguments: contains, get_recursively, str_to_dict, str_to_list, to_string and format_context change none of "
             "their arguments in place (a key list handed in is still the same list afterwards)",
    "C08-h": "presence of a key is decided with `in` (or KeyError), never by comparing a looked-up value with None; UpdateContext "
             "copies the item it will insert before it creates or overwrites anything on the way to the target",
}
FN = "lena.context.functions"
LENA3 = ("lena.core.exceptions.LenaTypeError", "lena.core.exceptions.LenaValueError", "lena.core.exceptions.LenaKeyError")

DESCENT = [
    (FN, "contains", ("d",)),
    (FN, "get_recursively", ("d",)),
    (FN, "update_recursively", ()),
    ("lena.context.elements", "DeleteContext.__call__", ("context",)),
    ("lena.context.update_context", "UpdateContext.__call__", ("context",)),
    ("lena.context.include_exclude_tree", "IncludeExcludeTree.get", ("context",)),
]
DICT_METHODS = {"get", "items", "keys", "values", "update", "pop", "setdefault", "popitem"}
CATCH_ALL = ("builtins.TypeError", "builtins.Exception", "builtins.BaseException")


def call_kinds():
    def k_get_recursively(kinds, call, upto):
        return MAYBE

    def k_gdc(kinds, call, upto):
        return "PAIR"
    return {FN + ".get_recursively": k_get_recursively, "lena.flow.functions.get_context": lambda k, c, u: DICT}


def enclosed_by_catch(res, node):
    child = node
    for a in A.ancestors(node):
        if isinstance(a, ast.Try) and any(child is s or child in list(ast.walk(s)) for s in a.body):
            for h in a.handlers:
                types = [h.type] if h.type is not None and not isinstance(h.type, ast.Tuple) else (h.type.elts if h.type is not None else [None])
                for t in types:
                    if t is None or res.canon(t) in CATCH_ALL:
                        return True
        if isinstance(a, (ast.FunctionDef, ast.AsyncFunctionDef)):
            break
        child = a
    return False


def dict_ops(stmt_or_expr):
    """(node, operand Name) for dictionary operations on a bare name."""
    out = []
    for n in A.walk_local(stmt_or_expr):
        if isinstance(n, ast.Compare):
            for op, cmp_ in zip(n.ops, n.comparators):
                if isinstance(op, (ast.In, ast.NotIn)) and isinstance(cmp_, ast.Name):
                    out.append((n, cmp_))
        elif isinstance(n, ast.Subscript) and isinstance(n.value, ast.Name) and not isinstance(n.slice, ast.Slice):
            out.append((n, n.value))
        elif isinstance(n, ast.Call) and isinstance(n.func, ast.Attribute) and isinstance(n.func.value, ast.Name) \
                and n.func.attr in DICT_METHODS:
            out.append((n, n.func.value))
    return out


def check_descent(ctx):
    res = ctx.res
    n_ops = 0
    for modname, qual, dparams in DESCENT:
        fn = ctx.tree.func(modname, qual)
        seen = set()
        dict_params = set(dparams)
        if qual == "update_recursively":
            dict_params = set()
        # names bound by unpacking get_data_context: the context part is a dictionary by construction
        for n in A.walk_local(fn):
            if isinstance(n, ast.Assign) and isinstance(n.value, ast.Call) and A.call_name(n.value) == "get_data_context" \
                    and isinstance(n.targets[0], ast.Tuple) and len(n.targets[0].elts) == 2 and isinstance(n.targets[0].elts[1], ast.Name):
                dict_params.add(n.targets[0].elts[1].id)
        for p in P.paths_of(fn, unroll=2):
            kinds = Kinds(res, fn, p, dict_params=dict_params,
                          maybe_params={"d", "other"} if qual == "update_recursively" else set(),
                          call_kinds=call_kinds())
            for i, e in enumerate(p.ev):
                if e[0] in ("stmt", "partial"):
                    nodes = [e[1]]
                elif e[0] == "cond":
                    nodes = [e[1]]
                elif e[0] == "iter":
                    nodes = [e[1].iter]
                else:
                    continue
                for top in nodes:
                    for node, operand in dict_ops(top):
                        if operand.id in ("self",):
                            continue
                        k = unpack_aware_kind(kinds, operand, i, dict_params)
                        if k == MAYBE:
                            # short-circuit guard inside the same boolean expression: isinstance(X, dict) and k in X
                            if guarded_in_boolop(node, operand.id) or enclosed_by_catch(res, node):
                                key = (A.src(node), "guarded")
                                if key not in seen:
                                    seen.add(key)
                                    n_ops += 1
                                    ctx.ok("C08-a", node, "%s: `%s` guarded in place" % (qual, A.short(node, 50)))
                                continue
                            key = (A.src(node), "bad")
                            if key in seen:
                                continue
                            seen.add(key)
                            ctx.violation("C08-a", node, "%s applies the dictionary operation `%s` to `%s`, which on the path [%s] may be "
                                          "a scalar reached by descending into the context (a key path passing through a "
                                          "non-dictionary value): TypeError instead of the configured missing-key behaviour"
                                          % (qual, A.short(node, 50), operand.id, P.Path(p.ev[:i]).describe(5)),
                                          construct="dict-op:%s" % A.src(node), path=P.Path(p.ev[:i + 1]))
                        elif k == "STR" and isinstance(node, ast.Compare) and any(isinstance(o, (ast.In, ast.NotIn)) for o in node.ops):
                            key = (A.src(node), "substr")
                            if key in seen:
                                continue
                            seen.add(key)
                            ctx.violation("C08-a", node, "%s tests `%s` where `%s` is a string on the path [%s]: membership in a string "
                                          "is a substring test, so a key path that runs into a scalar is found when its last part is any "
                                          "part of the scalar's text (contains(d, 'a.b.c') with d['a']['b'] == 'cd'), and contains no "
                                          "longer agrees with get_recursively" % (qual, A.short(node, 50), operand.id,
                                                                                   P.Path(p.ev[:i]).describe(5)),
                                          construct="substring-membership:%s" % A.src(node), path=P.Path(p.ev[:i + 1]))
                        elif k == DICT:
                            key = (A.src(node), "dict")
                            if key not in seen:
                                seen.add(key)
                                n_ops += 1
                                ctx.ok("C08-a", node, "%s: `%s` on a value known to be a dictionary" % (qual, A.short(node, 50)))
    ctx.instances_floor("C08-a", n_ops, 15, "dictionary operations on descent variables")


def unpack_aware_kind(kinds, name_node, upto, dict_params):
    la = kinds.last_assignment(name_node.id, upto)
    if la is not None and la[0] == "unpack" and name_node.id in dict_params:
        return DICT
    if la is not None and la[0] == "element":
        # loop variable: for key in <something>: keys are not containers
        return "KEY"
    return kinds.kind(name_node, upto)


def guarded_in_boolop(node, name):
    """`isinstance(name, dict) and <node>` / `not isinstance(name, dict) or <node>` in one expression."""
    child = node
    for a in A.ancestors(node):
        if isinstance(a, ast.BoolOp):
            idx = [i for i, v in enumerate(a.values) if v is child or child in list(ast.walk(v))]
            if idx:
                for prev in a.values[:idx[0]]:
                    t, pol = A.strip_not(prev)
                    if isinstance(t, ast.Call) and A.call_name(t) == "isinstance" and t.args and A.src(t.args[0]) == name \
                            and "dict" in A.src(t.args[1]):
                        if (isinstance(a.op, ast.And) and pol) or (isinstance(a.op, ast.Or) and not pol):
                            return True
        if isinstance(a, ast.stmt):
            break
        child = a
    return False


# -- C08-b -----------------------------------------------------------------------------

EMPTY_KEY_SITES = [
    ("lena.context.elements", "DeleteContext.__call__"),
    ("lena.context.update_context", "UpdateContext.__call__"),
    (FN, "get_recursively"),
    (FN, "contains"),
]


def check_empty_key(ctx):
    res = ctx.res
    n = 0
    for modname, qual in EMPTY_KEY_SITES:
        fn = ctx.tree.func(modname, qual)
        cls = A.enclosing_class(fn)
        seen = set()
        for p in P.paths_of(fn):
            for i, e in enumerate(p.ev):
                if e[0] not in ("stmt", "cond"):
                    continue
                for s in A.walk_local(e[1]):
                    if not (isinstance(s, ast.Subscript) and isinstance(s.ctx, ast.Load) and A.int_const(s.slice) in (-1, 0)):
                        continue
                    base = s.value
                    bsrc = A.src(base)
                    if not (isinstance(base, ast.Name) or A.is_self_attr(base)):
                        continue
                    origin = list_origin(ctx, fn, p, base, i)
                    if origin is None:
                        continue   # not a key list
                    lits = P.Path(p.ev[:i]).literals()
                    asserted = any(ev[0] == "stmt" and isinstance(ev[1], ast.Assert) and A.src(ev[1].test) in (bsrc, origin[1])
                                   for ev in p.ev[:i])
                    nonempty = any(pol is True and A.src(t) in (bsrc, origin[1]) for t, pol in lits)
                    ok = origin[0] == "split" or nonempty
                    why = "str.split never returns an empty list" if origin[0] == "split" else "dominated by a non-emptiness test"
                    if not ok and cls is not None and A.is_self_attr(ast.parse(origin[1], mode="eval").body if origin[1].startswith("self.") else base):
                        attr = origin[1].split(".", 1)[1] if origin[1].startswith("self.") else base.attr
                        if constructor_rejects_empty(ctx, cls, attr):
                            ok = True
                            why = "the constructor raises LenaValueError for an empty key"
                    key = (A.src(s), ok)
                    if key in seen:
                        continue
                    seen.add(key)
                    n += 1
                    ctx.check("C08-b", ok, s, "%s takes `%s` of a key list that may be empty (an empty key string or list gives []): "
                              "IndexError instead of LenaValueError / the documented behaviour [%s]" % (qual, A.src(s), P.Path(p.ev[:i]).describe(4)),
                              detail="%s: `%s` is safe: %s" % (qual, A.src(s), why), path=P.Path(p.ev[:i + 1]))
    ctx.instances_floor("C08-b", n, 4, "constant subscripts of key lists")


def list_origin(ctx, fn, p, base, upto):
    """('split'|'keys', canonical source) if base denotes a list of keys."""
    if A.is_self_attr(base):
        cls = A.enclosing_class(fn)
        if cls is None:
            return None
        from ..loader import methods
        for m in methods(cls).values():
            for n in A.walk_local(m):
                if isinstance(n, ast.Assign) and any(A.is_self_attr(t, base.attr) for t in n.targets):
                    v = n.value
                    if isinstance(v, ast.Call) and A.call_name(v) in ("str_to_list", "split"):
                        return ("keys", A.src(base))
                    if isinstance(v, ast.Name):
                        return ("keys", A.src(base))
        return None
    kinds = Kinds(ctx.res, fn, p)
    la = kinds.last_assignment(base.id, upto)
    if la is None:
        if base.id in A.func_params(fn) and base.id in ("keys", "levels"):
            return ("keys", base.id)
        return None
    how, val, idx = la
    if how != "value":
        return None
    if isinstance(val, ast.Call) and isinstance(val.func, ast.Attribute) and val.func.attr == "split":
        return ("split", base.id)
    if isinstance(val, ast.Call) and A.call_name(val) == "str_to_list":
        return ("keys", base.id)
    if isinstance(val, ast.Name) or A.is_self_attr(val):
        o = list_origin(ctx, fn, p, val, idx)
        if o is not None:
            return (o[0], o[1])
        # an alias of something handed in from outside (a field, a parameter) whose [-1]/[0] is taken: treated as a key list
        if A.is_self_attr(val) or val.id in A.func_params(fn):
            return ("keys", A.src(val))
        ctx.unknown("C08-b", base, "%s: cannot tell whether a subscripted local, an alias of another local of undetermined "
                    "origin, is a list of keys" % A.qualname(fn))
        return None
    if isinstance(val, (ast.List, ast.ListComp)):
        return ("keys", base.id)
    return None


def constructor_rejects_empty(ctx, cls, attr):
    from ..loader import methods
    init = methods(cls).get("__init__")
    if init is None:
        return False
    # self.<attr> = normaliser(param); and `if not param: raise LenaValueError`
    for n in A.walk_local(init):
        if isinstance(n, ast.Assign) and any(A.is_self_attr(t, attr) for t in n.targets) and isinstance(n.value, ast.Call) and n.value.args:
            param = A.src(n.value.args[0])
            for i in A.walk_local(init):
                if isinstance(i, ast.If) and A.src(i.test) == "not %s" % param and i.lineno < n.lineno:
                    r = [x for x in i.body if isinstance(x, ast.Raise)]
                    if r and r[0].exc is not None:
                        e = r[0].exc.func if isinstance(r[0].exc, ast.Call) else r[0].exc
                        if ctx.res.canon(e) == "lena.core.exceptions.LenaValueError":
                            return True
    return False


# -- C08-c -------------------------------------------------------------------------------

RAISE_SITES = [
    (FN, "contains"), (FN, "get_recursively"), (FN, "str_to_dict"), (FN, "str_to_list"), (FN, "format_context"),
    (FN, "to_string"), (FN, "format_update_with"), (FN, "update_recursively"), (FN, "update_nested"),
    ("lena.context.update_context", "UpdateContext.__init__"), ("lena.context.update_context", "UpdateContext.__call__"),
    ("lena.context.elements", "DeleteContext.__init__"), ("lena.context.elements", "DeleteContext.__call__"),
]


def check_exceptions(ctx):
    res = ctx.res
    n = 0
    for modname, qual in RAISE_SITES:
        fn = ctx.tree.func(modname, qual)
        for r in ast.walk(fn):
            if not isinstance(r, ast.Raise):
                continue
            n += 1
            if r.exc is None:
                ctx.ok("C08-c", r, "bare re-raise", nontrivial=False)
                continue
            e = r.exc.func if isinstance(r.exc, ast.Call) else r.exc
            t = res.resolve(e)
            if t is not None and t.kind == "local":
                h = A.enclosing(r, (ast.ExceptHandler,))
                okh = h is not None and h.name == A.src(e) and h.type is not None and res.canon(h.type) in LENA3
                ctx.check("C08-c", okh, r, "%s re-raises `%s`, which is not a caught LenaTypeError/LenaValueError/LenaKeyError" % (qual, A.src(e)),
                          detail="%s re-raises a caught Lena exception" % qual)
                continue
            ctx.check("C08-c", t is not None and t.name in LENA3, r, "%s raises %s: a missing key must be reported by LenaKeyError and a "
                      "malformed argument by LenaTypeError/LenaValueError, never by another exception" % (qual, t.name if t else A.src(e)),
                      detail="%s raises %s" % (qual, t.name.rsplit(".", 1)[-1] if t else "?"))
        # handlers of foreign exceptions convert or return
        for h in ast.walk(fn):
            if isinstance(h, ast.ExceptHandler) and h.type is not None:
                types = h.type.elts if isinstance(h.type, ast.Tuple) else [h.type]
                canons = [res.canon(t) or "" for t in types]
                if any(c.startswith("jinja2.") or c in ("builtins.TypeError", "builtins.OverflowError", "builtins.ValueError") for c in canons):
                    paths = P.paths_through(h.body)
                    for p in paths:
                        good = p.end in ("raise", "return") or qual == "contains"
                        if p.end == "raise":
                            rs = [s for s in p.stmts() if isinstance(s, ast.Raise)]
                            ex = rs[-1].exc
                            ex = ex.func if isinstance(ex, ast.Call) else ex
                            tt = res.resolve(ex) if ex is not None else None
                            good = tt is not None and (tt.name in LENA3)
                        ctx.check("C08-c", good, h, "%s: the handler of %s neither converts the error to a Lena exception nor returns "
                                  "the configured result [%s]" % (qual, ", ".join(canons), p.describe()),
                                  detail="%s: %s converted/handled" % (qual, ", ".join(c.rsplit(".", 1)[-1] for c in canons)),
                                  construct="handler:%s:%s" % (",".join(canons), p.end), path=p)
    ctx.instances_floor("C08-c", n, 15, "raise statements in the addressing functions")
    # to_string: json.dumps(d, sort_keys=True) on the argument itself
    ts = ctx.tree.func(FN, "to_string")
    param = A.func_params(ts)[0]
    dumps = [c for c in A.walk_local(ts) if isinstance(c, ast.Call) and res.canon(c.func) == "json.dumps"]
    ok = len(dumps) == 1
    if ok:
        c = dumps[0]
        sk = A.kwarg(c, "sort_keys")
        ok = c.args and A.src(c.args[0]) == param and sk is not None and A.is_const(sk, True)
    ctx.check("C08-c", ok, ts, "to_string does not serialise its argument with json.dumps(%s, sort_keys=True): equal dictionaries whose "
              "(nested) keys were inserted in a different order would give different strings" % param,
              detail="to_string = json.dumps(%s, sort_keys=True)" % param, construct="to_string-canonical")
    rets = [r for r in A.walk_local(ts) if isinstance(r, ast.Return)]
    if ok and rets:
        tgt = [a for a in A.walk_local(ts) if isinstance(a, ast.Assign) and a.value is dumps[0]]
        ctx.check("C08-c", all(isinstance(r.value, ast.Name) and tgt and A.src(tgt[0].targets[0]) == r.value.id for r in rets) or
                  all(r.value is dumps[0] for r in rets), ts, "to_string does not return the serialised string unchanged",
                  detail="returns the dumps result", construct="to_string-return")



# -- structural derivation of local names (the rules below must not depend on how the analysed code names its locals) ----

def local_defs(fn, name):
    """Value expressions bound to the local *name* in fn: `name = e` and the matching element of `a, name = e1, e2`;
    None stands for a binding the rules cannot see through (loop target, with, augmented assignment, opaque unpacking)."""
    out = []
    for s in A.walk_local(fn):
        if isinstance(s, ast.Assign):
            for t in s.targets:
                if isinstance(t, ast.Name):
                    if t.id == name:
                        out.append(s.value)
                elif isinstance(t, (ast.Tuple, ast.List)) and isinstance(s.value, (ast.Tuple, ast.List)) \
                        and len(t.elts) == len(s.value.elts) and not any(isinstance(e, ast.Starred) for e in t.elts):
                    for te, ve in zip(t.elts, s.value.elts):
                        if isinstance(te, ast.Name):
                            if te.id == name:
                                out.append(ve)
                        elif name in A.target_names(te):
                            out.append(None)
                elif name in A.target_names(t):
                    out.append(None)
        elif isinstance(s, (ast.AugAssign, ast.AnnAssign, ast.For, ast.AsyncFor, ast.With, ast.AsyncWith)):
            if any(name in A.target_names(t) for t in A.assigned_targets(s)):
                out.append(None)
        elif isinstance(s, ast.NamedExpr) and s.target.id == name:
            out.append(None)
    return out


def only_def(fn, name):
    d = local_defs(fn, name)
    return d[0] if len(d) == 1 else None


def data_context_names(fn):
    """[(data name, context name)] of the statements `data, context = get_data_context(<value>)` of fn."""
    out = []
    for n in A.walk_local(fn):
        if isinstance(n, ast.Assign) and isinstance(n.value, ast.Call) and A.call_name(n.value) == "get_data_context" \
                and len(n.targets) == 1 and isinstance(n.targets[0], ast.Tuple) and len(n.targets[0].elts) == 2 \
                and all(isinstance(e, ast.Name) for e in n.targets[0].elts):
            out.append((n.targets[0].elts[0].id, n.targets[0].elts[1].id))
    return out


def descent_names(fn, root):
    """root and every local assigned from it by aliasing or descent (`x = root`, `x = x[key]`)."""
    names = {root}
    changed = True
    while changed:
        changed = False
        for n in A.walk_local(fn):
            if isinstance(n, ast.Assign) and isinstance(n.value, (ast.Name, ast.Subscript, ast.Attribute)) \
                    and A.root_name(n.value) in names:
                for t in n.targets:
                    if isinstance(t, ast.Name) and t.id not in names:
                        names.add(t.id)
                        changed = True
    return names


def is_self_attr_index(fn, node, attr, index):
    """node is `self.<attr>[index]` or `<local>[index]` where the local is defined only by `<local> = self.<attr>`."""
    # explaining variables (`path = self._subcontext; parents, last = path[:-1], path[-1]`) are read through
    node = K.expand(node, K.func_aliases(fn))
    if not (isinstance(node, ast.Subscript) and A.int_const(node.slice) == index):
        return False
    base = node.value
    if isinstance(base, ast.Name):
        base = only_def(fn, base.id)
    return base is not None and A.is_self_attr(base, attr)


# -- C08-d -------------------------------------------------------------------------------

def check_update_context(ctx):
    res = ctx.res
    fn = ctx.tree.func("lena.context.update_context", "UpdateContext.__call__")
    cls = A.enclosing_class(fn)
    c = ctx
    sinks = []
    # the name of the value's context: the second name unpacked from get_data_context(value); the names that walk into it
    pairs = data_context_names(fn)
    if not ctx.require(len(pairs) == 1, "C08-d", fn, "UpdateContext.__call__ does not unpack its value by one "
                       "`data, context = get_data_context(value)`: cannot tell which names denote the value's context"):
        return
    ctx_name = pairs[0][1]
    into_context = descent_names(fn, ctx_name)

    class Pol(Policy):
        def call_value(self, interp, call, canon, args, state):
            if isinstance(call.func, ast.Attribute) and call.func.attr == "render":
                return Val(fresh=IMMUTABLE, origin="rendered string")
            if canon == "lena.flow.functions.get_data_context":
                return Val(origin="pair", fresh=Fresh(state.loops, call), items=[
                    Val(origin="data of the value", labels=[("data",)]), Val(ctx=True, origin="the value's context", labels=[("context",)])])
            return None

        def field_value(self, name, state):
            # a field is immutable where the path condition says it is a string
            for t, pol in state.path.literals():
                if pol and isinstance(t, ast.Call) and A.call_name(t) == "isinstance" and A.src(t.args[0]) == "self.%s" % name \
                        and "str" in A.src(t.args[1]) and "Template" not in A.src(t.args[1]):
                    return Val(fresh=IMMUTABLE, origin="string field self.%s" % name)
            return Val(ctx=True, fresh=None, origin="the object kept in self.%s" % name, labels=[("field", name)])

        def check_sink(self, node, val, state, what):
            bad = [l for l in val.leaves() if not l.fresh and (l.ctx or l.labels)]
            sinks.append(node)
            c.check("C08-d", not bad, node, "UpdateContext stores %s into the value's context (%s): the context would share a mutable "
                    "object with the element's own value / default or with another context item, so a later update of one changes the other"
                    % (bad[0].origin if bad else "", what), detail="stored update is a deep copy or a string [%s]" % state.path.describe(2),
                    path=state.path)

        def on_store(self, interp, node, target, val, state):
            if isinstance(target, ast.Subscript) and A.root_name(target) in into_context:
                if isinstance(node, ast.Assign) and isinstance(node.value, ast.Dict) and not node.value.keys:
                    return
                self.check_sink(node, val, state, A.short(node, 50))

        def on_call(self, interp, call, canon, args, state):
            if canon == "lena.context.functions.update_recursively" and len(args) >= 2:
                self.check_sink(call, args[1], state, A.short(call, 50))

        def on_return(self, interp, node, val, state):
            if isinstance(node.value, ast.Tuple) and len(node.value.elts) == 2:
                dv = val.items[0] if val.items else Val()
                c.check("C08-d", ("data",) in dv.labels and isinstance(node.value.elts[1], ast.Name) and node.value.elts[1].id == ctx_name, node,
                        "UpdateContext returns `%s`: the data part must be the unpacked data and the context the value's own" % A.src(node.value),
                        detail="returns (data, context) of the value", path=state.path)
            else:
                plain_returns.append((node, state.path))

    plain_returns = []
    Interp(Pol(res, cls)).run_function(fn)
    # a path that has written the update hands back the pair (data, context): for a value that came without a context the
    # dictionary written into is the fresh one get_data_context made, and `return value` would throw the update away
    vpar = [p for p in A.func_params(fn) if p != "self"][0]
    for node, path in plain_returns:
        wrote = None
        for st in path.stmts():
            for x in A.walk_local(st):
                if isinstance(x, ast.Assign) and any(isinstance(t, ast.Subscript) and A.root_name(t) in into_context for t in x.targets):
                    wrote = x
                elif isinstance(x, ast.Call) and res.call_canon(x) == "lena.context.functions.update_recursively" and x.args \
                        and A.root_name(x.args[0]) in into_context:
                    wrote = x
        if wrote is not None:
            ctx.violation("C08-d", node, "UpdateContext.__call__ returns `%s` on a path that has written the update (`%s`) into `%s`: for a "
                          "value without a context that dictionary is the new one made by get_data_context, which the returned value does "
                          "not contain -- the addressed item is never set (the documentation promises that the subcontext is always "
                          "created)" % (A.src(node.value) if node.value is not None else "None", A.short(wrote, 50), ctx_name),
                          construct="update-lost-on-return", path=path)
        else:
            ctx.check("C08-d", isinstance(node.value, ast.Name) and node.value.id == vpar, node, "UpdateContext.__call__ returns `%s` on a path "
                      "that changes nothing: the value itself must be passed on" % (A.src(node.value) if node.value is not None else "None"),
                      detail="a skipped value is returned as it came", construct="skip-returns-value", path=path)
    ctx.instances_floor("C08-d", len(sinks), 2, "stores of the update in UpdateContext.__call__")
    # the only stores into the context: {} along the path, the final store
    for n in A.walk_local(fn):
        if isinstance(n, ast.Assign):
            for t in n.targets:
                if isinstance(t, ast.Subscript) and A.root_name(t) in into_context:
                    if isinstance(n.value, ast.Dict) and not n.value.keys:
                        # `X[k] = {}` only under `if k not in X or not isinstance(X[k], dict)` (X, k: those of the store itself)
                        test = A.enclosing(n, (ast.If,))
                        ok = test is not None and any(n is b or n in list(ast.walk(b)) for b in test.body) \
                            and _disjunction(test.test) == {("%s in %s" % (A.src(t.slice), A.src(t.value)), False),
                                                            ("isinstance(%s, dict)" % A.src(t), False)}
                        ctx.check("C08-d", ok, n, "UpdateContext replaces an existing sub-dictionary on the key path by {} (`%s` not guarded by "
                                  "'missing or not a dict')" % A.src(n), detail="{} stored only where the path is missing or not a dict")
                    else:
                        ctx.check("C08-d", is_self_attr_index(fn, t.slice, "_subcontext", -1), n,
                                  "UpdateContext stores at `%s`, not at the last key of self._subcontext" % A.src(t),
                                  detail="final store at the last key of self._subcontext")
        if isinstance(n, (ast.Delete,)) or (isinstance(n, ast.Call) and isinstance(n.func, ast.Attribute)
                                            and n.func.attr in ("pop", "clear", "popitem") and A.root_name(n.func.value) in into_context):
            ctx.violation("C08-d", n, "UpdateContext removes items from the context (`%s`)" % A.short(n, 50))


def _disjunction(test, pol=True):
    """The test as a set of (atom source, polarity) when, with negations pushed inwards (De Morgan), it is a disjunction of
    literals (`a or b`, `not (a' and b')`); None otherwise.  `x not in y` is the atom `x in y` negated."""
    if isinstance(test, ast.UnaryOp) and isinstance(test.op, ast.Not):
        return _disjunction(test.operand, not pol)
    if isinstance(test, ast.BoolOp):
        is_or = isinstance(test.op, ast.Or) == pol
        if not is_or:
            return None
        out = set()
        for v in test.values:
            d = _disjunction(v, pol)
            if d is None:
                return None
            out |= d
        return out
    if isinstance(test, ast.Compare) and len(test.ops) == 1 and isinstance(test.ops[0], (ast.In, ast.NotIn)):
        positive = isinstance(test.ops[0], ast.In)
        return {("%s in %s" % (A.src(test.left), A.src(test.comparators[0])), pol == positive)}
    return {(A.src(test), pol)}


def check_delete_context(ctx):
    fn = ctx.tree.func("lena.context.elements", "DeleteContext.__call__")
    param = [p for p in A.func_params(fn) if p != "self"][0]
    for r in A.walk_local(fn):
        if isinstance(r, ast.Return):
            ctx.check("C08-d", r.value is not None and A.src(r.value) == param, r, "DeleteContext returns `%s`, not its input value"
                      % (A.src(r.value) if r.value is not None else "None"), detail="returns the input value")
    destructive = []
    for n in A.walk_local(fn):
        if isinstance(n, ast.Delete):
            destructive.append(n)
        if isinstance(n, ast.Call) and isinstance(n.func, ast.Attribute) and n.func.attr in ("pop", "clear", "popitem", "update"):
            destructive.append(n)
        if isinstance(n, ast.Assign) and any(isinstance(t, (ast.Subscript, ast.Attribute)) for t in n.targets):
            destructive.append(n)
    # names, derived from the code: the value's context (second name unpacked from get_data_context(value)), the last key
    # (bound to self._keyl[-1]) and the sub-context (bound to get_recursively(<context>, <name bound to self._keyl[:-1]>))
    pairs = data_context_names(fn)
    if destructive and not ctx.require(len(pairs) == 1, "C08-d", fn, "DeleteContext.__call__ does not unpack its value by one "
                                       "`data, context = get_data_context(value)`: cannot tell which name denotes the value's context"):
        return
    ctx_name = pairs[0][1] if pairs else None

    def is_keyl(node, last):
        """self._keyl[-1] (last) / self._keyl[:-1] (not last), directly or through a local bound exactly once to it."""
        if isinstance(node, ast.Name):
            node = only_def(fn, node.id)
        if not (isinstance(node, ast.Subscript) and A.is_self_attr(node.value, "_keyl")):
            return False
        if last:
            return A.int_const(node.slice) == -1
        sl = node.slice
        return isinstance(sl, ast.Slice) and sl.lower is None and sl.step is None and A.int_const(sl.upper) == -1

    def is_subcontext(node):
        if not isinstance(node, ast.Name):
            return False
        v = only_def(fn, node.id)
        return isinstance(v, ast.Call) and A.call_name(v) == "get_recursively" and len(v.args) == 2 and not v.keywords \
            and isinstance(v.args[0], ast.Name) and v.args[0].id == ctx_name and is_keyl(v.args[1], last=False)

    for d in destructive:
        s = A.src(d)
        if isinstance(d, ast.Delete):
            # del <sub-context>[<last key>]
            t = d.targets[0] if len(d.targets) == 1 else None
            ok = isinstance(t, ast.Subscript) and is_subcontext(t.value) and is_keyl(t.slice, last=True)
        elif isinstance(d, ast.Call) and d.func.attr == "clear":
            # <context>.clear() for the empty key
            ok = isinstance(d.func.value, ast.Name) and d.func.value.id == ctx_name and not d.args and not d.keywords and any(
                isinstance(a, ast.If) and A.src(a.test) == "not self._keyl" for a in A.ancestors(d))
        else:
            ok = False
        canon = {pairs[0][0]: "data", pairs[0][1]: "context"} if pairs else {}
        ctx.check("C08-d", ok, d, "DeleteContext changes the context by `%s`: only the addressed item may be removed" % s,
                  detail="only the addressed item is deleted (%s)" % s, construct="destructive:%s" % " ".join(A.src_with(d, canon).split())[:120])
    ctx.instances_floor("C08-d/delete", len(destructive), 1, "destructive operations in DeleteContext.__call__")


# -- C08-e -------------------------------------------------------------------------------

def check_format_update_with(ctx):
    res = ctx.res
    fn = ctx.tree.func(FN, "format_update_with")
    params = A.func_params(fn)
    if not ctx.require(params[:3] == ["key", "value", "d"], "C08-e", fn, "unexpected signature of format_update_with"):
        return
    eff = Effects(res)
    muts = []
    for n in A.walk_local(fn):
        m = eff.mutation_through(n, {"d"})
        if m:
            muts.append(n)
    ok = len(muts) == 1 and isinstance(muts[0], ast.Call) and res.canon(muts[0].func) == FN + ".update_recursively" \
        and A.src(muts[0].args[0]) == "d"
    ctx.check("C08-e", ok, fn, "format_update_with changes d by something other than one update_recursively(d, ...) call (%s)"
              % ", ".join(A.short(m, 40) for m in muts), detail="d is changed only by update_recursively(d, ...)", construct="single-update")
    if not ok:
        return
    upd = muts[0]
    arg = upd.args[1]
    src_call = arg
    if isinstance(arg, ast.Name):
        src_call = only_def(fn, arg.id)
    ok2 = isinstance(src_call, ast.Call) and res.canon(src_call.func) == FN + ".str_to_dict" and A.src(src_call.args[0]) == "key"
    ctx.check("C08-e", ok2, upd, "format_update_with does not update d with str_to_dict(key, <formatted value>)",
              detail="update is str_to_dict(key, formatted value)", construct="update-arg")
    # formatting precedes the update: every call of the formatter is before the update statement
    # the formatter: format_context(...) itself and calls of the locals bound to its result
    def is_format_context(c):
        return isinstance(c, ast.Call) and res.canon(c.func) == FN + ".format_context"
    formatters = {t.id for a in A.walk_local(fn) if isinstance(a, ast.Assign) and is_format_context(a.value)
                  for t in a.targets if isinstance(t, ast.Name)} - set(params)
    fmt = [c for c in A.walk_local(fn) if isinstance(c, ast.Call) and (is_format_context(c) or
                                                                      (isinstance(c.func, ast.Name) and c.func.id in formatters))]
    ctx.check("C08-e", bool(fmt) and all(c.lineno < upd.lineno for c in fmt), fn, "format_update_with does not format the value before "
              "updating d (a formatting error must leave d untouched)", detail="formatting precedes the update", construct="format-first")


MUTATORS = ("append", "extend", "insert", "pop", "remove", "clear", "update", "setdefault", "popitem", "sort", "reverse", "add", "discard")


def check_formatter_stateless(ctx):
    """format_context(fmt) returns a function applied to many contexts (one per value of the flow, and by several elements).
    Whatever that function captures from the enclosing call is shared by all its applications: it may read it, not change it
    -- a value left behind by an application that failed half-way (missing key) would be rendered for the next context."""
    fn = ctx.tree.func(FN, "format_context")
    inner = [d for d in fn.body if isinstance(d, ast.FunctionDef)]
    rets = [r for r in fn.body if isinstance(r, ast.Return) and isinstance(r.value, ast.Name)]
    inner = [d for d in inner if any(r.value.id == d.name for r in rets)]
    if not ctx.require(len(inner) == 1, "C08-f", fn, "format_context: the returned inner function was not found"):
        return
    g = inner[0]
    own = set(A.func_params(g))
    for n in A.walk_local(g, include_self=False):
        if isinstance(n, ast.Name) and isinstance(n.ctx, (ast.Store, ast.Del)):
            own.add(n.id)
    declared = set()
    for n in A.walk_local(g, include_self=False):
        if isinstance(n, (ast.Nonlocal, ast.Global)):
            declared.update(n.names)
    own -= declared
    n_free = 0
    for n in A.walk_local(g, include_self=False):
        bad = None
        if isinstance(n, ast.Call) and isinstance(n.func, ast.Attribute) and n.func.attr in MUTATORS:
            r = A.root_name(n.func.value)
            if r is not None and r not in own and r not in ("self", "lena"):
                bad = (r, "calls `%s`" % A.short(n, 50))
        elif isinstance(n, (ast.Subscript, ast.Attribute)) and isinstance(n.ctx, (ast.Store, ast.Del)):
            r = A.root_name(n)
            if r is not None and r not in own:
                bad = (r, "stores through `%s`" % A.short(n, 50))
        elif isinstance(n, ast.Name) and isinstance(n.ctx, (ast.Store, ast.Del)) and n.id in declared:
            bad = (n.id, "rebinds the captured name")
        if bad:
            ctx.violation("C08-f", n, "the formatter returned by format_context %s on `%s`, a variable of the enclosing format_context call: "
                          "the state is shared by every application of the formatter, so what one context left there (e.g. when a later "
                          "key was missing) is rendered for the next one" % (bad[1], bad[0]), construct="formatter-state:%s" % bad[0])
        if isinstance(n, ast.Name) and isinstance(n.ctx, ast.Load) and n.id not in own:
            n_free += 1
    ctx.instances_floor("C08-f", n_free, 2, "reads of captured variables in the formatter")
    ctx.ok("C08-f", g, "the returned formatter only reads what it captured")


def check_sentinel(ctx):
    """None (like 0, '', {}) is a legitimate context value.  A function that takes an optional value or default and also
    uses it as data must tell 'not given' from 'given as None': by a private sentinel object, not by `is None` / truthiness."""
    res = ctx.res
    targets = [(FN, "str_to_dict"), (FN, "update_recursively"), (FN, "get_recursively"), (FN, "format_update_with"),
               ("lena.context.update_context", "UpdateContext.__init__")]
    n = 0
    for modname, qual in targets:
        fn = ctx.tree.func(modname, qual)
        dfl = A.param_defaults(fn)
        for par in [p for p in A.func_params(fn) if p != "self"]:
            # is the parameter used as data (stored, appended, returned, handed on)?
            data_use = False
            presence_tests = []
            for x in A.walk_local(fn):
                if not (isinstance(x, ast.Name) and x.id == par and isinstance(x.ctx, ast.Load)):
                    continue
                parent = A.parent(x)
                if isinstance(parent, ast.Compare) and len(parent.ops) == 1 and isinstance(parent.ops[0], (ast.Is, ast.IsNot, ast.Eq, ast.NotEq)):
                    other = parent.comparators[0] if parent.left is x else parent.left
                    presence_tests.append((parent, other))
                    continue
                if isinstance(parent, ast.Call) and (x in parent.args or any(k.value is x for k in parent.keywords)):
                    cn = res.call_canon(parent) or ""
                    if cn == "builtins.bool":
                        presence_tests.append((parent, None))
                        continue
                    if cn.startswith("builtins.") and cn.split(".")[-1] in ("isinstance", "callable", "len", "type", "repr", "str", "format", "hasattr"):
                        continue
                    data_use = True
                elif isinstance(parent, (ast.Return, ast.Assign, ast.Dict, ast.List, ast.Tuple, ast.Subscript, ast.keyword)):
                    data_use = True
                elif isinstance(parent, (ast.If, ast.While, ast.IfExp, ast.BoolOp)) or (isinstance(parent, ast.UnaryOp) and isinstance(parent.op, ast.Not)):
                    presence_tests.append((parent, None))
            if par not in dfl or not data_use:
                continue
            d0 = dfl[par]
            absent_marker = (isinstance(d0, ast.Constant) and d0.value is None) or \
                (isinstance(d0, (ast.Name, ast.Attribute)) and (res.resolve(d0) is not None and res.resolve(d0).kind == "var"))
            if not absent_marker:
                continue        # a default that is itself a meaningful value (False, 1, "txt"): not an optional-data parameter
            n += 1
            d = dfl[par]
            t = res.resolve(d) if isinstance(d, (ast.Name, ast.Attribute)) else None
            private = t is not None and t.kind == "var"
            for test, other in presence_tests:
                if other is None:
                    ctx.violation("C08-g", test, "%s decides whether `%s` was given by its truth value (`%s`): the values None, 0, False, '' "
                                  "and {} would be taken for 'not given'" % (qual, par, A.short(test, 50)), construct="presence-by-truth:%s.%s" % (qual, par))
                elif isinstance(other, ast.Constant):
                    ctx.violation("C08-g", test, "%s decides whether `%s` was given by comparing it with %s (`%s`): %s is a value a context "
                                  "may hold, so asking to store it is taken for not giving a value" % (
                                      qual, par, A.src(other), A.short(test, 50), A.src(other)), construct="presence-by-constant:%s.%s" % (qual, par))
            if not presence_tests:
                ctx.ok("C08-g", fn, "%s: `%s` is used as data and its presence is never tested" % (qual, par))
            elif private and all(isinstance(o, (ast.Name, ast.Attribute)) and res.resolve(o) == t for _, o in presence_tests if o is not None) \
                    and all(o is not None for _, o in presence_tests):
                ctx.ok("C08-g", fn, "%s: presence of `%s` is decided by the private sentinel %s" % (qual, par, A.src(d)))
    ctx.instances_floor("C08-g", n, 3, "optional data parameters of the context functions")


def check_lookup_and_snapshot(ctx):
    res = ctx.res
    # (1) d.get(key) followed by a None test decides presence by value: a stored None (JSON null) becomes 'missing'
    n = 0
    for qual in ("get_recursively", "contains", "update_recursively", "difference", "intersection", "update_nested"):
        fn = ctx.tree.func(FN, qual)
        for c in A.walk_local(fn):
            if not (isinstance(c, ast.Call) and isinstance(c.func, ast.Attribute) and c.func.attr == "get" and len(c.args) == 1 and not c.keywords):
                continue
            n += 1
            par = A.parent(c)
            tested = None
            if isinstance(par, ast.Compare) and any(isinstance(x, ast.Constant) and x.value is None for x in par.comparators + [par.left]):
                tested = par
            elif isinstance(par, ast.Assign) and len(par.targets) == 1 and isinstance(par.targets[0], ast.Name):
                nm = par.targets[0].id
                for x in A.walk_local(fn):
                    if isinstance(x, ast.Compare) and isinstance(x.left, ast.Name) and x.left.id == nm and len(x.ops) == 1 \
                            and isinstance(x.ops[0], (ast.Is, ast.IsNot, ast.Eq, ast.NotEq)) \
                            and isinstance(x.comparators[0], ast.Constant) and x.comparators[0].value is None:
                        tested = x
                    elif isinstance(x, (ast.If, ast.While, ast.IfExp)) and isinstance(x.test, ast.Name) and x.test.id == nm:
                        tested = x.test
            ctx.check("C08-h", tested is None, c, "%s looks an item up with `%s` and decides whether it exists from the value (`%s`): an item "
                      "that is present and holds None is treated as missing (LenaKeyError / default instead of None)" % (
                          qual, A.short(c, 40), A.short(tested, 40) if tested is not None else ""),
                      detail="%s: `%s` is not used to decide presence" % (qual, A.short(c, 40)), construct="presence-by-none:%s" % qual)
    ctx.ok("C08-h", (FN, "<module>"), "%d one-argument .get() lookups examined" % n, nontrivial=False)
    # (2) UpdateContext.__call__: the deep copy of what will be inserted precedes every store into the value's context
    fn = ctx.tree.func("lena.context.update_context", "UpdateContext.__call__")
    n_paths = 0
    seen = set()
    for p in P.paths_of(fn):
        if p.end != "return":
            continue
        copies = [i for i, c in p.calls() if res.call_canon(c) == "copy.deepcopy"]
        stores = [i for i, e in enumerate(p.ev) if e[0] == "stmt" and isinstance(e[1], ast.Assign)
                  and any(isinstance(t, ast.Subscript) for t in e[1].targets)]
        if not copies or not stores:
            continue
        n_paths += 1
        ok = max(copies) < min(stores)
        key = ok
        if key in seen:
            continue
        seen.add(key)
        ctx.check("C08-h", ok, fn, "UpdateContext.__call__ [%s] copies the item it inserts after it has already stored into the value's "
                  "context (creating or overwriting dictionaries on the way to the target): when the source item is an ancestor of the "
                  "target, the copy contains those changes and the addressed item no longer equals the source item" % p.describe(3),
                  detail="the inserted item is copied before the context is touched", construct="copy-after-store", path=p)
    ctx.instances_floor("C08-h/snapshot", n_paths, 2, "paths of UpdateContext.__call__ that copy and store")


def check_one_key_per_step(ctx):
    """contains(d, "a.b.c.x") and get_recursively(d, "a.b.c.x") walk the same intermediate keys a, b, c.  When the walk stops early
    (`break` on a scalar) the remaining keys are never looked at and the last part is compared with whatever was reached:
    contains then answers True for paths get_recursively rejects."""
    n = 0
    for qual in ("contains", "get_recursively"):
        fn = ctx.tree.func(FN, qual)
        loops = [l for l in fn.body if isinstance(l, ast.For) and isinstance(l.iter, ast.Subscript) and isinstance(l.iter.slice, ast.Slice)
                 and l.iter.slice.lower is None and A.int_const(l.iter.slice.upper) == -1 and isinstance(l.target, ast.Name)]
        if not ctx.require(len(loops) == 1, "C08-i", fn, "%s: the loop over the intermediate keys (<keys>[:-1]) was not found" % qual):
            continue
        loop = loops[0]
        key = loop.target.id
        ctx.check("C08-i", not loop.orelse, loop, "%s: the descent loop has an else clause" % qual, detail="%s: plain descent loop" % qual,
                  construct="loop-else:%s" % qual)
        for p in P.loop_body_paths(loop):
            n += 1
            if p.end in ("return", "raise"):
                ctx.ok("C08-i", loop, "%s: [%s] leaves the function" % (qual, p.describe(3)))
                continue
            desc = [e[1] for e in p.ev if e[0] == "stmt" and isinstance(e[1], ast.Assign) and len(e[1].targets) == 1
                    and isinstance(e[1].targets[0], ast.Name) and isinstance(e[1].value, ast.Subscript)
                    and A.src(e[1].value.value) == e[1].targets[0].id and A.src(e[1].value.slice) == key]
            ok = p.end in ("fall", "continue") and len(desc) == 1
            ctx.check("C08-i", ok, loop, "%s: an iteration of the descent loop %s on the path [%s]: the intermediate keys that follow are "
                      "not looked up (or this one is skipped), so a path that runs through a scalar -- contains(d, 'a.b.x.1') with "
                      "d['a']['b'] == 1 -- is judged by its last part alone, and contains disagrees with get_recursively" % (
                          qual, "ends with `%s`" % p.end if p.end not in ("fall", "continue") else "does not go one level down (`v = v[%s]`)" % key,
                          p.describe(4)),
                      detail="%s: [%s] descends one level" % (qual, p.describe(3)), construct="descent-step:%s" % qual, path=p)
    ctx.instances_floor("C08-i", n, 5, "paths through the descent loops")


READ_ONLY = ("contains", "get_recursively", "str_to_dict", "str_to_list", "to_string", "format_context")


def check_read_only(ctx):
    """get_recursively(d, ["a", "b"]) is a question.  If the function consumes the list it was given (keys.pop()), the second
    look-up with the same list object addresses the parent item, the third the grandparent: DeleteContext(path) after a
    look-up deletes the wrong item, a selector keyed by a list selects on a different item for every value."""
    from ..effects import Effects
    eff = Effects(ctx.res)
    n = 0
    for qual in READ_ONLY:
        fn = ctx.tree.func(FN, qual)
        n += 1
        mp = sorted(eff.mutated_params(fn))
        ctx.check("C08-j", not mp, fn, "%s changes its argument%s %s in place: a key list (or context) handed to a look-up is different "
                  "afterwards, so the same call repeated -- by the caller, or by an element that stores the list and uses it for "
                  "every value -- addresses another item each time" % (qual, "s" if len(mp) > 1 else "", ", ".join(mp)),
                  detail="%s mutates none of its parameters" % qual, construct="mutates-arg:%s" % qual)
    ctx.instances_floor("C08-j", n, 6, "read-only context functions")


def check_sentinel_identity(ctx):
    """A module-level `object()` sentinel marks "no value given" for a *parameter*.  An element that keeps the parameter in an
    attribute and asks `self._x is _sentinel` later (outside __init__) loses the answer when it is copied: copy.deepcopy makes
    a new object for the attribute, and the framework copies elements itself (SplitIntoBins and MapBins copy their analysis
    per cell, Split copies nothing but users copy sequences).  The copy then takes the sentinel for a real value.  So the
    question is asked once, in __init__, and remembered in a flag (as UpdateContext._has_default does)."""
    res = ctx.res
    n_sent = n_cmp = 0
    for modname in sorted(ctx.tree.modules):
        mod = ctx.tree.modules[modname]
        sentinels = set()
        for st in mod.tree.body:
            if isinstance(st, ast.Assign) and len(st.targets) == 1 and isinstance(st.targets[0], ast.Name) and isinstance(st.value, ast.Call) \
                    and res.call_canon(st.value) == "builtins.object" and not st.value.args:
                sentinels.add(st.targets[0].id)
        if not sentinels:
            continue
        n_sent += len(sentinels)
        for cls in [c for c in mod.tree.body if isinstance(c, ast.ClassDef)]:
            if any(m in methods(cls) for m in ("__deepcopy__", "__copy__", "__reduce__", "__reduce_ex__", "__getstate__")):
                continue
            for name, fn in methods(cls).items():
                for t in A.walk_local(fn):
                    if not (isinstance(t, ast.Compare) and len(t.ops) == 1 and isinstance(t.ops[0], (ast.Is, ast.IsNot))):
                        continue
                    sides = [t.left, t.comparators[0]]
                    if not any(isinstance(x, ast.Name) and x.id in sentinels for x in sides):
                        continue
                    n_cmp += 1
                    attr = [x for x in sides if isinstance(x, ast.Attribute) and A.is_self_attr(x)]
                    if attr and name != "__init__":
                        ctx.violation("C08-k", t, "%s.%s asks `%s`: the identity of the module sentinel does not survive copy.deepcopy of "
                                      "the element (the framework copies elements per cell), a copy takes 'no value given' for a value"
                                      % (cls.name, name, A.src(t)), construct="sentinel-identity:%s.%s" % (cls.name, attr[0].attr))
    ctx.note("module_sentinels", n_sent)
    ctx.instances_floor("C08-k", n_sent, 2, "module-level object() sentinels")
    if n_sent:
        ctx.ok("C08-k", ctx.tree.func("lena.context.update_context", "UpdateContext.__init__"),
               "%d identity comparisons with module sentinels in classes: none on an attribute outside __init__" % n_cmp)


def check_one_key_each_level(ctx):
    """The dictionary notation of a key ({'a': {'b': 'c'}}) names one item only if every level has exactly one key.
    get_recursively walks the notation by taking *the first* key of each level (`for key in keys: ...; break`): each such
    step must be preceded, for the dictionary of that very step, by the test `len(keys) != 1` -> LenaValueError.  Validated
    only at the top, an ambiguous deeper level silently addresses whichever key was inserted first."""
    fn = ctx.tree.func(FN, "get_recursively")
    n = 0
    for loop in [l for l in A.walk_local(fn) if isinstance(l, ast.For) and isinstance(l.iter, ast.Name)]:
        body = [b for b in loop.body if not A.is_noop_stmt(b)]
        if not body or not isinstance(body[-1], ast.Break) or loop.orelse:
            continue
        d = loop.iter.id
        # only dictionaries are entered this way: the loop rebinds the name to a sub-dictionary
        if not any(isinstance(b, ast.Assign) and any(d in A.target_names(t) for t in b.targets) for b in body):
            continue
        n += 1
        outer = A.enclosing(loop, (ast.While, ast.For))
        paths = P.loop_body_paths(outer) if outer is not None else P.paths_of(fn)
        hit = 0
        for p in paths:
            idx = [i for i, e in enumerate(p.ev) if e[0] in ("iter", "loop0") and e[1] is loop]
            if not idx:
                continue
            hit += 1
            i0 = idx[0]
            # the last rebinding of the dictionary name before the step, on this path
            last = -1
            for i, e in enumerate(p.ev[:i0]):
                if e[0] in ("stmt", "partial") and d in [x for t in A.assigned_targets(e[1]) for x in A.target_names(t)]:
                    last = i
                elif e[0] == "iter" and e[1] is not loop and d in A.target_names(e[1].target):
                    last = i
            # the condition of the segment, case by case (an untaken `a and b` is `not a` or `not b`); cases that contradict
            # themselves (an atom taken both ways) do not exist
            seg = P.Path([e for e in p.ev[last + 1:i0] if e[0] == "cond"], "fall")
            single = True
            n_cases = 0
            for case in seg.cases():
                pols = {}
                contradictory = False
                for t, pol in case:
                    k = A.src(t)
                    if pols.setdefault(k, pol) != pol:
                        contradictory = True
                if contradictory:
                    continue
                n_cases += 1
                one = False
                for t, pol in case:
                    lc = K.linear_cmp(t) if isinstance(t, ast.Compare) else None
                    if lc is None or set(lc[0]) != {"len(%s)" % d}:
                        continue
                    coef, const_, op = lc if pol else K.negate_linear(lc)
                    a = coef["len(%s)" % d]
                    if op == "==" and a != 0 and -const_ / float(a) == 1:
                        one = True
                single = single and one
            single = single and n_cases > 0
            ctx.check("C08-l", single, loop, "get_recursively takes the first key of the key dictionary `%s` on path [%s] without having "
                      "checked that this level has exactly one key (the check must follow the last rebinding of `%s`): an ambiguous "
                      "nested key addresses whichever entry comes first instead of raising LenaValueError" % (d, p.describe(4), d),
                      detail="first key taken only under len(%s) == 1 [%s]" % (d, p.describe(2)), construct="first-key-unchecked", path=p)
        if outer is not None and not hit:
            ctx.unknown("C08-l", loop, "no path of the enclosing loop reaches the first-key step")
    ctx.instances_floor("C08-l", n, 1, "first-key steps in get_recursively")


def check(ctx):
    check_sentinel_identity(ctx)
    check_one_key_each_level(ctx)
    check_read_only(ctx)
    check_one_key_per_step(ctx)
    check_lookup_and_snapshot(ctx)
    check_formatter_stateless(ctx)
    check_sentinel(ctx)
    check_descent(ctx)
    check_empty_key(ctx)
    check_exceptions(ctx)
    check_update_context(ctx)
    check_delete_context(ctx)
    check_format_update_with(ctx)


VARIANTS = [
    M("default-by-sentinel-identity", "lena/context/update_context.py", "                if not self._has_default:", "                if self._default is _sentinel:", ["C08-k"]),
    M("dict-key-validated-at-top-only", "lena/context/functions.py", "            if isinstance(keys, dict) and len(keys) != 1:", "            if isinstance(keys, dict) and len(keys) != 1 and not new_keys:", ["C08-l"]),
    M("get-recursively-pops-keys", "lena/context/functions.py", "    for key in keys[:-1]:\n        if key in d and isinstance(d.get(key), dict):", "    last_key = keys.pop() if keys else None\n    keys.append(last_key)\n    keys.pop()\n    for key in keys[:-1]:\n        if key in d and isinstance(d.get(key), dict):", ["C08-j"]),
    M("contains-breaks-at-scalar", "lena/context/functions.py", "        if not isinstance(subdict, dict) or key not in subdict:\n            return False\n",
      "        if not isinstance(subdict, dict):\n            break\n        if key not in subdict:\n            return False\n", ["C08-i"]),
    M("get-recursively-skips-missing-level", "lena/context/functions.py", "        if key in d and isinstance(d.get(key), dict):\n            d = d[key]\n        elif has_default:",
      "        if key in d and isinstance(d.get(key), dict):\n            d = d[key]\n        elif key not in d and len(keys) > 2:\n            continue\n        elif has_default:", ["C08-i"]),
    M("lookup-none-is-missing", "lena/context/functions.py", "    if keys[-1] in d:\n        return d[keys[-1]]", "    val = d.get(keys[-1])\n    if val is not None:\n        return val", ["C08-h"]),
    M("update-copied-late", "lena/context/update_context.py", "        else:\n            update = copy.deepcopy(self._update)", "        else:\n            update = self._update", []),
    M("formatter-shared-values", "lena/context/functions.py", "    def _format_context(context):\n        new_args = []\n        for arg in args:\n            # LenaKeyError may be raised\n            new_args.append(lena.context.get_recursively(context, arg))\n        # other exceptions, like ValueError\n        # (for bad string formatting) may be raised.\n        s = format_str.format(*new_args)\n        return s", "    values = []\n    def _format_context(context):\n        for arg in args:\n            values.append(lena.context.get_recursively(context, arg))\n        s = format_str.format(*values)\n        del values[:]\n        return s", ["C08-f"]),
    M("str-to-dict-none-test", "lena/context/functions.py", "    if value is not _sentinel:\n        parts.append(value)", "    if value is not None:\n        parts.append(value)", ["C08-g"]),
    M("get-recursively-default-truthy", "lena/context/functions.py", "    has_default = default is not _sentinel", "    has_default = bool(default)", []),
    M("revert-fix-contains", "lena/context/functions.py", "        if not isinstance(subdict, dict) or key not in subdict:", "        if key not in subdict:", ["C08-a"]),
    M("revert-fix-delete-scalar", "lena/context/elements.py", "        if isinstance(subcont, dict):\n", "        if True:\n", ["C08-a"]),
    M("revert-fix-delete-empty", "lena/context/elements.py", "        if not self._keyl:\n            # empty key removes the entire context\n            context.clear()\n            return value\n", "", ["C08-b"]),
    M("get-recursively-no-guard", "lena/context/functions.py", "        if key in d and isinstance(d.get(key), dict):", "        if key in d:", ["C08-a"]),
    M("update-context-no-dict-check", "lena/context/update_context.py", "            if key not in subdict or not isinstance(subdict[key], dict):", "            if key not in subdict:", ["C08-a"]),
    M("to-string-unsorted", "lena/context/functions.py", "separators=(',', ':'), sort_keys=True)", "separators=(',', ':'))", ["C08-c"]),
    M("raise-keyerror", "lena/context/functions.py", "        raise LenaKeyError(\n            \"nested key {} not found in {}\"", "        raise KeyError(\n            \"nested key {} not found in {}\"", ["C08-c"]),
    M("update-no-copy", "lena/context/update_context.py", "        else:\n            update = copy.deepcopy(self._update)", "        else:\n            update = self._update", ["C08-d"]),
    M("update-value-no-copy", "lena/context/update_context.py", "                update = copy.deepcopy(update)\n", "                pass\n", ["C08-d"]),
    M("update-returns-value", "lena/context/update_context.py", "        return (data, context)\n\n    def __eq__", "        return (value, context)\n\n    def __eq__", ["C08-d"]),
    M("delete-returns-data", "lena/context/elements.py", "                pass\n        return value", "                pass\n        return data", ["C08-d"]),
    M("fuw-direct-update", "lena/context/functions.py", "    update_recursively(d, formatted_context)", "    d.update(formatted_context)", ["C08-e"]),
    TW("contains-guard-order", "lena/context/functions.py", "        if not isinstance(subdict, dict) or key not in subdict:\n            return False",
       "        if not isinstance(subdict, dict):\n            return False\n        if key not in subdict:\n            return False"),
]
