"""Helpers shared by rule modules (A6: linear comparisons over two names)."""
import ast
import math
from fractions import Fraction

from .. import astutil as A
from ..loader import AnalysisError


def linear(expr):
    """expr -> ({name: coef}, const) for integer-linear expressions, else None."""
    if isinstance(expr, ast.Constant) and isinstance(expr.value, int) and not isinstance(expr.value, bool):
        return {}, expr.value
    if isinstance(expr, ast.Name):
        return {expr.id: 1}, 0
    if isinstance(expr, ast.Attribute):
        d = A.dotted(expr)
        if d:
            return {d: 1}, 0
        return None
    if isinstance(expr, ast.UnaryOp) and isinstance(expr.op, (ast.USub, ast.UAdd)):
        r = linear(expr.operand)
        if r is None:
            return None
        if isinstance(expr.op, ast.UAdd):
            return r
        return {k: -v for k, v in r[0].items()}, -r[1]
    if isinstance(expr, ast.BinOp) and isinstance(expr.op, (ast.Add, ast.Sub)):
        l, r = linear(expr.left), linear(expr.right)
        if l is None or r is None:
            return None
        sign = 1 if isinstance(expr.op, ast.Add) else -1
        coef = dict(l[0])
        for k, v in r[0].items():
            coef[k] = coef.get(k, 0) + sign * v
        return {k: v for k, v in coef.items() if v != 0}, l[1] + sign * r[1]
    if isinstance(expr, ast.BinOp) and isinstance(expr.op, ast.Mult):
        l, r = linear(expr.left), linear(expr.right)
        if l is None or r is None:
            return None
        if not l[0]:
            return {k: v * l[1] for k, v in r[0].items() if v * l[1] != 0}, r[1] * l[1]
        if not r[0]:
            return {k: v * r[1] for k, v in l[0].items() if v * r[1] != 0}, l[1] * r[1]
        return None
    if isinstance(expr, ast.Call) and A.call_name(expr) == "len" and len(expr.args) == 1:
        return {"len(%s)" % A.src(expr.args[0]): 1}, 0
    return None


def linear_cmp(test):
    """Compare -> (coef, const, op) meaning sum(coef*name) + const  op  0 with
    op in {'<', '<=', '==', '!='}; None if not a linear comparison."""
    t, pol = A.strip_not(test)
    if not (isinstance(t, ast.Compare) and len(t.ops) == 1):
        return None
    l, r = linear(t.left), linear(t.comparators[0])
    if l is None or r is None:
        return None
    coef = dict(l[0])
    for k, v in r[0].items():
        coef[k] = coef.get(k, 0) - v
    coef = {k: v for k, v in coef.items() if v != 0}
    const = l[1] - r[1]
    op = {ast.Lt: "<", ast.LtE: "<=", ast.Gt: ">", ast.GtE: ">=", ast.Eq: "==", ast.NotEq: "!="}.get(type(t.ops[0]))
    if op is None:
        return None
    if op in (">", ">="):
        coef = {k: -v for k, v in coef.items()}
        const = -const
        op = "<" if op == ">" else "<="
    out = (coef, const, op)
    return out if pol else negate_linear(out)


def negate_linear(lc):
    coef, const, op = lc
    if op == "<":       # not (e < 0)  ==  -e <= 0
        return ({k: -v for k, v in coef.items()}, -const, "<=")
    if op == "<=":      # not (e <= 0) ==  -e < 0
        return ({k: -v for k, v in coef.items()}, -const, "<")
    if op == "==":
        return (coef, const, "!=")
    return (coef, const, "==")


def linear_unsat_two_vars(cons, x, y):
    """Integer unsatisfiability of constraints that only mention x - y.

    Every constraint must have coef[x] == -coef[y] (or mention neither);
    otherwise the question is outside the normaliser: AnalysisError."""
    lo, hi = -math.inf, math.inf
    for coef, const, op in cons:
        a = coef.get(x, 0)
        if set(coef) - {x, y} or coef.get(y, 0) != -a:
            raise AnalysisError("linear guard outside the two-name difference fragment: %r" % (coef,))
        if a == 0:
            truth = {"<": const < 0, "<=": const <= 0, "==": const == 0, "!=": const != 0}[op]
            if not truth:
                return True
            continue
        # a*d + const op 0
        bound = Fraction(-const, a)
        if op == "==":
            if bound.denominator != 1:
                return True
            lo, hi = max(lo, int(bound)), min(hi, int(bound))
        elif op == "!=":
            continue
        else:
            strict = op == "<"
            if a > 0:   # d < bound / d <= bound
                b = math.ceil(bound) - 1 if strict else math.floor(bound)
                hi = min(hi, b)
            else:       # d > bound / d >= bound
                b = math.floor(bound) + 1 if strict else math.ceil(bound)
                lo = max(lo, b)
    return lo > hi


def iter_order(expr, base_src, allow_slice=None):
    """How *expr* enumerates the sequence written *base_src*:
    'forward'  -- the sequence itself (or the allowed slice, or iter/list/tuple/enumerate-free wrappers of it)
    'wrong'    -- positively not the documented order/extent: reversed, sorted, set, a slice, a filter
    'unknown'  -- something the analyser does not relate to the sequence."""
    s = A.src(expr)
    if s == base_src or (allow_slice and s == allow_slice):
        return "forward"
    if isinstance(expr, ast.Call) and expr.args:
        name = A.call_name(expr)
        inner = iter_order(expr.args[0], base_src, allow_slice)
        if name in ("iter", "list", "tuple") and len(expr.args) == 1:
            return inner
        if name in ("reversed", "sorted", "set", "frozenset") and inner != "unknown":
            return "wrong"
        if name in ("filter",) and len(expr.args) == 2 and iter_order(expr.args[1], base_src, allow_slice) != "unknown":
            return "wrong"
        if name in ("islice",) and inner != "unknown":
            return "wrong"
    if isinstance(expr, ast.Subscript) and A.src(expr.value) == base_src:
        return "wrong"
    return "unknown"


def local_roles(fn, roles, res=None, scope=None):
    """Recover what the locals of *fn* are called, from the expressions that define them.

    roles: list of (matcher, names); matcher(value_node, S) -> bool where S(node) is the
    source of a node with the names recovered so far already substituted; names is a
    canonical name (single target) or a tuple of canonical names / None (unpacked targets,
    loop targets, with-items).  Returns {actual_name: canonical_name}.  Roles are tried in
    source order of the statements; each role binds at most once.
    """
    mapping = {}
    done = set()

    def S(node):
        return A.src_with(node, mapping)

    stmts = []
    for n in A.walk_local(scope if scope is not None else fn):
        if isinstance(n, ast.Assign) and len(n.targets) == 1:
            stmts.append((n.lineno, n.col_offset, n.targets[0], n.value))
        elif isinstance(n, (ast.For, ast.AsyncFor)):
            stmts.append((n.lineno, n.col_offset, n.target, n.iter))
        elif isinstance(n, (ast.With, ast.AsyncWith)):
            for it in n.items:
                if it.optional_vars is not None:
                    stmts.append((n.lineno, n.col_offset, it.optional_vars, it.context_expr))
    stmts.sort(key=lambda x: (x[0], x[1]))
    for _, _, target, value in stmts:
        for k, (matcher, names) in enumerate(roles):
            if k in done:
                continue
            try:
                hit = matcher(value, S)
            except Exception:
                hit = False
            if not hit:
                continue
            if isinstance(names, str):
                if isinstance(target, ast.Name):
                    mapping.setdefault(target.id, names)
                    done.add(k)
            else:
                if isinstance(target, (ast.Tuple, ast.List)) and len(target.elts) == len(names):
                    for t, nm in zip(target.elts, names):
                        if nm and isinstance(t, ast.Name):
                            mapping.setdefault(t.id, nm)
                    done.add(k)
            break
    return mapping


def lit_srcs(p, mapping, upto=None, norm=False):
    """p.literal_srcs() with local names substituted (see local_roles); with norm=True every literal is also
    written in the canonical spelling of A.norm_src (`0 > i` reads `i < 0`), so that expected strings written
    in that spelling match however the analysed code spells the comparison."""
    out = []
    evs = p.ev if upto is None else p.ev[:upto]
    for e in evs:
        if e[0] != "cond":
            continue
        for t, pol in A.literals(e[1], e[2]):
            s = A.norm_src(t, mapping) if norm else A.src_with(t, mapping)
            if not pol:
                s = "not (%s)" % s if isinstance(t, (ast.BoolOp, ast.Compare, ast.IfExp)) else "not " + s
            out.append(s)
    return out


def exact_type_tests(tree, res, modules):
    """[(module, node)] for every `type(x) is C`, `type(x) == C`, `type(x) in (...)` (and the negated forms) in *modules*:
    a dispatch on the exact type rejects subclasses that isinstance() accepts."""
    out = []
    for name in modules:
        mod = tree.modules.get(name)
        if mod is None:
            continue
        for c in ast.walk(mod.tree):
            if isinstance(c, ast.Compare) and len(c.ops) == 1 and isinstance(c.ops[0], (ast.Is, ast.IsNot, ast.Eq, ast.NotEq, ast.In, ast.NotIn)):
                sides = [c.left] + list(c.comparators)
                if any(isinstance(x, ast.Call) and res.call_canon(x) == "builtins.type" and len(x.args) == 1 for x in sides):
                    other = [x for x in sides if not (isinstance(x, ast.Call) and res.call_canon(x) == "builtins.type")]
                    if other and not (isinstance(other[0], ast.Call) and res.call_canon(other[0]) == "builtins.type"):
                        out.append((mod, c))
    return out


def check_isinstance_dispatch(ctx, rule, modules, what):
    hits = exact_type_tests(ctx.tree, ctx.res, modules)
    for mod, c in hits:
        fn = A.enclosing_func(c)
        ctx.violation(rule, c, "`%s` in %s tests the exact type: an object of a subclass (%s) is not recognised here although the "
                      "isinstance tests used everywhere else accept it, so two places of the framework disagree on what it is"
                      % (A.short(c, 60), A.qualname(fn) if fn is not None else mod.name, what), construct="exact-type:%s" % A.short(c, 50))
    n_inst = 0
    for name in modules:
        mod = ctx.tree.modules.get(name)
        if mod is None:
            continue
        n_inst += sum(1 for c in ast.walk(mod.tree) if isinstance(c, ast.Call) and ctx.res.call_canon(c) == "builtins.isinstance")
    if not hits:
        ctx.ok(rule, (modules[0], "<module>"), "%d isinstance tests, no exact-type test, in %s" % (n_inst, ", ".join(modules)))
    return n_inst


_CLOSURE_MUT = ("append", "appendleft", "extend", "extendleft", "clear", "pop", "popleft", "insert", "remove", "update", "add",
                "setdefault", "discard", "sort", "reverse", "popitem", "rotate", "send", "__setitem__", "__delitem__")


def closure_mutations(outer):
    """[(inner def/lambda, captured name, node, how)] for every function nested (at any depth) in *outer* that changes an
    object it captured from an enclosing function's locals: a mutating method call on it, a store/delete through it, or a
    rebinding declared nonlocal.  Such a variable is state shared by all calls of the inner function."""
    out = []

    def locals_of(fn):
        names = set(A.func_params(fn))
        if isinstance(fn, ast.Lambda):
            return names
        decl = set()
        for n in A.walk_local(fn, include_self=False):
            if isinstance(n, ast.Name) and isinstance(n.ctx, (ast.Store, ast.Del)):
                names.add(n.id)
            elif isinstance(n, (ast.FunctionDef, ast.AsyncFunctionDef, ast.ClassDef)):
                names.add(n.name)
            elif isinstance(n, (ast.Nonlocal, ast.Global)):
                decl.update(n.names)
        return names - decl

    def visit(fn, enclosing):
        mine = locals_of(fn)
        body = [fn.body] if isinstance(fn, ast.Lambda) else fn.body
        if enclosing:
            captured = set().union(*enclosing) - mine
            nonlocal_decl = set()
            for st in body:
                for n in A.walk_local(st):
                    if isinstance(n, ast.Nonlocal):
                        nonlocal_decl.update(n.names)
            for st in body:
                for n in A.walk_local(st):
                    if isinstance(n, ast.Call) and isinstance(n.func, ast.Attribute) and n.func.attr in _CLOSURE_MUT:
                        r = A.root_name(n.func.value)
                        if r in captured and r not in ("self", "cls"):
                            out.append((fn, r, n, "calls `%s`" % A.short(n, 50)))
                    elif isinstance(n, (ast.Subscript, ast.Attribute)) and isinstance(n.ctx, (ast.Store, ast.Del)):
                        r = A.root_name(n)
                        if r in captured and r not in ("self", "cls"):
                            out.append((fn, r, n, "stores through `%s`" % A.short(n, 50)))
                    elif isinstance(n, ast.Name) and isinstance(n.ctx, (ast.Store, ast.Del)) and n.id in nonlocal_decl:
                        out.append((fn, n.id, n, "rebinds the captured `%s`" % n.id))
        for st in body:
            for n in A.walk_local(st):
                if isinstance(n, (ast.FunctionDef, ast.AsyncFunctionDef)) and n is not fn:
                    visit(n, enclosing + [mine])
                elif isinstance(n, ast.Lambda) and n is not fn:
                    visit(n, enclosing + [mine])

    visit(outer, [])
    return out


def check_flow_to_iter(ctx, rule, why):
    """flow_to_iter(flow) must return an *iterator*: its argument unchanged only where that has been found to have a next
    method (`hasattr(flow, "__next__")`, or "next" for Python 2), iter(flow) everywhere else.  Decided on every return path."""
    from .. import paths as P
    res = ctx.res
    fn = ctx.tree.func("lena.core.functions", "flow_to_iter")
    par = A.func_params(fn)[0]
    n = 0
    for p in P.paths_of(fn):
        if p.end != "return":
            continue
        rets = [e[1] for e in p.ev if e[0] == "stmt" and isinstance(e[1], ast.Return)]
        if not rets or rets[-1].value is None:
            ctx.violation(rule, fn, "flow_to_iter returns nothing on the path [%s]" % p.describe(3), construct="flow-to-iter-none", path=p)
            continue
        n += 1
        v = rets[-1].value
        if isinstance(v, ast.Name) and v.id != par:
            defs = [e[1].value for e in p.ev if e[0] == "stmt" and isinstance(e[1], ast.Assign) and len(e[1].targets) == 1
                    and isinstance(e[1].targets[0], ast.Name) and e[1].targets[0].id == v.id]
            v = defs[-1] if defs else v
        if isinstance(v, ast.Call) and res.call_canon(v) == "builtins.iter" and len(v.args) == 1 and A.src(v.args[0]) == par:
            ctx.ok(rule, rets[-1], "flow_to_iter: iter(%s) [%s]" % (par, p.describe(2)))
            continue
        # the positive literals of the path, with a taken `or` contributing its disjuncts' conjunctions
        def establishes(t, pol):
            if isinstance(t, ast.BoolOp) and isinstance(t.op, ast.Or) and pol:
                return all(establishes(x, True) for x in t.values)
            if isinstance(t, ast.BoolOp) and isinstance(t.op, ast.And) and pol:
                return any(establishes(x, True) for x in t.values)
            return pol and isinstance(t, ast.Call) and A.call_name(t) == "hasattr" and len(t.args) == 2 and A.src(t.args[0]) == par \
                and A.const(t.args[1]) in ("__next__", "next")
        has_next = any(establishes(t, pol) for t, pol in p.literals())
        ok = isinstance(v, ast.Name) and v.id == par and has_next
        ctx.check(rule, ok, rets[-1], "flow_to_iter returns `%s` on the path [%s], where %s has not been found to be an iterator "
                  "(hasattr(%s, '__next__')): a re-iterable that is not a list or tuple -- range, deque, a dictionary view -- is "
                  "handed on as it is; %s" % (A.short(v, 40), p.describe(4), par, par, why),
                  detail="flow_to_iter returns its argument only when it has a next method [%s]" % p.describe(2),
                  construct="flow-to-iter-not-iterator", path=p)
    ctx.instances_floor(rule + "/flow_to_iter", n, 2, "return paths of flow_to_iter")


_MATERIALISERS = ("builtins.list", "builtins.tuple", "builtins.sorted", "builtins.set", "builtins.frozenset", "builtins.dict",
                  "collections.deque", "builtins.len", "builtins.sum", "builtins.max", "builtins.min")


_LAZY_VIEWS = ("builtins.iter", "itertools.islice", "itertools.chain", "builtins.zip", "builtins.map", "builtins.filter",
               "builtins.enumerate", "lena.core.functions.flow_to_iter", "itertools.tee", "itertools.takewhile", "itertools.dropwhile",
               "itertools.zip_longest", "itertools.chain.from_iterable")


def swallowed_pulls(tree, res, modules=None):
    """[(module, function, try node, handler, pulling node)]: a try statement of a flow-processing function (one with a `flow`
    parameter) with a handler that does not re-raise and catches something other than StopIteration -- the protocol's own end
    signal -- while its body pulls from the flow (mentions the flow parameter or a lazy view of it).  An error raised upstream
    while the value is produced would be taken for the element's own condition and swallowed."""
    out = []
    for mod, fn in tree.functions():
        if modules is not None and mod.name not in modules:
            continue
        params = [p for p in A.func_params(fn) if p not in ("self", "cls")]
        if "flow" not in params:
            continue
        lazy = {"flow"}
        changed = True
        while changed:
            changed = False
            for st in A.walk_local(fn):
                if isinstance(st, ast.Assign) and len(st.targets) == 1 and isinstance(st.targets[0], ast.Name) and st.targets[0].id not in lazy:
                    v = st.value
                    if isinstance(v, ast.Name) and v.id in lazy:
                        lazy.add(st.targets[0].id)
                        changed = True
                    elif isinstance(v, ast.GeneratorExp) and any(isinstance(x, ast.Name) and x.id in lazy for g in v.generators for x in ast.walk(g.iter)):
                        lazy.add(st.targets[0].id)
                        changed = True
                    elif isinstance(v, ast.Call) and ((res.call_canon(v) or "") in _LAZY_VIEWS or (
                            isinstance(v.func, ast.Attribute) and v.func.attr == "run")) and any(
                            isinstance(x, ast.Name) and x.id in lazy for a in list(v.args) + [k.value for k in v.keywords] for x in ast.walk(a)):
                        lazy.add(st.targets[0].id)
                        changed = True
        for tr in A.walk_local(fn):
            if not isinstance(tr, ast.Try):
                continue
            for h in tr.handlers:
                if any(isinstance(x, ast.Raise) for x in ast.walk(h)):
                    continue
                types = [h.type] if h.type is not None and not isinstance(h.type, ast.Tuple) else (list(h.type.elts) if h.type is not None else [None])
                if all(t is not None and (res.canon(t) or A.src(t)).endswith("StopIteration") for t in types):
                    continue
                pulls = [x for st in tr.body for x in A.walk_local(st) if isinstance(x, ast.Name) and isinstance(x.ctx, ast.Load) and x.id in lazy]
                if pulls:
                    out.append((mod, fn, tr, h, pulls[0]))
    return out


_STOPFILL_SUPERS = ("LenaStopFill", "LenaException", "Exception", "BaseException")


def swallowed_stop_fill(tree, res, allowed=()):
    """[(module, function, try node, handler, fill call)]: a try statement whose body fills another element (`x.fill(...)` /
    `x.fill_into(...)`) and whose handler catches LenaStopFill or a class above it (or everything) without re-raising, in a
    function that is not one of the *allowed* drivers.  LenaStopFill is the stop signal of the fill protocol: it has to reach the
    driver (Split.run), which finalises and drops the branch; an adapter that keeps it makes the chain go on being filled."""
    out = []
    for mod, fn in tree.functions():
        if (mod.name, A.qualname(fn)) in allowed:
            continue
        for tr in A.walk_local(fn):
            if not isinstance(tr, ast.Try):
                continue
            fills = [c for st in tr.body for c in A.walk_local(st) if isinstance(c, ast.Call) and isinstance(c.func, ast.Attribute)
                     and c.func.attr in ("fill", "fill_into")]
            if not fills:
                continue
            for h in tr.handlers:
                if any(isinstance(x, ast.Raise) for x in ast.walk(h)):
                    continue
                types = [h.type] if h.type is not None and not isinstance(h.type, ast.Tuple) else (list(h.type.elts) if h.type is not None else [None])
                if any(t is None or (res.canon(t) or A.src(t)).rsplit(".", 1)[-1] in _STOPFILL_SUPERS for t in types):
                    out.append((mod, fn, tr, h, fills[0]))
    return out


DIM_SITES = (("lena.structures.histogram", "histogram.__init__"), ("lena.structures.hist_functions", "check_edges_increasing"),
             ("lena.structures.hist_functions", "get_bin_edges"), ("lena.structures.hist_functions", "unify_1_md"),
             ("lena.structures.hist_functions", "iter_bins_with_edges"), ("lena.structures.hist_functions", "init_bins"))
# init_bins: isinstance(edges[0], (list, tuple)) -- agrees with hasattr(., '__iter__') for every axis container that lena documents
# (lists, tuples; mesh() returns lists); it differs only for other iterables (arrays), which no function here promises to handle
DIM_EXCEPTIONS = {("lena.structures.hist_functions", "init_bins"): "isinstance(edges[0], (list, tuple))"}


def check_dimension_predicates(ctx, rule, why):
    """One question -- are these edges multidimensional? -- is asked in six places, each by looking at edges[0].  A histogram whose
    constructor (hasattr(edges[0], '__iter__')) took its axes for two dimensions while an iterator (isinstance(edges[0], list))
    takes them for one yields a single bogus cell.  All sites must ask the same test; the one tabled exception is compared with
    its recorded text."""
    found = {}
    for modname, qual in DIM_SITES:
        fn = ctx.tree.func(modname, qual)
        epar = "edges" if "edges" in A.func_params(fn) else None
        if not ctx.require(epar is not None, rule, fn, "%s has no edges parameter" % qual):
            continue
        tests = []
        for n in A.walk_local(fn):
            if isinstance(n, (ast.If, ast.IfExp, ast.While)):
                for t, _pol in A.literals(n.test, True):
                    t, _ = A.strip_not(t)
                    if any(isinstance(x, ast.Subscript) and A.src(x) == "%s[0]" % epar for x in ast.walk(t)) and isinstance(t, ast.Call) \
                            and A.call_name(t) in ("hasattr", "isinstance"):
                        tests.append(t)
        if not ctx.require(tests, rule, fn, "%s: no test on %s[0] found (how does it tell 1- from multidimensional edges?)" % (qual, epar)):
            continue
        found[(modname, qual)] = tests
    # the reference is what most sites ask (the deviant is reported, whichever it is)
    votes = {}
    for key, tests in found.items():
        if key not in DIM_EXCEPTIONS:
            for t in tests:
                s = A.src(t).replace('"', "'")
                votes[s] = votes.get(s, 0) + 1
    ref = max(sorted(votes), key=lambda k: votes[k]) if votes else None
    if not ctx.require(ref is not None, rule, ("lena.structures.histogram", "histogram.__init__"), "reference dimension test not found"):
        return
    for key, tests in sorted(found.items()):
        for t in tests:
            s = A.src(t).replace('"', "'")
            want = DIM_EXCEPTIONS.get(key, ref)
            ctx.check(rule, s == want, t, "%s tells one- from multidimensional edges by `%s`, the other places (constructor, edge check, iterators) by `%s`: "
                      "for axes the one accepts and the other does not (tuples) the same histogram has two dimensions here and one there -- %s"
                      % (key[1], s, ref, why), detail="%s: dimension test `%s`%s" % (key[1], s, " (tabled exception)" if key in DIM_EXCEPTIONS else ""),
                      construct="dim-test:%s" % key[1])
    ctx.instances_floor(rule + "/dim", len(found), 6, "places that decide the dimension of edges")


def check_found_by_identity(ctx, rule, module_prefixes=("lena.core.",)):
    """A local that is None until an element (any user object) has been found must be tested with `is None`: the truth value of an
    element is its own business -- an accumulator that defines __len__ or __bool__ is falsy while it is empty, at construction."""
    from ..kinds import truth_tests
    n = 0
    hits = 0
    for mod, fn in ctx.tree.functions():
        if not mod.name.startswith(tuple(module_prefixes)):
            continue
        none_init, other = set(), set()
        for st in A.walk_local(fn):
            if isinstance(st, ast.Assign) and len(st.targets) == 1 and isinstance(st.targets[0], ast.Name):
                if isinstance(st.value, ast.Constant) and st.value.value is None:
                    none_init.add(st.targets[0].id)
                elif not isinstance(st.value, ast.Constant):
                    other.add(st.targets[0].id)
        cands = none_init & other
        if not cands:
            continue
        n += 1
        for x in A.walk_local(fn):
            if isinstance(x, (ast.If, ast.While, ast.IfExp, ast.Assert)):
                for tt in truth_tests(x.test):
                    if isinstance(tt, ast.Name) and tt.id in cands:
                        hits += 1
                        ctx.violation(rule, tt, "%s decides whether `%s` was found by its truth value (`%s`); it is None until an element is "
                                      "found, and an element that defines __len__ or __bool__ (a container-like accumulator, empty at "
                                      "construction) is falsy: a legal branch is rejected with LenaTypeError (or taken for absent), while the "
                                      "same element given bare is accepted" % (A.qualname(fn), tt.id, A.short(x.test, 40)),
                                      construct="found-by-truth:%s:%s" % (A.qualname(fn), tt.id))
    ctx.instances_floor(rule + "/found", n, 2, "functions with a None-until-found local")
    if not hits:
        ctx.ok(rule, (module_prefixes[0].rstrip("."), "<package>"), "%d functions: None-until-found locals are tested with `is None`" % n)


# -- explaining variables -------------------------------------------------------------------------------------------------

_PURE_NODES = (ast.Name, ast.Constant, ast.BinOp, ast.UnaryOp, ast.Compare, ast.BoolOp, ast.Attribute, ast.Subscript, ast.Tuple,
               ast.operator, ast.unaryop, ast.cmpop, ast.boolop, ast.expr_context)


def path_defs(p, upto=None, exclude=()):
    """{name: expr} for the local names that the path (its first *upto* events) binds exactly once, by a plain assignment
    `name = <pure expression>` (names, constants, arithmetic, comparisons, attribute and subscript reads, len(...)), and
    none of whose operands is rebound later on the path.  Such a name is an explaining variable: a rule that reasons about a
    condition may read the expression in its place (expand)."""
    ev = p.ev if upto is None else p.ev[:upto]
    bound = {}
    order = []
    for i, e in enumerate(ev):
        names = []
        if e[0] in ("stmt", "partial"):
            names = [x for t in A.assigned_targets(e[1]) for x in A.target_names(t)]
        elif e[0] == "iter":
            names = A.target_names(e[1].target)
        for n in names:
            bound.setdefault(n, []).append(i)
        order.append(names)
    defs = {}
    for i, e in enumerate(ev):
        if e[0] != "stmt" or not isinstance(e[1], ast.Assign) or len(e[1].targets) != 1 or not isinstance(e[1].targets[0], ast.Name):
            continue
        name = e[1].targets[0].id
        if name in exclude or len(bound.get(name, ())) != 1:
            continue
        v = e[1].value
        ok = True
        for n in ast.walk(v):
            if isinstance(n, _PURE_NODES):
                continue
            if isinstance(n, ast.Call) and isinstance(n.func, ast.Name) and n.func.id == "len" and len(n.args) == 1 and not n.keywords:
                continue
            ok = False
            break
        if not ok:
            continue
        used = {n.id for n in ast.walk(v) if isinstance(n, ast.Name)}
        if name in used:
            continue
        if any(j > i for u in used for j in bound.get(u, ())):
            continue
        defs[name] = v
    return defs


class _Expand(ast.NodeTransformer):
    def __init__(self, defs):
        self.defs = defs
        self.depth = 0

    def visit_Name(self, node):
        if isinstance(node.ctx, ast.Load) and node.id in self.defs and self.depth < 6:
            self.depth += 1
            out = self.visit(_copy_expr(self.defs[node.id]))
            self.depth -= 1
            return out
        return node


def _copy_expr(e):
    import copy as _c
    return _c.deepcopy(e)


def expand(expr, defs):
    """*expr* with explaining variables replaced by their definitions (a fresh tree; the original is not changed)."""
    if not defs:
        return expr
    return ast.fix_missing_locations(_Expand(defs).visit(_copy_expr(expr)))


def value_on_path(p, expr, upto=None, stop=()):
    """What does *expr* hold at event *upto* of path *p*?  A local name is followed through plain assignments
    `name = <expr>` (the last one before *upto* on the path; names in *stop* are roles the caller knows and are kept),
    so `t = el; seq.append(t)` reads `el` and `t = Run(el); u = t; seq.append(u)` reads `Run(el)`."""
    end = len(p.ev) if upto is None else upto
    seen = set()
    while isinstance(expr, ast.Name) and expr.id not in stop and expr.id not in seen:
        seen.add(expr.id)
        at = None
        for i, e in enumerate(p.ev[:end]):
            if e[0] in ("stmt", "partial"):
                if expr.id in [x for t in A.assigned_targets(e[1]) for x in A.target_names(t)]:
                    ok = e[0] == "stmt" and isinstance(e[1], ast.Assign) and len(e[1].targets) == 1 and isinstance(e[1].targets[0], ast.Name)
                    at = i if ok else -1
            elif e[0] == "iter" and expr.id in A.target_names(e[1].target):
                at = -1
        if at is None or at < 0:
            break
        expr, end = p.ev[at][1].value, at
    return expr


def func_aliases(fn):
    """{local: expr} for the locals of *fn* bound exactly once in the whole function, by `name = <name or attribute chain>`
    (an attribute lookup cached in a local: `ctx = self._dcontext`, `add = ctx.add`), whose operands are not rebound in the
    function.  Use with expand()."""
    counts = {}
    for st in A.walk_local(fn, include_self=False):
        names = []
        if isinstance(st, (ast.Assign, ast.AugAssign, ast.AnnAssign, ast.For, ast.With, ast.Delete)) or isinstance(st, ast.comprehension):
            names = [x for t in A.assigned_targets(st) for x in A.target_names(t)] if not isinstance(st, ast.comprehension) else A.target_names(st.target)
        elif isinstance(st, ast.ExceptHandler) and st.name:
            names = [st.name]
        elif isinstance(st, ast.NamedExpr):
            names = [st.target.id]
        for n in names:
            counts[n] = counts.get(n, 0) + 1
    params = set(A.func_params(fn))
    if fn.args.vararg:
        params.add(fn.args.vararg.arg)
    if fn.args.kwarg:
        params.add(fn.args.kwarg.arg)
    out = {}
    for st in A.walk_local(fn, include_self=False):
        if not (isinstance(st, ast.Assign) and len(st.targets) == 1):
            continue
        tg, val = st.targets[0], st.value
        if isinstance(tg, ast.Tuple) and isinstance(val, ast.Tuple) and len(tg.elts) == len(val.elts):
            pairs = list(zip(tg.elts, val.elts))
        else:
            pairs = [(tg, val)]
        for t, v in pairs:
            if not isinstance(t, ast.Name):
                continue
            name = t.id
            if counts.get(name) != 1 or name in params:
                continue
            e = v
            ok = isinstance(v, (ast.Attribute, ast.Subscript))
            while ok and isinstance(e, (ast.Attribute, ast.Subscript)):
                if isinstance(e, ast.Subscript):
                    sl = e.slice
                    if not (isinstance(sl, ast.Constant) or (isinstance(sl, ast.UnaryOp) and isinstance(sl.operand, ast.Constant))):
                        ok = False
                e = e.value
            if not ok or not isinstance(e, ast.Name):
                continue
            if counts.get(e.id, 0) > (0 if e.id in params or e.id == "self" else 1):
                continue
            out[name] = v
    return out
