"""C20 -- advertised names exist, work with only their subpackage imported, and resolve."""
import ast
import symtable
import warnings

from .. import astutil as A
from ..importsim import Sim, MODULE_DUNDERS
from ..resolve import fold_version, BUILTINS, statement_bindings, top_level_statements
from ..loader import where
from ..selftest.runner import M, TW
from . import common as K

PROPERTY = "C20"
EXPLANATION = (
    "Fully static, exhaustive over the finite set of names: (a) every __all__ entry is bound after simulated "
    "initialisation of its module; (b) every name that resolves to the global scope in any function, lambda, "
    "comprehension or class body is bound in the module or is a builtin (sys.version_info branches folded for "
    "Python 3; cross-checked against symtable); (c) module initialisation is simulated for every entry point "
    "`import lena.X` -- every from-import finds its name at that moment, every expression evaluated at import "
    "time finds its names, and every attribute chain rooted in a lena module that a function evaluates at call "
    "time resolves against the modules loaded by importing only the function's own subpackage (plus imports "
    "executed earlier in the same function); (d) every except-clause class and every raised class resolves, and "
    "every raised class is a LenaException subclass, a re-raise of a caught/stored exception or a named "
    "exception; (e) method names passed as strings to adapters with a statically known target exist.  "
    "(g) on no enumerated path of any function is a local read before it is bound (UnboundLocalError is a NameError; four functions "
    "with triaged infeasible paths are excepted by name with reasons); names exported in __all__ that are imported under "
    "try/except ImportError are also bound by the fallback, and a name bound at module level only under such a `try` (handler neither "
    "binds nor re-raises) is not used inside functions.  Does not decide behaviour beyond name availability.")
RULES = {
    "C20-a": "every name listed in a module's __all__ is bound in that module after simulated initialisation",
    "C20-b": "every global name loaded in any scope is bound at module level or is a builtin (py2 branches folded)",
    "C20-c": "import simulation: from-imports, import-time names and lena attribute chains resolve for the "
             "entry point that imports only the user's own subpackage",
    "C20-d": "except classes resolve; raised classes resolve to LenaException subclasses / re-raises / named exceptions",
    "C20-e": "string-named members (call=/run=/fill= ... given as string constants next to a statically known object) exist",
    "C20-f": "no store into another module's namespace at import time; globals()[...] stores only in the named site",
    "C20-g": "definite assignment: on no enumerated path of any function is a local read before something on that path has bound it "
             "(UnboundLocalError is a NameError); five triaged sites excepted by name, each with its reason",
}
ASSUMPTIONS = [
    "third-party modules (jinja2, numpy, ROOT, ...) are importable where lena imports them; their attributes are not resolved",
]

# documented non-Lena raises: (module, function, canonical class)
NAMED_RAISES = {
    ("lena.context.context", "Context.__getattr__", "builtins.AttributeError"):
        "attribute protocol: __getattr__ must raise AttributeError for private names",
    ("lena.context.context", "Context.__setattr__", "builtins.AttributeError"):
        "attribute protocol",
    ("lena.variables.variable", "Variable.__getattr__", "builtins.AttributeError"):
        "attribute protocol: private names",
    ("lena.output", "raise_on_usage.stub", "builtins.ImportError"):
        "documented stub for a missing optional dependency",
    ("lena.output.latex_to_pdf", "LaTeXToPDF.run", "builtins.StopIteration"):
        "KeyboardInterrupt handler; outside the property, listed so it stays visible",
}
NAMED_GLOBALS_STORE = {("lena.flow.zip", "Zip.__init__")}

LENA_EXC = "lena.core.exceptions.LenaException"


def subpackage_of(modname):
    parts = modname.split(".")
    return ".".join(parts[:2]) if len(parts) >= 2 else modname


def dead_for_py3(node):
    """The node sits in a branch that is never executed under Python 3."""
    child = node
    for a in A.ancestors(node):
        if isinstance(a, ast.If):
            v = fold_version(a.test)
            if v is not None:
                in_body = any(child is s for s in a.body)
                in_else = any(child is s for s in a.orelse)
                if (in_body and v is False) or (in_else and v is True):
                    return True
        elif isinstance(a, ast.IfExp):
            v = fold_version(a.test)
            if v is not None and ((child is a.body and v is False) or (child is a.orelse and v is True)):
                return True
        elif isinstance(a, ast.BoolOp):
            idx = [i for i, x in enumerate(a.values) if x is child]
            if idx:
                for prev in a.values[:idx[0]]:
                    v = fold_version(prev)
                    if isinstance(a.op, ast.And) and v is False:
                        return True
                    if isinstance(a.op, ast.Or) and v is True:
                        return True
                    # `(py3 and x) or (py2 and y)`: handled by the inner And
        child = a
    return False


def symtable_unresolved(mod, module_names):
    """Cross-check: names symtable classifies as global references that are
    neither module-level bindings nor builtins."""
    out = set()
    try:
        with warnings.catch_warnings():
            warnings.simplefilter("ignore")
            st = symtable.symtable(mod.source, mod.relpath, "exec")
    except SyntaxError:
        return out

    def walk(t):
        if t.get_type() != "module":
            for s in t.get_symbols():
                if s.is_global() and s.is_referenced():
                    n = s.get_name()
                    if n not in module_names and n not in BUILTINS:
                        out.add(n)
        else:
            for s in t.get_symbols():
                n = s.get_name()
                if s.is_referenced() and not s.is_assigned() and not s.is_imported() \
                        and n not in module_names and n not in BUILTINS:
                    out.add(n)
        for c in t.get_children():
            walk(c)
    walk(st)
    return out


def module_level_names(mod, res):
    names = set(res.namespace(mod.name)) | MODULE_DUNDERS
    for n in ast.walk(mod.tree):
        if isinstance(n, ast.Global):
            fn = A.enclosing_func(n)
            stored = set()
            if fn is not None:
                for x in A.walk_local(fn):
                    if isinstance(x, ast.Name) and isinstance(x.ctx, ast.Store):
                        stored.add(x.id)
            names.update(set(n.names) & stored)
    # handler names and loop variables bound at module level
    for st in top_level_statements(mod.tree.body):
        pass
    for st in mod.tree.body:
        if isinstance(st, ast.Try):
            for h in st.handlers:
                if h.name:
                    names.add(h.name)
    return names


def check_all(ctx):
    res = ctx.res
    n_lists = n_names = 0
    for name in sorted(ctx.tree.modules):
        mod = ctx.tree.modules[name]
        allv = res.dunder_all(name)
        if allv is None:
            continue
        n_lists += 1
        sim = Sim(ctx.tree)
        sim.imp(name)
        bound = sim.ns.get(name, set())
        for nm, node in allv:
            n_names += 1
            ctx.check("C20-a", nm in bound, node,
                      "%s.__all__ lists %r, which is not bound in the module (star import raises AttributeError)" % (name, nm),
                      detail="%s.__all__: %s bound" % (name, nm), construct="__all__:%s" % nm)
    ctx.instances_floor("C20-a", n_lists, 7, "__all__ lists")
    ctx.note("all_names", n_names)
    # optional dependencies: a module that imports names inside `try: ... except ImportError: <fallback>` is meant to be
    # importable without the dependency; every name it exports must then be bound by the fallback too
    n_opt = 0
    for name in sorted(ctx.tree.modules):
        mod = ctx.tree.modules[name]
        allv = res.dunder_all(name)
        if allv is None:
            continue
        exported = {nm: node for nm, node in allv}
        for st in mod.tree.body:
            if not isinstance(st, ast.Try):
                continue
            hs = [h for h in st.handlers if h.type is not None and any(
                res.canon(t) in ("builtins.ImportError", "builtins.ModuleNotFoundError", "builtins.Exception")
                for t in (h.type.elts if isinstance(h.type, ast.Tuple) else [h.type]))]
            if not hs:
                continue

            def binds(stmts):
                out = set()
                for x in stmts:
                    for n in ast.walk(x):
                        if isinstance(n, (ast.Import, ast.ImportFrom)):
                            out.update((al.asname or al.name).split(".")[0] for al in n.names)
                        elif isinstance(n, ast.Name) and isinstance(n.ctx, ast.Store):
                            out.add(n.id)
                        elif isinstance(n, (ast.FunctionDef, ast.ClassDef)):
                            out.add(n.name)
                return out
            tried = binds(st.body)
            # names bound elsewhere at module level (before or after) do not depend on the try
            elsewhere = set()
            for other in mod.tree.body:
                if other is not st:
                    elsewhere |= binds([other]) if not isinstance(other, (ast.FunctionDef, ast.ClassDef)) else {other.name}
            for h in hs:
                if any(isinstance(x, ast.Raise) for x in ast.walk(ast.Module(body=h.body, type_ignores=[]))) and not binds(h.body):
                    continue        # the module simply does not import without the dependency
                fb = binds(h.body)
                for nm in sorted(tried & set(exported)):
                    n_opt += 1
                    ctx.check("C20-a", nm in fb or nm in elsewhere, exported[nm], "%s.__all__ exports %r, which is bound only by the import "
                              "inside `try:`; the `except %s` fallback (taken when the optional dependency is missing) does not bind "
                              "it, so `from %s import *` raises AttributeError there" % (name, nm, A.src(h.type), name),
                              detail="%s: exported %s also bound by the ImportError fallback" % (name, nm), construct="__all__-fallback:%s" % nm)
    ctx.instances_floor("C20-a/optional", n_opt, 1, "exported names bound under try/except ImportError")


def check_globals(ctx):
    res = ctx.res
    n_scopes = n_loads = 0
    for name in sorted(ctx.tree.modules):
        mod = ctx.tree.modules[name]
        mnames = module_level_names(mod, res)
        mine = set()
        reported = set()
        for n in ast.walk(mod.tree):
            if isinstance(n, A.SCOPE):
                n_scopes += 1
            if not (isinstance(n, ast.Name) and isinstance(n.ctx, ast.Load)):
                continue
            n_loads += 1
            scope = A.enclosing(n, A.FUNC + (ast.ClassDef, ast.ListComp, ast.SetComp, ast.DictComp, ast.GeneratorExp))
            if scope is None:
                # module-level load: import-time binding order is checked by C20-c
                if n.id in mnames or n.id in BUILTINS:
                    continue
            else:
                if class_local(n):
                    continue
                lb = res.local_binding(n.id, n)
                if lb is not None:
                    continue
                if n.id in mnames or n.id in BUILTINS:
                    continue
            mine.add(n.id)
            if dead_for_py3(n):
                continue
            fn = A.enclosing(n, (ast.FunctionDef, ast.AsyncFunctionDef, ast.ClassDef))
            key = (A.qualname(fn) if fn is not None else "<module>", n.id)
            if key in reported:
                continue
            reported.add(key)
            ctx.violation("C20-b", n,
                          "name %r is loaded from the global scope but is bound neither in module %s nor in builtins "
                          "(NameError when this line runs)" % (n.id, name),
                          construct="name:%s" % n.id)
        sym = symtable_unresolved(mod, mnames)
        if sym != mine:
            ctx.unknown("C20-b", name, "scope analysis disagrees with symtable on unresolved globals of %s: "
                        "ast=%s symtable=%s" % (name, sorted(mine), sorted(sym)))
        ctx.ok("C20-b", (name, "<module>"), "all global loads of %s resolve (%d py2-only names folded away)"
               % (name, len([x for x in mine]) - len([k for k in reported])))
    # names bound at module level only inside `try:` whose ImportError-like handler neither binds them nor re-raises:
    # bound when the optional dependency is there, a NameError at the first use when it is not
    n_cond = 0
    for name in sorted(ctx.tree.modules):
        mod = ctx.tree.modules[name]

        def binds(stmts):
            out = set()
            for x in stmts:
                for n in ast.walk(x):
                    if isinstance(n, (ast.Import, ast.ImportFrom)):
                        out.update((al.asname or al.name).split(".")[0] for al in n.names)
                    elif isinstance(n, ast.Name) and isinstance(n.ctx, ast.Store):
                        out.add(n.id)
                    elif isinstance(n, (ast.FunctionDef, ast.ClassDef)):
                        out.add(n.name)
            return out
        conditional = {}
        for st in mod.tree.body:
            if not isinstance(st, ast.Try):
                continue
            tried = binds(st.body)
            for h in st.handlers:
                types = [] if h.type is None else (h.type.elts if isinstance(h.type, ast.Tuple) else [h.type])
                if h.type is not None and not any(res.canon(t) in ("builtins.ImportError", "builtins.ModuleNotFoundError", "builtins.Exception")
                                                  for t in types):
                    continue
                if any(isinstance(x, ast.Raise) for b in h.body for x in ast.walk(b)):
                    continue
                for nm in tried - binds(h.body):
                    conditional[nm] = h
        elsewhere = set()
        for st in mod.tree.body:
            if not isinstance(st, ast.Try):
                elsewhere |= binds([st]) if not isinstance(st, (ast.FunctionDef, ast.ClassDef)) else {st.name}
        for nm in sorted(conditional):
            if nm in elsewhere or nm in BUILTINS:
                continue
            n_cond += 1
            uses = [n for n in ast.walk(mod.tree) if isinstance(n, ast.Name) and n.id == nm and isinstance(n.ctx, ast.Load)
                    and A.enclosing(n, A.FUNC) is not None and res.local_binding(nm, n) is None]
            for u in uses[:1]:
                fn = A.enclosing(u, (ast.FunctionDef, ast.AsyncFunctionDef))
                ctx.violation("C20-b", u, "name %r is bound in module %s only inside `try:`; the `except %s` branch neither binds it nor "
                              "re-raises, so without the optional dependency the module imports and %s fails with NameError at this "
                              "line (instead of ImportError when the element is built)" % (
                                  nm, name, A.src(conditional[nm].type) if conditional[nm].type is not None else "", A.qualname(fn) if fn else "?"),
                              construct="conditional-name:%s" % nm)
            if not uses:
                ctx.ok("C20-b", (name, "<module>"), "conditionally bound %s is not used inside functions of %s" % (nm, name))
    ctx.note("conditionally_bound_names", n_cond)
    ctx.instances_floor("C20-b", n_scopes, 500, "scopes")
    ctx.note("scopes", n_scopes)
    ctx.note("name_loads", n_loads)


def class_local(name_node):
    """Name used directly in a class body (not inside a method) and bound there."""
    scope = A.enclosing(name_node, A.FUNC + (ast.ClassDef, ast.ListComp, ast.SetComp, ast.DictComp, ast.GeneratorExp))
    if not isinstance(scope, ast.ClassDef):
        return False
    for st in scope.body:
        if isinstance(st, (ast.FunctionDef, ast.AsyncFunctionDef, ast.ClassDef)) and st.name == name_node.id:
            return True
        for tgt in A.assigned_targets(st):
            if name_node.id in A.target_names(tgt):
                return True
        if isinstance(st, (ast.Import, ast.ImportFrom)):
            for nm, _ in statement_bindings(st, scope._module):
                if nm == name_node.id:
                    return True
    return False


def entry_for(ctx, modname, cache):
    """Simulated state after importing only the subpackage of *modname*
    (or the module itself if the subpackage does not load it)."""
    sp = subpackage_of(modname)
    for entry in (sp, modname):
        if entry not in ctx.tree.modules:
            continue
        if entry not in cache:
            sim = Sim(ctx.tree)
            sim.imp(entry)
            cache[entry] = sim
        if modname in cache[entry].loaded:
            return entry, cache[entry]
    return modname, cache.get(modname)


def check_imports(ctx):
    res = ctx.res
    tree = ctx.tree
    cache = {}
    entries = sorted(m for m in tree.modules if tree.modules[m].is_pkg and m != "lena")
    if ctx.tier == "thorough":
        entries = sorted(m for m in tree.modules if m != "lena")
    n_from = 0
    seen_problem = set()
    for entry in entries:
        sim = Sim(tree)
        sim.imp(entry)
        cache.setdefault(entry, sim)
        for kind, m, node, msg in sim.problems:
            key = (kind, m, getattr(node, "lineno", 0), msg)
            if key in seen_problem:
                continue
            seen_problem.add(key)
            if node is None:
                ctx.unknown("C20-c", entry, msg)
                continue
            ctx.violation("C20-c", node, "entry point `import %s`: %s" % (entry, msg),
                          construct="%s:%s" % (kind, A.short(node, 100)))
        ctx.ok("C20-c", (entry, "<module>"), "import %s: %d modules initialised, every from-import and import-time "
               "name found at that moment" % (entry, len(sim.order)))
    ctx.instances_floor("C20-c", len(entries), 8, "entry points")

    # call-time attribute chains rooted in lena modules
    n_chains = 0
    for name in sorted(tree.modules):
        mod = tree.modules[name]
        entry, sim = entry_for(ctx, name, cache)
        if sim is None:
            ctx.unknown("C20-c", name, "no entry point loads %s" % name)
            continue
        for n in ast.walk(mod.tree):
            if not isinstance(n, ast.Attribute) or isinstance(A.parent(n), ast.Attribute):
                continue
            ch = A.attr_chain(n)
            if not ch:
                continue
            fn = A.enclosing_func(n)
            if fn is None:
                continue  # import-time chains are checked by the simulation
            root = ast.Name(id=ch[0], ctx=ast.Load())
            # resolve the root name where it is used
            rootnode = n
            while isinstance(rootnode, ast.Attribute):
                rootnode = rootnode.value
            t = res.resolve(rootnode)
            if t is None or t.kind != "module":
                continue
            n_chains += 1
            if dead_for_py3(n):
                continue
            loaded = set(sim.loaded)
            extra = local_imports_before(n, fn, sim, tree)
            loaded |= extra
            cur = t.name
            ok = True
            for a in ch[1:]:
                if cur not in tree.modules:
                    break
                ns = res.namespace(cur)
                sub = cur + "." + a
                if a in ns:
                    nxt = res.attr(_T("module", cur), a)
                    if nxt is None:
                        break
                    if nxt.kind == "module":
                        cur = nxt.name
                        continue
                    break
                if sub in tree.modules:
                    if sub in loaded:
                        cur = sub
                        continue
                    ctx.violation(
                        "C20-c", n,
                        "`%s` needs module %s, which `import %s` does not load (AttributeError: module %r has no "
                        "attribute %r in a fresh interpreter that imported only its own subpackage)" % (
                            ".".join(ch), sub, entry, cur, a),
                        construct="chain:%s" % ".".join(ch))
                    ok = False
                    break
                if has_module_getattr(tree.modules[cur]):
                    break
                ctx.violation("C20-c", n, "`%s`: module %s has no attribute %r" % (".".join(ch), cur, a),
                              construct="chain:%s" % ".".join(ch))
                ok = False
                break
            if ok:
                ctx.ok("C20-c", n, "chain %s resolves under `import %s`" % (".".join(ch), entry), nontrivial=False)
    ctx.note("attribute_chains", n_chains)
    ctx.instances_floor("C20-c/chains", n_chains, 300, "lena attribute chains evaluated at call time")


def _T(kind, name):
    from ..resolve import T
    return T(kind, name)


def has_module_getattr(mod):
    return any(isinstance(st, ast.FunctionDef) and st.name == "__getattr__" for st in mod.tree.body)


def local_imports_before(node, fn, sim, tree):
    """Modules loaded by import statements of the enclosing functions that are
    executed before *node* (textually earlier, not inside a nested def)."""
    extra = set()
    f = fn
    while f is not None:
        for x in A.walk_local(f, include_self=False):
            if isinstance(x, (ast.Import, ast.ImportFrom)) and (x.lineno, x.col_offset) < (node.lineno, node.col_offset):
                names = []
                if isinstance(x, ast.Import):
                    names = [a.name for a in x.names]
                else:
                    from ..resolve import abs_module
                    src = abs_module(fn._module, x.level, x.module)
                    names = [src] + [src + "." + a.name for a in x.names if (src + "." + a.name) in tree.modules]
                for nm in names:
                    if nm.split(".")[0] == "lena" and nm in tree.modules and nm not in sim.loaded:
                        s2 = sim.copy()
                        s2.imp(nm)
                        extra |= s2.loaded
        f = A.enclosing_func(f)
    return extra


def exc_target_ok(ctx, expr):
    """An except-clause class expression resolves to a class."""
    res = ctx.res
    t = res.resolve(expr)
    if t is None:
        return False, "does not resolve"
    if t.kind in ("ext", "builtin", "local", "var"):
        return True, t.name
    if t.is_class:
        return True, t.name
    return False, "resolves to %s %s, not a class" % (t.kind, t.name)


def check_exceptions(ctx):
    res = ctx.res
    tree = ctx.tree
    # hierarchy
    exc_mod = tree.module("lena.core.exceptions")
    n_cls = 0
    for st in exc_mod.tree.body:
        if isinstance(st, ast.ClassDef):
            n_cls += 1
            t = res.class_target("lena.core.exceptions", st.name)
            ctx.check("C20-d", res.is_subclass(t, LENA_EXC), st,
                      "exception class %s does not derive from LenaException" % st.name,
                      detail="%s derives from LenaException" % st.name, construct="class:%s" % st.name)
    ctx.instances_floor("C20-d/classes", n_cls, 11, "Lena exception classes")
    n_exc = n_raise = 0
    for name in sorted(tree.modules):
        mod = tree.modules[name]
        for n in ast.walk(mod.tree):
            if isinstance(n, ast.ExceptHandler) and n.type is not None:
                exprs = n.type.elts if isinstance(n.type, ast.Tuple) else [n.type]
                for e in exprs:
                    n_exc += 1
                    if dead_for_py3(n):
                        continue
                    ok, why = exc_target_ok(ctx, e)
                    if not ok and isinstance(e, ast.Name) and why == "does not resolve":
                        continue  # the unbound name is reported once, by C20-b
                    ctx.check("C20-d", ok, e,
                              "except clause names %s, which %s (NameError/AttributeError when an exception reaches this handler)"
                              % (A.src(e), why), detail="except %s resolves to %s" % (A.src(e), why),
                              construct="except:%s" % A.src(e))
            elif isinstance(n, ast.Raise):
                n_raise += 1
                if n.exc is None or dead_for_py3(n):
                    continue
                e = n.exc.func if isinstance(n.exc, ast.Call) else n.exc
                t = res.resolve(e)
                fn = A.enclosing(n, (ast.FunctionDef, ast.AsyncFunctionDef))
                q = A.qualname(fn) if fn is not None else "<module>"
                if t is not None and t.kind == "local":
                    ctx.ok("C20-d", n, "re-raise of a local exception object %s" % A.src(e), nontrivial=False)
                    continue
                if t is None and isinstance(e, ast.Attribute) and A.root_name(e) == "self":
                    ctx.ok("C20-d", n, "raise of a stored exception object %s" % A.src(e), nontrivial=False)
                    continue
                if t is None and isinstance(e, ast.Name):
                    continue  # the unbound name is reported once, by C20-b
                if t is None:
                    ctx.violation("C20-d", n, "raised class %s does not resolve" % A.src(e),
                                  construct="raise:%s" % A.src(e))
                    continue
                if t.is_class and res.is_subclass(t, LENA_EXC):
                    ctx.ok("C20-d", n, "raise %s (LenaException subclass)" % t.name)
                    continue
                if t.kind == "var":
                    # module-level exception object
                    ctx.ok("C20-d", n, "raise of module-level object %s" % t.name, nontrivial=False)
                    continue
                if (name, q, t.name) in NAMED_RAISES:
                    ctx.ok("C20-d", n, "named exception: %s (%s)" % (t.name, NAMED_RAISES[(name, q, t.name)]))
                    continue
                ctx.violation("C20-d", n, "raises %s, which is not a LenaException subclass (the property allows only the "
                              "documented Lena exceptions)" % t.name, construct="raise:%s" % t.name)
    ctx.instances_floor("C20-d/raises", n_raise, 150, "raise statements")
    ctx.instances_floor("C20-d/handlers", n_exc, 60, "except clauses")


PROTOCOL_KW = ("call", "run", "fill", "compute", "request", "fill_into", "reset")


def check_string_members(ctx):
    """SourceEl(x, call="_load_flow") etc.: the method name is a string constant
    and the class of x is statically known -- x is `self`, or the enclosing
    function tests isinstance(., C) for lena classes C (then every such C must
    have the member)."""
    res = ctx.res
    n = 0
    for name in sorted(ctx.tree.modules):
        mod = ctx.tree.modules[name]
        for call in ast.walk(mod.tree):
            if not isinstance(call, ast.Call) or not call.args:
                continue
            t = res.resolve(call.func)
            if t is None or not (t.is_class and t.module == "lena.core.adapters"):
                continue
            kws = [kw for kw in call.keywords if kw.arg in PROTOCOL_KW and isinstance(kw.value, ast.Constant)
                   and isinstance(kw.value.value, str)]
            if not kws:
                continue
            obj = call.args[0]
            classes = []
            fn = A.enclosing(call, (ast.FunctionDef, ast.AsyncFunctionDef))
            if isinstance(obj, ast.Name) and obj.id == "self":
                cls = A.enclosing_class(call)
                if cls is not None:
                    classes = [res.class_target(name, A.qualname(cls))]
            elif fn is not None:
                for x in A.walk_local(fn):
                    if isinstance(x, ast.Call) and A.call_name(x) == "isinstance" and len(x.args) == 2:
                        ct = res.resolve(x.args[1])
                        if ct is not None and ct.is_class and ct not in classes:
                            classes.append(ct)
            if not classes:
                continue
            for kw in kws:
                n += 1
                missing = [c.name for c in classes if res.class_attr(c, kw.value.value) is None]
                ctx.check("C20-e", not missing, call,
                          "%s(..., %s=%r): class %s has no attribute %r (the adapter raises at construction or the "
                          "call fails later)" % (A.src(call.func), kw.arg, kw.value.value, ", ".join(missing), kw.value.value),
                          detail="%s=%r names a member of %s" % (kw.arg, kw.value.value, ", ".join(c.name for c in classes)),
                          construct="%s=%s" % (kw.arg, kw.value.value))
    ctx.instances_floor("C20-e", n, 2, "string-named members")


def check_foreign_stores(ctx):
    res = ctx.res
    for name in sorted(ctx.tree.modules):
        mod = ctx.tree.modules[name]
        for n in ast.walk(mod.tree):
            if isinstance(n, ast.Subscript) and isinstance(n.ctx, ast.Store) and isinstance(n.value, ast.Call) \
                    and A.call_name(n.value) == "globals":
                fn = A.enclosing(n, (ast.FunctionDef,))
                key = (name, A.qualname(fn) if fn is not None else "<module>")
                ctx.check("C20-f", key in NAMED_GLOBALS_STORE, n,
                          "store into globals() outside the named site", detail="globals() store at named site %s" % (key,),
                          construct="globals-store")
            if isinstance(n, ast.Attribute) and isinstance(n.ctx, ast.Store):
                t = res.resolve(n.value) if isinstance(n.value, (ast.Name, ast.Attribute)) else None
                if t is not None and t.kind == "module" and t.name != name:
                    ctx.violation("C20-f", n, "store into the namespace of another lena module (%s) -- behaviour would "
                                  "depend on import order" % t.name, construct="store:%s" % A.src(n))
    ctx.ok("C20-f", ("lena", "<all>"), "no store into a foreign module namespace")


# (module, function) -> (number of locals concerned, why the reported paths cannot be taken).  Confirmed by reading the code.
# Keyed by function, not by the local's name (a renaming must not turn an excepted site into an alarm); a function that
# shows MORE possibly-unbound locals than listed here is reported.
UNBOUND_EXEMPT = {
    ("lena.core.source", "Source.__call__"): (1,
        "`flow`: the path needs a first element that is neither callable nor iterable, which Source.__init__ rejects (C01-b checks that guard)"),
    ("lena.output.to_csv", "hist2d_to_csv"): (2,
        "`x_ind`, `bin_content`: read after the loops over the bins only when duplicate_last_bin is set; the loops run at least once "
        "because histogram edges have at least two points (check_edges_increasing, C06-d)"),
    ("lena.output.write_root_tree", "WriteROOTTree.run"): (1,
        "`root_file`: self._root_file is a ROOT.TFile, a str or a tuple; WriteROOTTree.__init__ raises LenaTypeError for anything else"),
    ("lena.structures.graph", "graph._parse_error_names"): (1,
        "`err_tail`: assigned in the same block that appends to err_coords, and read only when err_coords holds exactly one item"),
}


def _local_names(fn):
    params = set(A.func_params(fn))
    stores, banned = set(), set()
    for n in A.walk_local(fn, include_self=False):
        if isinstance(n, (ast.Global, ast.Nonlocal)):
            banned.update(n.names)
        elif isinstance(n, ast.Name) and isinstance(n.ctx, (ast.Store, ast.Del)):
            stores.add(n.id)
        elif isinstance(n, (ast.FunctionDef, ast.ClassDef, ast.AsyncFunctionDef)):
            stores.add(n.name)
        elif isinstance(n, ast.ExceptHandler) and n.name:
            stores.add(n.name)
        elif isinstance(n, (ast.Import, ast.ImportFrom)):
            for al in n.names:
                stores.add((al.asname or al.name).split(".")[0])
    # names bound only as comprehension / lambda targets are not function locals
    return stores - params - banned, params


def check_definite_assignment(ctx):
    from .. import paths as P
    from ..loader import AnalysisError
    n_fn = n_reads = 0
    exempt_seen = set()
    for mod, fn in ctx.tree.functions():
        if isinstance(fn, ast.Lambda):
            continue
        locs, params = _local_names(fn)
        if not locs:
            continue
        try:
            ps = P.paths_of(fn)
        except AnalysisError as err:
            ctx.unknown("C20-g", fn, "paths of %s not enumerated: %s" % (A.qualname(fn), err))
            continue
        n_fn += 1
        reported = set()
        pending = []
        for p in ps:
            bound = set(params)
            handlers = []       # handlers entered on the path and not yet left
            for e in p.ev:
                k = e[0]
                # Python 3 unbinds the `as` name of a handler when the handler is left
                if handlers and len(e) > 1 and isinstance(e[1], ast.AST):
                    anc = set(map(id, A.ancestors(e[1]))) | {id(e[1])}
                    while handlers and id(handlers[-1]) not in anc:
                        h = handlers.pop()
                        bound.discard(h.name)
                if k == "def":
                    bound.add(e[1].name)
                    continue
                if k == "exc":
                    if e[1].name:
                        bound.add(e[1].name)
                        handlers.append(e[1])
                    continue
                if k in ("stmt", "partial", "cond"):
                    nodes = [e[1]]
                elif k in ("iter", "loop0") and isinstance(e[1], (ast.For, ast.AsyncFor)):
                    nodes = [e[1].iter]
                elif k == "with":
                    nodes = [it.context_expr for it in e[1].items]
                else:
                    nodes = []
                for nd in nodes:
                    inner = set()
                    for x in ast.walk(nd):
                        if isinstance(x, (ast.ListComp, ast.SetComp, ast.DictComp, ast.GeneratorExp)):
                            for g in x.generators:
                                inner.update(A.target_names(g.target))
                        elif isinstance(x, ast.Lambda):
                            inner.update(A.func_params(x))
                    if k != "partial":
                        for x in A.walk_local(nd):
                            if isinstance(x, ast.Name) and isinstance(x.ctx, ast.Load) and x.id in locs:
                                n_reads += 1
                                if x.id in bound or x.id in inner:
                                    continue
                                key = (mod.name, A.qualname(fn), x.id)
                                if key in reported:
                                    continue
                                reported.add(key)
                                pending.append((x, p))
                    for x in A.walk_local(nd):
                        if isinstance(x, ast.Name) and isinstance(x.ctx, ast.Store):
                            bound.add(x.id)
                        elif isinstance(x, (ast.Import, ast.ImportFrom)):
                            for al in x.names:
                                bound.add((al.asname or al.name).split(".")[0])
                        elif isinstance(x, ast.Delete):
                            for t in x.targets:
                                if isinstance(t, ast.Name):
                                    bound.discard(t.id)
                if k == "iter" and isinstance(e[1], (ast.For, ast.AsyncFor)):
                    bound.update(A.target_names(e[1].target))
                elif k == "with":
                    for it in e[1].items:
                        if it.optional_vars is not None:
                            bound.update(A.target_names(it.optional_vars))
        fkey = (mod.name, A.qualname(fn))
        allowed, reason = UNBOUND_EXEMPT.get(fkey, (0, ""))
        if pending and len(pending) <= allowed:
            exempt_seen.add(fkey)
            ctx.ok("C20-g", fn, "%s: %d local(s) read before assignment only on excluded paths (%s)" % (A.qualname(fn), len(pending), reason),
                   nontrivial=False)
        elif pending:
            for x, p in pending:
                ctx.violation("C20-g", x, "the local `%s` of %s is read on the path [%s] before anything on that path has bound it: "
                              "UnboundLocalError (a NameError) instead of the documented behaviour%s" % (
                                  x.id, A.qualname(fn), p.describe(4),
                                  " (this function has %d triaged site(s) of this kind, now %d)" % (allowed, len(pending)) if allowed else ""),
                              construct="unbound-local:%s#%d" % (A.qualname(fn), len(pending)), path=p)
        else:
            ctx.ok("C20-g", fn, "%s: every local is bound before it is read on all %d paths" % (A.qualname(fn), len(ps)))
    ctx.instances_floor("C20-g", n_fn, 200, "functions with locals whose paths were enumerated")
    ctx.note("definite_assignment", {"functions": n_fn, "local_reads_checked": n_reads,
                                     "exempt_sites_present": sorted("%s:%s" % k2 for k2 in exempt_seen)})


def check(ctx):
    check_all(ctx)
    check_definite_assignment(ctx)
    check_globals(ctx)
    check_imports(ctx)
    check_exceptions(ctx)
    check_string_members(ctx)
    check_foreign_stores(ctx)


VARIANTS = [
    M("all-exports-try-only-name", "lena/output/__init__.py", "    'iterable_to_table', 'ToCSV', 'hist1d_to_csv', 'hist2d_to_csv',\n    'RenderLaTeX'\n]", "    'iterable_to_table', 'ToCSV', 'hist1d_to_csv', 'hist2d_to_csv',\n    'jinja_syntax_latex',\n]", ["C20-a"]),
    M("handler-name-used-after-handler", "lena/flow/selectors.py", "            res = self._predicate(subcontext)\n        except Exception as err:  # pylint: disable=broad-except\n            if self._raise_on_error:\n                raise err\n            return False\n        else:\n            return res",
      "            return self._predicate(subcontext)\n        except Exception as err:  # pylint: disable=broad-except\n            if not self._raise_on_error:\n                return False\n        raise err", ["C20-g"]),
    M("slice-before-guard", "lena/core/fill_compute_seq.py", "        if fc_el is None:", "        after_probe = seq[ind+1:]\n        if fc_el is None:", ["C20-g"]),
    M("name-bound-in-one-branch", "lena/flow/elements.py", "        self.count += 1\n        data, context = lena.flow.get_data_context(value)", "        self.count += 1\n        if self.count:\n            data, context = lena.flow.get_data_context(value)", ["C20-g"]),
    M("all-lists-missing-name", "lena/flow/__init__.py", "'Cache',", "'Cache', 'CacheX',", ["C20-a"]),
    M("unbound-exception-name", "lena/flow/iterators.py", "raise lena.core.LenaValueError(err)", "raise LenaValueErrorr(err)", ["C20-b"]),
    M("typo-in-chain", "lena/flow/iterators.py", "lena.core.LenaStopFill", "lena.core.LenaStopFil", ["C20-c"]),
    M("raise-builtin", "lena/flow/iterators.py", "raise lena.core.LenaStopFill", "raise StopIteration", ["C20-d"]),
    M("bad-string-member", "lena/flow/cache.py", 'call="_load_flow"', 'call="_load_flows"', ["C20-e"]),
    M("drop-local-import", "lena/context/update_context.py", "        import lena.flow\n", "", ["C20-c"]),
    TW("py2-branch-name", "lena/flow/iterators.py", "import itertools\n", "import itertools\nimport sys\nif sys.version_info.major == 2:\n    _s = basestring\n"),
    TW("alias-import", "lena/flow/iterators.py", "import lena.core\n", "import lena.core\nimport lena.core as _lc\n"),
]
