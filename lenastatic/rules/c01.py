"""C01 -- Sequence and Source compute the left-to-right composition of their elements."""
import ast

from .. import astutil as A
from .. import paths as P
from ..loader import methods
from ..selftest.runner import M, TW, V
from . import common as K

PROPERTY = "C01"
EXPLANATION = (
    "Decides the fold shape and the constructor typestate: (a) FOLD -- on every path of Sequence.run the returned "
    "object is wrap*(fold(el.run, self._data_seq, wrap(flow))) with wrap = flow_to_iter/iter: the input is converted "
    "before the first element sees it, the loop iterates self._data_seq itself forwards, each iteration rebinds the "
    "carried flow to el.run(<carried>), no return path bypasses the loop or the conversion; (b) TYPESTATE -- every "
    "object that Sequence.__init__ stores in _data_seq is guarded by hasattr(el,'run') and callable(el.run) or is "
    "adapters.Run(el), a failed conversion leaves only through raise LenaTypeError; Source.__init__ checks the first "
    "element, keeps it as it was given (not a one-shot iterator made at construction) and builds the tail as "
    "Sequence(*self._data_seq[1:]); Run.__init__ overwrites the stub run on every normal exit and raises only "
    "LenaTypeError; (c) Source.__call__ returns self._tail.run(first()/first) when there is a tail and "
    "flow_to_iter(...) otherwise; (d) flatten appends in iteration order, one of extend/append per element.  "
    "(e) Tree-wide: no function with a flow parameter pulls from the flow (the parameter or a lazy view of it: iter, islice, chain, zip, "
    "map, a generator expression, el.run(flow)) inside a try whose handler swallows an exception other than StopIteration; and "
    "flow_to_iter returns its argument unchanged only where it was found to have a next method.  "
    "(f) Tree-wide: no flow-processing function applies a non-builtin callable to its flow through map/filter/itertools (C level: a "
    "StopIteration of the callable would end the flow silently).  "
    "Does not decide the yielded values nor associativity for arbitrary user elements."    " Added after the eighth round of seeded changes and the second round of behaviour-preserving changes: alter_sequence returns the object it was given on every path that has not found an element altering it (never the flattened copy)."
)
RULES = {
    "C01-g": "CAPABLE: an object kept as given under isinstance(x, C) and later sent run/fill/compute/request is of a class C that defines that method",
    "C01-a": "FOLD: Sequence.run = wrap(fold(el.run over self._data_seq forwards, wrap(flow))) on every path",
    "C01-b": "TYPESTATE: constructors store only elements with a callable run / the given first element; failures raise LenaTypeError",
    "C01-c": "Source.__call__ feeds first()/first into the tail and does not skip a non-empty tail",
    "C01-d": "flatten keeps element order",
    "C01-h": "IDENTITY: alter_sequence returns the object it was given on every path that has not found an element altering it "
             "(Split and Source rely on getting a typed sequence back, not its flattened elements)",
    "C01-f": "GENERATOR FRAME: no flow-processing function hands a callable to map/filter/itertools over its flow -- a user "
             "callable is applied inside a Python generator, where an escaping StopIteration becomes RuntimeError instead of "
             "silently ending the flow",
    "C01-e": "TRANSPARENT ERRORS: no element of lena pulls from its incoming flow inside a try whose handler swallows anything but "
             "StopIteration (the composition law needs an upstream exception to come out of the sequence as it is)",
}
SEQ = "lena.core.sequence"
SRC = "lena.core.source"
LTE = "lena.core.exceptions.LenaTypeError"
WRAPPERS = ("lena.core.functions.flow_to_iter", "builtins.iter")


def term(res, expr, env):
    """Symbolic value of an expression over the carried flow:
    ('in',) raw input, ('W', t) identity wrapper, ('R', el, t) el.run(t), ('?', src)."""
    if isinstance(expr, ast.Name) and expr.id in env:
        return env[expr.id]
    if isinstance(expr, ast.Call):
        canon = res.canon(expr.func)
        if canon in WRAPPERS and len(expr.args) == 1:
            return ("W", term(res, expr.args[0], env))
        if isinstance(expr.func, ast.Attribute) and expr.func.attr == "run" and len(expr.args) == 1 and not expr.keywords:
            return ("R", A.src(expr.func.value), term(res, expr.args[0], env))
    return ("?", A.src(expr))


def check_fold(ctx):
    res = ctx.res
    fn = ctx.tree.func(SEQ, "Sequence.run")
    flow = [p for p in A.func_params(fn) if p != "self"][0]
    loops = [l for l in A.walk_local(fn) if isinstance(l, ast.For)]
    if not ctx.require(len(loops) == 1, "C01-a", fn, "Sequence.run: expected exactly one loop over the elements"):
        return
    loop = loops[0]
    order = K.iter_order(loop.iter, "self._data_seq")
    if order == "unknown":
        ctx.unknown("C01-a", loop, "Sequence.run iterates `%s`, which the analyser cannot relate to self._data_seq" % A.src(loop.iter))
        return
    ctx.check("C01-a", order == "forward", loop, "Sequence.run iterates `%s`, not self._data_seq forwards: the elements are not composed "
              "left to right (or some are skipped)" % A.src(loop.iter), detail="iterates self._data_seq forwards", construct="iter:%s" % A.src(loop.iter))
    el = loop.target.id if isinstance(loop.target, ast.Name) else None
    n = 0
    for p in P.paths_of(fn):
        if p.end == "raise":
            continue
        env = {flow: ("in",)}
        ret = None
        for e in p.ev:
            if e[0] == "stmt":
                s = e[1]
                if isinstance(s, ast.Assign) and len(s.targets) == 1 and isinstance(s.targets[0], ast.Name):
                    env[s.targets[0].id] = term(res, s.value, env)
                elif isinstance(s, ast.Return):
                    ret = term(res, s.value, env) if s.value is not None else ("?", "None")
            elif e[0] == "iter" and e[1] is loop and el:
                env[el] = ("el",)
        n += 1
        # peel wrappers, count R, check the innermost
        t = ret
        runs = 0
        ok = t is not None
        seen_r_over_raw = False
        while ok and t[0] in ("W", "R"):
            if t[0] == "R":
                runs += 1
                if t[1] != el:
                    ok = False
                inner = t[2]
                if inner == ("in",):
                    seen_r_over_raw = True
                t = inner
            else:
                t = t[1]
        iterated = any(e[0] == "iter" and e[1] is loop for e in p.ev)
        wrapped_in = ret is not None and _contains(ret, ("W", ("in",)))
        good = ok and t == ("in",) and not seen_r_over_raw and wrapped_in and runs == (1 if iterated else 0)
        ctx.check("C01-a", good, fn, "Sequence.run returns %s on path [%s]: expected flow_to_iter(... el.run(flow_to_iter(flow)) ...) with "
                  "every element applied once -- %s" % (
                      show(ret), p.describe(),
                      "an element receives the raw input (a list instead of an iterator breaks elements that rely on next())" if seen_r_over_raw
                      else "the composition is not a fold of el.run over the elements"),
                  detail="returns %s [%s]" % (show(ret), p.describe(2)), construct="fold:%s" % show(ret), path=p)
    ctx.instances_floor("C01-a", n, 2, "paths of Sequence.run")
    ctx.check("C01-a", not A.is_generator(fn), fn, "Sequence.run became a generator function: errors are no longer raised when run() is called",
              detail="Sequence.run returns the chained generator", construct="not-generator")


def _contains(t, sub):
    if t == sub:
        return True
    if isinstance(t, tuple):
        return any(_contains(x, sub) for x in t if isinstance(x, tuple))
    return False


def show(t):
    if t is None:
        return "<nothing>"
    if t[0] == "in":
        return "flow"
    if t[0] == "W":
        return "wrap(%s)" % show(t[1])
    if t[0] == "R":
        return "%s.run(%s)" % (t[1], show(t[2]))
    return t[1]


def _rejects(res, stmts):
    """Does the statement list raise LenaTypeError (as one of its own statements)?"""
    for r in stmts:
        if isinstance(r, ast.Raise) and r.exc is not None:
            ex = r.exc.func if isinstance(r.exc, ast.Call) else r.exc
            if res.canon(ex) == LTE:
                return True
    return False


def check_constructors(ctx):
    res = ctx.res
    fn = ctx.tree.func(SEQ, "Sequence.__init__")
    loops = [l for l in A.walk_local(fn) if isinstance(l, ast.For) and A.src(l.iter) == "self._data_seq"]
    if ctx.require(len(loops) == 1, "C01-b", fn, "Sequence.__init__: loop over self._data_seq not found"):
        loop = loops[0]
        el = loop.target.id
        n = 0
        for p in P.loop_body_paths(loop):
            apps = [c for e in p.ev if e[0] == "stmt" for c in A.walk_local(e[1])
                    if isinstance(c, ast.Call) and isinstance(c.func, ast.Attribute) and c.func.attr == "append"]
            if p.end == "raise":
                r = [s for s in p.stmts() if isinstance(s, ast.Raise)][-1]
                ex = r.exc.func if isinstance(r.exc, ast.Call) else r.exc
                ctx.check("C01-b", ex is not None and res.canon(ex) == LTE, r, "Sequence.__init__ rejects an argument with %s, not LenaTypeError"
                          % (A.src(ex) if ex is not None else "a bare raise"), detail="conversion failure raises LenaTypeError", path=p)
                continue
            n += 1
            if not apps:
                ctx.violation("C01-b", loop, "Sequence.__init__ drops an argument on path [%s] (nothing appended): the element would be "
                              "missing from the composition" % p.describe(), construct="dropped:" + p.describe(), path=p)
                continue
            arg = K.value_on_path(p, apps[0].args[0], stop=(el,))
            lits = p.literal_srcs()
            guarded = "hasattr(%s, 'run')" % el in lits and "callable(%s.run)" % el in lits
            if A.src(arg) == el:
                ctx.check("C01-b", guarded and len(apps) == 1, apps[0], "Sequence.__init__ stores the argument itself on a path where it was "
                          "not checked to have a callable run [%s]: the error would surface during the run, not at construction" % p.describe(),
                          detail="raw element stored only under hasattr(el,'run') and callable(el.run)", path=p)
            else:
                conv = arg
                ok = isinstance(conv, ast.Call) and res.canon(conv.func) == "lena.core.adapters.Run" and len(conv.args) == 1 and A.src(conv.args[0]) == el
                ctx.check("C01-b", ok and len(apps) == 1, apps[0], "Sequence.__init__ stores `%s`, which is neither the checked element nor "
                          "adapters.Run(%s)" % (A.src(arg), el), detail="converted element is adapters.Run(el)", path=p)
        ctx.instances_floor("C01-b/Sequence", n, 2, "normal paths through the conversion loop")
        # the list becomes _data_seq
        fin = [a for a in fn.body if isinstance(a, ast.Assign) and any(A.is_self_attr(t, "_data_seq") for t in a.targets)]
        ctx.check("C01-b", len(fin) == 1 and fin[0].lineno > loop.lineno and isinstance(fin[0].value, ast.Name), fn,
                  "Sequence.__init__ does not store the converted list as _data_seq after the loop", detail="_data_seq = converted list",
                  construct="store-data-seq")
    # Source.__init__
    sfn = ctx.tree.func(SRC, "Source.__init__")
    firsts = [a for a in A.walk_local(sfn) if isinstance(a, ast.Assign) and any(A.is_self_attr(t, "_first") for t in a.targets)]
    ok = len(firsts) == 1
    if ok:
        v = firsts[0].value
        src_expr = v
        if isinstance(v, ast.Name):
            d = [a for a in A.walk_local(sfn) if isinstance(a, ast.Assign) and any(A.src(t) == v.id for t in a.targets)]
            ok = len(d) == 1
            src_expr = d[0].value if ok else None
        ok = ok and src_expr is not None and A.src(src_expr) in ("self._data_seq[0]", "args[0]")
    ctx.check("C01-b", ok, sfn, "Source.__init__ does not keep the first element as it was given (`self._first = %s`): converting an "
              "iterable to an iterator at construction makes it one-shot, so a second call of the Source yields nothing"
              % (A.src(firsts[0].value) if firsts else "?"), detail="_first is the given first element", construct="source-first")
    fvar = firsts[0].value.id if firsts and isinstance(firsts[0].value, ast.Name) else None
    fmap = {fvar: "first"} if fvar else {}
    guards = [i for i in A.walk_local(sfn) if isinstance(i, ast.If) and "callable(first)" in A.src_with(i.test, fmap)
              and "__iter__" in A.src(i.test)]
    # the branch that raises is the one taken when first is neither callable nor iterable, whichever way the test is spelled
    # (`if not (c or h): raise` / `if c or h: ... else: raise` / `if not c and not h: raise`)
    okg = any(_rejects(res, branch) and sorted((A.src_with(t, fmap), pol) for t, pol in A.literals(g.test, outcome))
              == [("callable(first)", False), ("hasattr(first, '__iter__')", False)]
              for g in guards for branch, outcome in ((g.body, True), (g.orelse, False)))
    ctx.check("C01-b", okg, sfn, "Source.__init__ does not reject a first element that is neither callable nor iterable with LenaTypeError",
              detail="first element checked at construction", construct="source-first-check")
    tails = [a for a in A.walk_local(sfn) if isinstance(a, ast.Assign) and any(A.is_self_attr(t, "_tail") for t in a.targets)]
    okt = len(tails) == 2
    for t in tails:
        v = t.value
        if isinstance(v, ast.Call):
            okt = okt and res.canon(v.func) == "lena.core.sequence.Sequence" and len(v.args) == 1 and isinstance(v.args[0], ast.Starred) \
                and A.src(v.args[0].value).strip("()") == "self._data_seq[1:]"
        else:
            okt = okt and isinstance(v, ast.Tuple) and not v.elts
    ctx.check("C01-b", okt, sfn, "Source.__init__ does not build its tail as Sequence(*self._data_seq[1:]) (all and only the elements after "
              "the first, in order) or ()", detail="tail = Sequence(*_data_seq[1:]) or ()", construct="source-tail")
    for r in A.walk_local(sfn):
        if isinstance(r, ast.Raise) and r.exc is not None:
            ex = r.exc.func if isinstance(r.exc, ast.Call) else r.exc
            ctx.check("C01-b", res.canon(ex) == LTE, r, "Source.__init__ raises %s" % A.src(ex), detail="Source.__init__ raises LenaTypeError")
    # Run.__init__
    rfn = ctx.tree.func("lena.core.adapters", "Run.__init__")
    n = 0
    for p in P.paths_of(rfn):
        if p.end == "raise":
            r = [s for s in p.stmts() if isinstance(s, ast.Raise)][-1]
            ex = r.exc.func if isinstance(r.exc, ast.Call) else r.exc
            ctx.check("C01-b", res.canon(ex) == LTE, r, "Run.__init__ raises %s, not LenaTypeError" % A.src(ex), detail="Run.__init__ raises LenaTypeError", path=p)
            continue
        n += 1
        bound = any(isinstance(s, ast.Assign) and any(A.is_self_attr(t, "run") for t in s.targets) for s in p.stmts())
        ctx.check("C01-b", bound, rfn, "Run.__init__ leaves the stub `run` in place on path [%s]: the element is accepted at construction "
                  "and fails (or does nothing) when the sequence is run" % p.describe(), detail="run bound on path [%s]" % p.describe(2),
                  construct="run-unbound:" + p.describe(2), path=p)
    ctx.instances_floor("C01-b/Run", n, 4, "normal exits of Run.__init__")


def _deref(p, ret, keep):
    """The expression a `return` of path *p* delivers: `_r = f(x); return _r` delivers `f(x)`.  A returned local name (other
    than the role names in *keep*) is replaced by the value of its last plain assignment before the return on the path.
    Returns (expr, stale): stale names a variable of the defining expression that is rebound between the definition and
    the return (the expression's text then no longer describes the returned value), else None."""
    v = ret.value
    end = p.index(ret)
    seen = set()
    while isinstance(v, ast.Name) and v.id not in keep and v.id not in seen:
        seen.add(v.id)
        at = None
        for i, e in enumerate(p.ev[:end]):
            if e[0] in ("stmt", "partial") and v.id in [x for t in A.assigned_targets(e[1]) for x in A.target_names(t)]:
                at = i if e[0] == "stmt" and isinstance(e[1], ast.Assign) and len(e[1].targets) == 1 \
                    and isinstance(e[1].targets[0], ast.Name) else None
            elif e[0] == "iter" and v.id in A.target_names(e[1].target):
                at = None
        if at is None:
            break
        val = p.ev[at][1].value
        used = A.names_loaded(val)
        for e in p.ev[at + 1:end]:
            bound = []
            if e[0] in ("stmt", "partial"):
                bound = [x for t in A.assigned_targets(e[1]) for x in A.target_names(t)]
            elif e[0] == "iter":
                bound = A.target_names(e[1].target)
            hit = [x for x in bound if x in used]
            if hit:
                return val, hit[0]
        v, end = val, at
    return v, None


def check_source_call(ctx):
    res = ctx.res
    fn = ctx.tree.func(SRC, "Source.__call__")
    n = 0
    # local names: the alias of self._first and the variable that carries the first element's flow
    nm = {}
    for s in A.walk_local(fn):
        if isinstance(s, ast.Assign) and len(s.targets) == 1 and isinstance(s.targets[0], ast.Name):
            if A.src(s.value) == "self._first":
                nm[s.targets[0].id] = "first"
    for s in A.walk_local(fn):
        if isinstance(s, ast.Assign) and len(s.targets) == 1 and isinstance(s.targets[0], ast.Name) \
                and A.src_with(s.value, nm) in ("first()", "first", "self._first()", "self._first") and s.targets[0].id not in nm:
            nm[s.targets[0].id] = "flow"
    for p in P.paths_of(fn):
        if p.end == "raise":
            continue
        rets = [s for s in p.stmts() if isinstance(s, ast.Return)]
        if not rets:
            ctx.violation("C01-c", fn, "Source.__call__ returns nothing on path [%s]" % p.describe(), construct="no-return", path=p)
            continue
        n += 1
        v, stale = _deref(p, rets[0], nm)
        if stale:
            ctx.unknown("C01-c", rets[0], "Source.__call__ returns `%s`, defined as `%s` before `%s` is rebound on path [%s]: the analyser "
                        "does not relate the returned value to the first element's flow" % (A.src(rets[0].value), A.src(v), stale, p.describe()))
            continue
        lits = [A.src_with(t, nm) if pol else ("not (%s)" % A.src_with(t, nm) if isinstance(t, (ast.BoolOp, ast.Compare, ast.IfExp))
                                                 else "not " + A.src_with(t, nm)) for t, pol in p.literals()]
        # definition of the flow variable on this path
        flowdef = None
        for e in p.ev:
            if e[0] == "stmt" and isinstance(e[1], ast.Assign) and len(e[1].targets) == 1 and isinstance(e[1].targets[0], ast.Name) \
                    and nm.get(e[1].targets[0].id) == "flow":
                flowdef = e[1].value
        if flowdef is None:
            # neither callable nor iterable: excluded by the constructor's check of the first element
            ctx.ok("C01-c", fn, "path [%s] is excluded by Source.__init__ (first is callable or iterable)" % p.describe(2), nontrivial=False)
            continue
        okdef = A.src_with(flowdef, nm) in ("first()", "first", "self._first()", "self._first")
        if "self._tail" in lits:
            ok = isinstance(v, ast.Call) and A.src(v.func) == "self._tail.run" and len(v.args) == 1 and A.src_with(v.args[0], nm) == "flow"
            ctx.check("C01-c", ok and okdef, rets[0], "Source.__call__ with a non-empty tail returns `%s`: it must return self._tail.run(<first() "
                      "or first>)" % A.src(v), detail="tail applied to the first element's flow", path=p)
        elif "not self._tail" in lits:
            ok = isinstance(v, ast.Call) and res.canon(v.func) in WRAPPERS and A.src_with(v.args[0], nm) == "flow"
            ctx.check("C01-c", ok and okdef, rets[0], "Source.__call__ without a tail returns `%s`, not flow_to_iter(flow)" % A.src(v),
                      detail="no tail: the first element's flow itself", path=p)
        else:
            ctx.violation("C01-c", rets[0], "Source.__call__ returns without testing self._tail [%s]: a non-empty tail would be skipped" % p.describe(),
                          construct="tail-untested", path=p)
        if "callable(first)" in lits:
            ctx.check("C01-c", flowdef is not None and A.src_with(flowdef, nm) in ("first()", "self._first()"), fn, "a callable first element is not called",
                      detail="callable first is called", construct="first-called", path=p)
    ctx.instances_floor("C01-c", n, 2, "paths of Source.__call__")


def check_flatten(ctx):
    fn = ctx.tree.func("lena.core.meta", "flatten")
    loops = [l for l in A.walk_local(fn) if isinstance(l, ast.For)]
    wl = [l for l in A.walk_local(fn) if isinstance(l, ast.While)]
    if not loops and len(wl) == 1:
        # a worklist instead of recursion: what is pushed is taken out again by pop() -- last in, first out -- so every
        # group of elements must be pushed in reverse to come out in document order
        loop = wl[0]
        pops = [c for c in A.walk_body(loop.body) if isinstance(c, ast.Call) and isinstance(c.func, ast.Attribute) and c.func.attr in ("pop", "popleft")
                and isinstance(c.func.value, ast.Name)]
        if ctx.require(len(pops) == 1, "C01-d", fn, "flatten: worklist loop without a single pop"):
            stack = pops[0].func.value.id
            lifo = pops[0].func.attr == "pop" and not pops[0].args
            fifo = pops[0].func.attr == "popleft" or (pops[0].func.attr == "pop" and pops[0].args and A.int_const(pops[0].args[0]) == 0)
            if ctx.require(lifo or fifo, "C01-d", pops[0], "flatten: unrecognised pop `%s`" % A.src(pops[0])):
                def is_reversed(e):
                    if isinstance(e, ast.Call) and A.call_name(e) == "reversed":
                        return True
                    if isinstance(e, ast.Subscript) and isinstance(e.slice, ast.Slice) and e.slice.lower is None and e.slice.upper is None \
                            and A.int_const(e.slice.step) == -1:
                        return True
                    if isinstance(e, ast.Call) and A.call_name(e) in ("list", "tuple") and e.args:
                        return is_reversed(e.args[0])
                    return False
                pushes = []
                for st in A.walk_local(fn):
                    if isinstance(st, ast.Assign) and len(st.targets) == 1 and A.src(st.targets[0]) == stack:
                        pushes.append((st, st.value))
                    elif isinstance(st, ast.Call) and isinstance(st.func, ast.Attribute) and A.src(st.func.value) == stack \
                            and st.func.attr in ("extend", "extendleft") and st.args:
                        pushes.append((st, st.args[0]))
                for st, e in pushes:
                    if isinstance(e, (ast.List, ast.Tuple)) and len(e.elts) <= 1:
                        continue
                    rev = is_reversed(e)
                    if isinstance(st, ast.Call) and st.func.attr == "extendleft":
                        rev = not rev       # extendleft reverses by itself
                    if fifo and isinstance(st, ast.Call) and st.func.attr == "extend":
                        ctx.violation("C01-d", st, "flatten appends the elements of a nested sequence at the *end* of a first-in-first-out "
                                      "worklist (`%s`): they are flattened after the elements that follow the nested sequence"
                                      % A.short(st, 50), construct="flatten-worklist-order")
                        continue
                    ctx.check("C01-d", rev == lifo, st, "flatten pushes `%s` onto a worklist it empties with `%s`: the elements of that "
                              "group come out in %s order, so Sequence(Sequence(a, b), c) is flattened to [b, a, c] -- Cache.alter_sequence, "
                              "which cuts the flattened list at the cache, then hoists a Source that runs the wrong elements after it"
                              % (A.short(e, 40), A.src(pops[0]), "reverse" if rev != lifo else "document"),
                              detail="worklist push `%s` keeps document order" % A.short(e, 40), construct="flatten-worklist-order")
                ctx.instances_floor("C01-d/worklist", len(pushes), 2, "pushes onto the worklist of flatten")
        return
    if not ctx.require(len(loops) == 1, "C01-d", fn, "flatten: expected one loop"):
        return
    loop = loops[0]
    seqp = A.func_params(fn)[0]
    init_lists = [s.targets[0].id for s in A.body_wo_doc(fn) if isinstance(s, ast.Assign) and len(s.targets) == 1
                  and isinstance(s.targets[0], ast.Name) and A.src(s.value) in ("[]", "list()")]
    rets = [r.value.id for r in A.walk_local(fn) if isinstance(r, ast.Return) and isinstance(r.value, ast.Name)]
    accs = [x for x in init_lists if x in rets]
    if not ctx.require(len(accs) == 1, "C01-d", fn, "flatten: expected one list created empty and returned"):
        return
    acc = accs[0]
    ctx.check("C01-d", A.src(loop.iter) == seqp, loop, "flatten iterates `%s`, not the sequence in order" % A.src(loop.iter),
              detail="flatten iterates seq forwards", construct="flatten-iter")
    el = loop.target.id
    for p in P.loop_body_paths(loop):
        calls = [c for e in p.ev if e[0] == "stmt" for c in A.walk_local(e[1])
                 if isinstance(c, ast.Call) and isinstance(c.func, ast.Attribute) and c.func.attr in ("append", "extend", "insert", "appendleft")
                 and A.src(c.func.value) == acc]
        ok = len(calls) == 1 and calls[0].func.attr in ("append", "extend")
        if ok and calls[0].func.attr == "extend":
            ok = A.src(calls[0].args[0]) == "flatten(%s)" % el and "isinstance(%s, lena_sequence.LenaSequence)" % el in p.literal_srcs()
        elif ok:
            ok = A.src(calls[0].args[0]) == el
        ctx.check("C01-d", ok, loop, "flatten does not add the element exactly once at the end of the list on path [%s] (%s)" % (
            p.describe(), ", ".join(A.src(c) for c in calls) or "nothing added"), detail="one append/extend per element [%s]" % p.describe(2),
            construct="flatten:%s" % ",".join(A.src_with(c, {el: "el", acc: "flattened"}) for c in calls), path=p)


def check_transparent_errors(ctx):
    hits = K.swallowed_pulls(ctx.tree, ctx.res)
    for mod, fn, tr, h, x in hits:
        ctx.violation("C01-e", tr, "%s pulls from its flow (`%s`) inside a try whose handler `except %s` does not re-raise: an exception of "
                      "that kind raised by an earlier element of the sequence is swallowed there, so Sequence(a, b).run(flow) no "
                      "longer equals b.run(a.run(flow)) seen from outside (the error vanishes and the flow is cut short)" % (
                          A.qualname(fn), A.short(A.enclosing(x, (ast.stmt,)) or x, 50), A.src(h.type) if h.type is not None else ""),
                      construct="swallowed-pull:%s" % A.qualname(fn))
    n = sum(1 for m, fn in ctx.tree.functions() if "flow" in A.func_params(fn))
    ctx.instances_floor("C01-e", n, 35, "flow-processing functions")
    if not hits:
        ctx.ok("C01-e", ("lena", "<tree>"), "%d flow-processing functions: no quiet handler covers a pull from the flow" % n)


_C_MAPPERS = ("builtins.map", "builtins.filter", "itertools.starmap", "itertools.filterfalse", "itertools.takewhile",
              "itertools.dropwhile", "itertools.accumulate", "itertools.groupby")


def check_generator_frame(ctx):
    """(val for val in flow if sel(val)) and filter(sel, flow) yield the same values -- until sel raises StopIteration (next() on a
    helper iterator that ran out).  PEP 479 turns that into RuntimeError inside a generator; the C iterators let it through and
    the consumer sees a regular end of the flow: everything after the failing value is lost without an error."""
    res = ctx.res
    n = 0
    hits = 0
    for mod, fn in ctx.tree.functions():
        if "flow" not in A.func_params(fn):
            continue
        n += 1
        lazy = {"flow"}
        for st in A.walk_local(fn):
            if isinstance(st, ast.Assign) and len(st.targets) == 1 and isinstance(st.targets[0], ast.Name) and isinstance(st.value, ast.Call) \
                    and any(isinstance(x, ast.Name) and x.id in lazy for a in st.value.args for x in ast.walk(a)):
                lazy.add(st.targets[0].id)
        for c in A.walk_local(fn):
            if isinstance(c, ast.Call) and (res.call_canon(c) or "") in _C_MAPPERS and len(c.args) >= 2:
                over = [a for a in c.args[1:] if any(isinstance(x, ast.Name) and x.id in lazy for x in ast.walk(a))]
                if res.call_canon(c) in ("itertools.accumulate", "itertools.groupby"):
                    over = [a for a in c.args[:1] if any(isinstance(x, ast.Name) and x.id in lazy for x in ast.walk(a))] if (
                        len(c.args) > 1 or c.keywords) else []
                fnarg = c.args[0]
                builtin_fn = isinstance(fnarg, ast.Name) and (res.canon(fnarg) or "").startswith("builtins.")
                if over and not builtin_fn and not (isinstance(fnarg, ast.Constant) and fnarg.value is None):
                    hits += 1
                    ctx.violation("C01-f", c, "%s applies `%s` to the values of its flow through `%s`: when that callable raises StopIteration "
                                  "the flow ends there as if it were exhausted (no RuntimeError as inside a generator), so "
                                  "Sequence(..., this element, ...).run(flow) silently loses the rest of the flow and what follows "
                                  "(a Sum, a Cache) reports a result for part of it" % (A.qualname(fn), A.short(fnarg, 30), A.short(c, 50)),
                                  construct="c-mapper:%s" % A.qualname(fn))
    ctx.instances_floor("C01-f", n, 35, "flow-processing functions")
    if not hits:
        ctx.ok("C01-f", ("lena", "<tree>"), "%d flow-processing functions: callables are applied in generator frames only" % n)


PROTOCOL_METHODS = ("run", "fill", "compute", "request", "fill_into")


def _class_defines(ctx, canon, meth, depth=0):
    """Does the lena class *canon* (dotted) or one of its lena bases define method *meth*?  None if it cannot be told."""
    if not canon or depth > 6:
        return None
    modname, _, cname = canon.rpartition(".")
    cls = ctx.tree.maybe(modname, cname)
    if cls is None or not isinstance(cls, ast.ClassDef):
        return None
    if meth in methods(cls):
        return True
    # a stub bound in __init__ (self.run = ...) also provides it
    init = methods(cls).get("__init__")
    if init is not None and any(isinstance(a, ast.Assign) and any(A.is_self_attr(t, meth) for t in a.targets) for a in A.walk_local(init)):
        return True
    out = False
    for b in cls.bases:
        bc = ctx.res.canon(b)
        if bc in ("builtins.object", None):
            continue
        r = _class_defines(ctx, bc, meth, depth + 1)
        if r is None:
            return None
        out = out or r
    return out


def check_capable_by_type(ctx):
    """An element that keeps an object as it is given -- instead of building a Sequence from it -- because `isinstance(x, C)`
    holds, and later calls `self._attr.run(...)` (fill, compute, request, fill_into) on it, relies on *every* C having that
    method.  C must therefore be a class that defines it: `Sequence` for run, not the common base `LenaSequence`
    (a FillSeq or FillComputeSeq has no run: accepted at construction, AttributeError at the first value)."""
    res = ctx.res
    n = 0
    for mod, cls in ctx.tree.classes():
        ms = methods(cls)
        init = ms.get("__init__")
        if init is None:
            continue
        used = {}
        for name, fn in ms.items():
            for c in A.walk_local(fn):
                if isinstance(c, ast.Call) and isinstance(c.func, ast.Attribute) and c.func.attr in PROTOCOL_METHODS \
                        and isinstance(c.func.value, ast.Attribute) and A.is_self_attr(c.func.value):
                    used.setdefault(c.func.value.attr, set()).add(c.func.attr)
        if not used:
            continue
        for p in P.paths_of(init):
            if p.end == "raise":
                continue
            for i, e in enumerate(p.ev):
                if e[0] != "stmt" or not isinstance(e[1], ast.Assign):
                    continue
                for t in e[1].targets:
                    if not (isinstance(t, ast.Attribute) and A.is_self_attr(t) and t.attr in used):
                        continue
                    v = K.value_on_path(p, e[1].value, i)
                    if isinstance(v, ast.Call):
                        continue
                    for lit, pol in P.Path(p.ev[:i], "fall").literals():
                        if not (pol and isinstance(lit, ast.Call) and res.call_canon(lit) == "builtins.isinstance" and len(lit.args) == 2
                                and A.src(lit.args[0]) == A.src(v)):
                            continue
                        classes = lit.args[1].elts if isinstance(lit.args[1], ast.Tuple) else [lit.args[1]]
                        for cexpr in classes:
                            for meth in sorted(used[t.attr]):
                                n += 1
                                has = _class_defines(ctx, res.canon(cexpr), meth)
                                if has is None:
                                    continue
                                ctx.check("C01-g", has, lit, "%s.__init__ keeps `%s` as self.%s because `%s`, and %s calls self.%s.%s(): "
                                          "the class %s does not define %s (its subclasses without it pass the test and fail at the first value)"
                                          % (cls.name, A.src(v), t.attr, A.src(lit), cls.name, t.attr, meth, A.src(cexpr), meth),
                                          detail="%s: isinstance(%s) licenses .%s()" % (cls.name, A.src(cexpr), meth),
                                          construct="capable:%s.%s:%s:%s" % (cls.name, t.attr, A.src(cexpr), meth), path=p)
    ctx.instances_floor("C01-g", n, 1, "isinstance tests that license a protocol call on a stored object")


def check_alter_identity(ctx):
    """C01-h.  Split.__init__ / Source pass each branch through alter_sequence and classify what comes back by its type.
    alter_sequence flattens its argument to look for elements that alter it; when none does, the argument itself has to be
    returned: the flattened copy of Sequence(a, Sequence(Sum())) is a bare collection, which is classified by content --
    a 'sequence' branch becomes a fill_compute one and yields once at the end instead of once per block."""
    fn = ctx.tree.func("lena.core.meta", "alter_sequence")
    par = A.func_params(fn)[0]
    # aliases of the argument taken before the parameter is rebound
    rebind = [st for st in fn.body if isinstance(st, ast.Assign) and any(isinstance(t, ast.Name) and t.id == par for t in st.targets)]
    first_rebind = min([st.lineno for st in rebind] or [10 ** 9])
    orig = {par} if not rebind else set()
    for st in fn.body:
        if isinstance(st, ast.Assign) and isinstance(st.value, ast.Name) and st.value.id == par and st.lineno < first_rebind:
            orig |= {t.id for t in st.targets if isinstance(t, ast.Name)}
    n = 0
    for p in P.paths_of(fn):
        if p.end != "return":
            continue
        r = [x for x in p.stmts() if isinstance(x, ast.Return)][-1]
        v = r.value
        n += 1
        # a returned local stands for what it was last bound to on this path (`_ret = el.alter_sequence(el); return _ret`)
        hops = 0
        while isinstance(v, ast.Name) and v.id not in orig and hops < 4:
            last = None
            for st in p.stmts():
                if isinstance(st, ast.Assign) and st.lineno <= r.lineno and any(isinstance(t, ast.Name) and t.id == v.id for t in st.targets):
                    last = st
            if last is None or (isinstance(last.value, ast.Call) and (ctx.res.call_canon(last.value) or "").endswith("flatten")):
                break
            v = last.value
            hops += 1
        if isinstance(v, ast.Name) and v.id in orig:
            ctx.ok("C01-h", r, "alter_sequence returns its argument [%s]" % p.describe(2))
        elif isinstance(v, ast.Call):
            ctx.ok("C01-h", r, "alter_sequence returns what an altering element made [%s]" % p.describe(2))
        elif isinstance(v, ast.Name):
            altered = any(isinstance(t, ast.Name) and pol and any(
                isinstance(a, ast.Assign) and isinstance(a.value, ast.Constant) and a.value.value is True and
                any(isinstance(x, ast.Name) and x.id == t.id for x in a.targets) for a in A.walk_local(fn)) for t, pol in p.literals())
            ctx.check("C01-h", altered, r, "alter_sequence returns `%s` -- the flattened copy of its argument -- on the path [%s], on which "
                      "no element has altered the sequence: the caller gets a bare collection of elements instead of the typed sequence it "
                      "passed (Split classifies it by content, so Sequence(a, Sequence(Sum())) becomes a fill_compute branch and yields "
                      "once at the end instead of per block)" % (v.id, p.describe(4)),
                      detail="alter_sequence returns a rebuilt sequence only where it was altered [%s]" % p.describe(2),
                      construct="alter-returns-copy:%s" % p.describe(2), path=p)
        else:
            ctx.unknown("C01-h", r, "alter_sequence returns `%s`, which the rule cannot relate to its argument" % A.short(v, 40))
    ctx.instances_floor("C01-h", n, 3, "return paths of alter_sequence")


def check(ctx):
    check_alter_identity(ctx)
    check_capable_by_type(ctx)
    check_generator_frame(ctx)
    check_transparent_errors(ctx)
    K.check_flow_to_iter(ctx, "C01-a", "Sequence.run and Source.__call__ promise an iterator whatever the input is, and elements "
                         "that take the flow in pieces (islice, next) see the beginning of a re-iterable again and again")
    check_fold(ctx)
    check_constructors(ctx)
    check_source_call(ctx)
    check_flatten(ctx)


VARIANTS = [
    M("alter-sequence-returns-flattened", "lena/core/meta.py", "            return el.alter_sequence(el)\n        else:\n            return orig_seq", "            return el.alter_sequence(el)\n        else:\n            return seq", ["C01-h"]),
    M("runif-any-lenasequence", "lena/flow/elements.py", "isinstance(args[0], lena.core.Sequence)", "isinstance(args[0], lena.core.LenaSequence)", ["C01-g"]),
    M("flatten-stack-unreversed-push", "lena/core/meta.py", "    for el in seq:\n        if isinstance(el, lena_sequence.LenaSequence):\n            flattened.extend(flatten(el))", "    stack = list(seq)[::-1]\n    while stack:\n        el = stack.pop()\n        if isinstance(el, lena_sequence.LenaSequence):\n            stack.extend(el)", ["C01-d"]),
    TW("flatten-stack-reversed-push", "lena/core/meta.py", "    for el in seq:\n        if isinstance(el, lena_sequence.LenaSequence):\n            flattened.extend(flatten(el))", "    stack = list(seq)[::-1]\n    while stack:\n        el = stack.pop()\n        if isinstance(el, lena_sequence.LenaSequence):\n            stack.extend(reversed(list(el)))"),
    M("filter-run-builtin-filter", "lena/flow/filter.py", "        return (val for val in flow if self._selector(val))", "        return filter(self._selector, flow)", ["C01-f"]),
    M("call-run-builtin-map", "lena/core/adapters.py", "        for val in flow:\n            yield self._el(val)\n", "        return map(self._el, flow)\n", ["C01-f"]),
    M("count-run-swallows-upstream-errors", "lena/flow/elements.py", "        except StopIteration:\n", "        except Exception:\n", ["C01-e"], nth=0),
    M("run-reversed", "lena/core/sequence.py", "        for el in self._data_seq:\n            flow = el.run(flow)", "        for el in reversed(self._data_seq):\n            flow = el.run(flow)", ["C01-a"]),
    M("run-skips-last", "lena/core/sequence.py", "        for el in self._data_seq:\n            flow = el.run(flow)", "        for el in self._data_seq[:-1]:\n            flow = el.run(flow)", ["C01-a"]),
    M("run-raw-input", "lena/core/sequence.py", "        flow = functions.flow_to_iter(flow)\n\n        for el in self._data_seq:", "        for el in self._data_seq:", ["C01-a"]),
    M("init-swallows-error", "lena/core/sequence.py", "                except exceptions.LenaTypeError:\n                    raise exceptions.LenaTypeError(\n                        \"arguments must implement run method, \"\n                        \"or be callable generators (convertible to Run), \"\n                        \"{} given\".format(el)\n                    )",
      "                except exceptions.LenaTypeError:\n                    seq.append(el)", ["C01-b"]),
    M("init-typeerror", "lena/core/sequence.py", "                except exceptions.LenaTypeError:\n                    raise exceptions.LenaTypeError(", "                except exceptions.LenaTypeError:\n                    raise TypeError(", ["C01-b"]),
    M("run-branch-forgets-run", "lena/core/adapters.py", "            elif callable(el):\n                # Call to Run\n                self.run = self._call_run", "            elif callable(el):\n                pass", ["C01-b"]),
    M("source-tail-skips-one", "lena/core/source.py", "self._tail = Sequence(*(self._data_seq[1:]))", "self._tail = Sequence(*(self._data_seq[2:]))", ["C01-b"]),
    M("source-first-iterator", "lena/core/source.py", "        self._first = first\n", "        self._first = first if callable(first) else flow_to_iter(first)\n", ["C01-b"]),
    M("source-call-skips-tail", "lena/core/source.py", "        if self._tail:\n            return self._tail.run(flow)\n        else:\n            return flow_to_iter(flow)", "        return flow_to_iter(flow)", ["C01-c"]),
    M("flatten-insert-front", "lena/core/meta.py", "            flattened.append(el)", "            flattened.insert(0, el)", ["C01-d"]),
    TW("run-extra-wrap", "lena/core/sequence.py", "        return flow\n\n    def __eq__", "        return iter(flow)\n\n    def __eq__"),
]
