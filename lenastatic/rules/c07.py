"""C07 -- nested-dictionary algebra: intersection, difference, recursive update."""
import ast

from .. import astutil as A
from .. import paths as P
from ..effects import Effects
from ..kinds import Kinds, truth_tests, DICT, MAYBE
from ..selftest.runner import M, TW, V
from . import common as K

PROPERTY = "C07"
EXPLANATION = (
    "Decides truthiness, freshness, purity and merge shape of the four algebra functions: (a) TRUTHY -- kinds "
    "{DICT, MAYBE(dict or leaf), ...} are propagated along every enumerated path (isinstance(E, dict) literals "
    "refine E); a branch decided by the bare truthiness of a MAYBE value, or a presence test made with "
    ".get(key) compared to None, is reported: a leaf 0/False/None/''/{} would be taken for absent; (b) FRESH -- "
    "intersection's result is copy.deepcopy(dicts[0]) and every item stored into it is a recursive intersection "
    "result; (c) PURE -- parameters documented as unchanged (all of intersection's, d1/d2 of difference, other of "
    "update_recursively) are not mutated through any alias (summaries of callees included), and "
    "update_recursively/update_nested perform no destructive operation on d; (d) update_nested stores the old "
    "d[key] into other's chain before overwriting it; (e) update_recursively overwrites an existing key with a "
    "dictionary value only by recursing; (f) the depth counter of intersection/difference is never rebound inside a loop and "
    "every recursive call passes exactly level - 1; (h) difference hands back its first argument itself only where that "
    "argument is known not to be contained in the second (a non-dictionary operand, or d1 != d2 on the path): the "
    "equality exit comes before the depth exit; (i) str_to_dict, through which update_recursively takes the string form of "
    "other, treats the explicit value as opaque: once the value has joined the list of keys nothing filters, rebinds or "
    "tests the elements of that list; (j) the emptiness test on the recursive difference is made only on paths with level != 1 -- one "
    "level above the depth limit the recursion returns d1[key] itself, whose emptiness says nothing about containment.  Does not decide the algebraic laws themselves (relations between values).")
RULES = {
    "C07-a": "TRUTHY: no branch on the bare truthiness of a value that may be a leaf; presence is tested with `in`",
    "C07-b": "FRESH: intersection returns a deep copy; only recursive results are stored into it",
    "C07-c": "PURE: documented-unchanged arguments are not mutated; no destructive operation on d",
    "C07-d": "PAIR: update_nested keeps the previous d[key] reachable under the new one",
    "C07-e": "merge, not overwrite: update_recursively replaces an existing dictionary item only by recursion",
    "C07-f": "DEPTH: the level of intersection/difference is the same for every argument and key of one call (never rebound "
             "in a loop) and every recursive call passes exactly level - 1",
    "C07-h": "CONTAINED FIRST: difference returns d1 itself only on paths where d1 is known not to be contained in d2 "
             "(equal arguments give {} at every level, also level=0)",
    "C07-j": "DEPTH EXIT IS NOT EMPTINESS: the result of the recursive difference is tested for emptiness only where the recursion "
             "cannot have stopped at its depth limit (level != 1 on the path): at the limit it returns d1[key] itself, and an empty "
             "d1[key] that differs from d2[key] belongs to the difference",
    "C07-i": "OPAQUE VALUE: in str_to_dict no key rule (filter, comparison, truth test) is applied to the list once the explicit "
             "value is in it: a value '' / 0 / None is stored as given",
    "C07-g": "NO HIDDEN STATE: the shared helper modules keep no module-level mutable container that a function reads or fills "
             "(a memo hands the same dictionary to several callers, whose in-place updates then meet)",
}
FN = "lena.context.functions"
ALGEBRA = ("intersection", "difference", "update_recursively", "update_nested")


def call_kinds(res):
    def k_difference(kinds, call, upto):
        if len(call.args) >= 2 and kinds.kind(call.args[0], upto) == DICT and kinds.kind(call.args[1], upto) == DICT:
            return DICT
        return MAYBE

    def k_intersection(kinds, call, upto):
        return DICT
    return {FN + ".difference": k_difference, FN + ".intersection": k_intersection}


def recursion_args_are_dicts(ctx, name):
    """Every call of algebra function *name* made from inside the algebra passes
    dictionary-kinded positional arguments."""
    res = ctx.res
    ok = True
    n = 0
    for caller in ALGEBRA:
        fn = ctx.tree.func(FN, caller)
        for p in P.paths_of(fn):
            kinds = Kinds(res, fn, p, call_kinds=call_kinds(res))
            for i, e in enumerate(p.ev):
                if e[0] != "stmt":
                    continue
                for c in A.walk_local(e[1]):
                    if isinstance(c, ast.Call) and res.canon(c.func) == FN + "." + name:
                        n += 1
                        args = c.args[:2] if name != "update_nested" else c.args[1:3]
                        for a in args:
                            if isinstance(a, ast.Starred):
                                continue
                            if kinds.kind(a, i) != DICT:
                                ok = False
    return ok, n


def check_truthy(ctx):
    res = ctx.res
    rec_ok, n_rec = recursion_args_are_dicts(ctx, "intersection")
    ctx.note("intersection_recursive_calls", n_rec)
    n_tests = 0
    seen = set()
    sites = [(FN, name) for name in ALGEBRA] + [("lena.flow.zip", "Zip._create_context")]
    for modname, name in sites:
        fn = ctx.tree.func(modname, name)
        dict_params = set()
        if name == "intersection" and rec_ok and fn.args.vararg is not None:
            dict_params.add(fn.args.vararg.arg)   # public contract: dictionaries; recursion passes guarded dicts
        if name == "Zip._create_context":
            dict_params.add("values")
        maybe = set(A.func_params(fn)) - dict_params
        for p in P.paths_of(fn):
            kinds = Kinds(res, fn, p, dict_params=dict_params, maybe_params=maybe, call_kinds=call_kinds(res))
            for i, e in enumerate(p.ev):
                if e[0] != "cond":
                    continue
                for t in truth_tests(e[1]):
                    if isinstance(t, ast.Call) and A.call_name(t) in ("isinstance", "hasattr", "callable"):
                        continue
                    if isinstance(t, ast.Call) and A.call_name(t) in ("any", "all") and t.args:
                        # any(<iterable>): the elements decide
                        inner = t.args[0]
                        k = element_kind_of(ctx, kinds, fn, p, inner, i)
                    else:
                        k = kinds.kind(t, i)
                    key = (name, A.src(t), k)
                    if key in seen:
                        continue
                    seen.add(key)
                    n_tests += 1
                    if k == MAYBE:
                        ctx.violation("C07-a", t, "%s branches on the truthiness of `%s`, which may be a leaf value of a dictionary "
                                      "(not only a sub-dictionary): a leaf 0, False, None, '' or {} is taken for 'nothing there' "
                                      "[path: %s]" % (name, A.src(t), P.Path(p.ev[:i]).describe(4)),
                                      construct="truthy:%s" % A.src(t), path=P.Path(p.ev[:i + 1]))
                    else:
                        ctx.ok("C07-a", t, "%s: truthiness test on `%s` of kind %s" % (name, A.src(t), k), nontrivial=(k == DICT))
    ctx.instances_floor("C07-a", n_tests, 4, "truthiness tests in the algebra")
    # presence tested with .get() against None
    for name in ALGEBRA:
        fn = ctx.tree.func(FN, name)
        gets = {}
        for n in A.walk_local(fn):
            if isinstance(n, ast.Assign) and isinstance(n.value, ast.Call) and isinstance(n.value.func, ast.Attribute) \
                    and n.value.func.attr == "get" and len(n.targets) == 1 and isinstance(n.targets[0], ast.Name):
                dflt = n.value.args[1] if len(n.value.args) > 1 else None
                if dflt is None or (isinstance(dflt, ast.Constant) and not dflt.value):
                    gets[n.targets[0].id] = n
        for n in A.walk_local(fn):
            if isinstance(n, ast.Compare) and len(n.ops) == 1 and isinstance(n.ops[0], (ast.Is, ast.IsNot, ast.Eq, ast.NotEq)):
                l, r = n.left, n.comparators[0]
                for a, b in ((l, r), (r, l)):
                    is_get = (isinstance(a, ast.Name) and a.id in gets) or (
                        isinstance(a, ast.Call) and isinstance(a.func, ast.Attribute) and a.func.attr == "get" and len(a.args) == 1)
                    if is_get and isinstance(b, ast.Constant) and b.value is None:
                        ctx.violation("C07-a", n, "%s decides whether a key is present by comparing `.get(key)` with None (`%s`): an item "
                                      "whose value is None is taken for absent" % (name, A.src(n)), construct="get-none:%s" % A.src(n))
    ctx.ok("C07-a", (FN, "<algebra>"), "no presence test through .get() against None")


def element_kind_of(ctx, kinds, fn, p, expr, upto):
    """Kind of the elements of an iterable expression (names resolved one level)."""
    if isinstance(expr, ast.Name):
        la = kinds.last_assignment(expr.id, upto)
        if la is not None and la[0] == "value":
            return element_kind_of(ctx, kinds, fn, p, la[1], la[2])
    if isinstance(expr, ast.Call) and A.call_name(expr) in ("tuple", "list") and expr.args:
        return element_kind_of(ctx, kinds, fn, p, expr.args[0], upto)
    if isinstance(expr, (ast.GeneratorExp, ast.ListComp)):
        elt = expr.elt
        # comprehension targets: elements of dict-contract parameters are dictionaries
        gen = expr.generators[0]
        tnames = A.target_names(gen.target)
        it_kind = kinds.element_kind(gen.iter, upto) if not isinstance(gen.iter, ast.Name) else (
            DICT if gen.iter.id in kinds.dict_params else MAYBE)
        sub = Kinds(kinds.res, fn, p, dict_params=kinds.dict_params | (set(tnames) if it_kind == DICT else set()),
                    maybe_params=kinds.maybe_params, call_kinds=kinds.call_kinds)
        # names assigned from intersection(...) earlier on the path are dictionaries
        return sub.kind(elt, upto)
    return kinds.kind(expr, upto)


def check_fresh(ctx):
    res = ctx.res
    fn = ctx.tree.func(FN, "intersection")
    va = fn.args.vararg.arg if fn.args.vararg is not None else None
    if not ctx.require(va is not None, "C07-b", fn, "intersection has no *dicts parameter"):
        return
    rets = [r for r in A.walk_local(fn) if isinstance(r, ast.Return)]
    names = {A.src(r.value) for r in rets if isinstance(r.value, ast.Name)}
    others = [r for r in rets if not isinstance(r.value, ast.Name)]
    for r in others:
        ok = isinstance(r.value, ast.Dict) and not r.value.keys
        ctx.check("C07-b", ok, r, "intersection returns `%s`, which is neither the result under construction nor an empty dictionary"
                  % A.src(r.value), detail="returns a new empty dict")
    if not ctx.require(len(names) == 1, "C07-b", fn, "intersection: expected one result variable"):
        return
    rname = names.pop()
    assigns = [n for n in A.walk_local(fn) if isinstance(n, ast.Assign) and any(A.src(t) == rname for t in n.targets)]
    for a in assigns:
        ok = res.is_call_to(a.value, "copy.deepcopy") and A.src(a.value.args[0]) == "%s[0]" % va
        ctx.check("C07-b", ok, a, "intersection builds its result from `%s` instead of copy.deepcopy(%s[0]): the result shares "
                  "sub-objects with the first argument, so updating it changes that argument" % (A.src(a.value), va),
                  detail="result = deepcopy(first argument)")
    ctx.check("C07-b", len(assigns) >= 1, fn, "result variable is never assigned", detail="result assigned", construct="res-assign")
    stores = [n for n in A.walk_local(fn) if isinstance(n, ast.Assign)
              and any(isinstance(t, ast.Subscript) and A.src(t.value) == rname for t in n.targets)]
    for s in stores:
        v = s.value
        ok = (isinstance(v, ast.Call) and res.canon(v.func) == FN + ".intersection") or res.is_call_to(v, "copy.deepcopy")
        ctx.check("C07-b", ok, s, "intersection stores `%s` into its result: only recursive intersection results (fresh by induction) "
                  "or deep copies may be stored, never a sub-object of an argument" % A.src(v),
                  detail="stored item is a recursive intersection result")
    # the result is returned (not an argument)
    for r in rets:
        if isinstance(r.value, (ast.Subscript,)) or (isinstance(r.value, ast.Name) and r.value.id == va):
            ctx.violation("C07-b", r, "intersection returns an argument object")


UNCHANGED = {
    "intersection": None,           # all parameters
    "difference": ("d1", "d2"),
    "update_recursively": ("other",),
}


def check_pure(ctx):
    eff = Effects(ctx.res)
    for name, params in UNCHANGED.items():
        fn = ctx.tree.func(FN, name)
        mp = eff.mutated_params(fn)
        want = set(A.func_params(fn)) if params is None else set(params)
        if fn.args.kwarg is not None:
            want.discard(fn.args.kwarg.arg)     # the function's own keyword dictionary
        if name == "update_recursively":
            # `other = str_to_dict(other, value)` rebinds the name to a new object: stores through the new object are fine.
            pass
        bad = sorted(mp & want)
        ctx.check("C07-c", not bad, fn, "%s changes its argument(s) %s in place, which it documents as unchanged" % (name, ", ".join(bad)),
                  detail="%s does not mutate %s" % (name, sorted(want)), construct="mutates:%s" % ",".join(bad))
    for name in ("update_recursively", "update_nested"):
        fn = ctx.tree.func(FN, name)
        dname = "d"
        for n in A.walk_local(fn):
            destructive = None
            if isinstance(n, ast.Delete) and any(A.root_name(t) == dname for t in n.targets):
                destructive = n
            if isinstance(n, ast.Call) and isinstance(n.func, ast.Attribute) and n.func.attr in ("pop", "popitem", "clear") \
                    and A.root_name(n.func.value) == dname:
                destructive = n
            if destructive is not None:
                ctx.violation("C07-c", destructive, "%s removes items from d (`%s`): it must keep every item of d that other does not "
                              "overwrite" % (name, A.short(destructive, 50)))
        ctx.ok("C07-c", fn, "%s performs no destructive operation on d" % name)


def check_update_nested(ctx):
    fn = ctx.tree.func(FN, "update_nested")
    params = A.func_params(fn)
    if not ctx.require(params[:3] == ["key", "d", "other"], "C07-d", fn, "unexpected signature of update_nested"):
        return
    n = 0
    for p in P.paths_of(fn):
        final = [i for i, e in enumerate(p.ev) if e[0] == "stmt" and isinstance(e[1], ast.Assign)
                 and any(A.src(t) == "d[key]" for t in e[1].targets)]
        if p.end in ("raise", "loop"):     # "loop": cut at a back edge of `while True` -- not an exit of the function
            continue
        ctx.check("C07-d", len(final) == 1 and A.src(p.ev[final[0]][1].value) == "other", fn,
                  "update_nested does not finish by `d[key] = other` on path [%s]" % p.describe(),
                  detail="d[key] = other on path [%s]" % p.describe(), construct="final-store:" + p.describe(), path=p)
        if "key in d" in p.literal_srcs() and final:
            n += 1
            kept = False
            for e in p.ev[:final[0]]:
                if e[0] == "stmt" and isinstance(e[1], ast.Assign) and A.src(e[1].value) == "d[key]" and any(
                        isinstance(t, ast.Subscript) and A.src(t.slice) == "key" and A.root_name(t) != "d" for t in e[1].targets):
                    kept = True
            ctx.check("C07-d", kept, fn, "update_nested overwrites d[key] without first storing the previous d[key] under other's chain "
                      "[%s]: the old item is lost" % p.describe(), detail="old d[key] stored into other before the overwrite",
                      construct="keep-old", path=p)
    ctx.instances_floor("C07-d", n, 1, "paths of update_nested with key in d")
    inner = [x for x in ast.walk(fn) if isinstance(x, ast.FunctionDef) and x is not fn]
    if inner:
        g = inner[0]
        ok = any(isinstance(x, ast.Assign) and A.src(x.value) == "d[key]" and A.src(x.targets[0]) == "d" for x in ast.walk(g)) \
            and any(isinstance(x, ast.Return) and A.src(x.value) == "d" for x in ast.walk(g))
        ctx.check("C07-d", ok, g, "the helper does not descend other[key][key]... to the deepest level", detail="deepest nested level is found",
                  construct="descend")


def check_merge(ctx):
    res = ctx.res
    fn = ctx.tree.func(FN, "update_recursively")
    loops = [l for l in A.walk_local(fn) if isinstance(l, ast.For) and "other.items()" in A.src(l.iter)]
    if not ctx.require(len(loops) == 1 and isinstance(loops[0].target, ast.Tuple), "C07-e", fn, "loop over other.items() not found"):
        return
    loop = loops[0]
    k, v = [A.src(e) for e in loop.target.elts]
    n = 0
    for p in P.loop_body_paths(loop):
        lits = p.literal_srcs()
        stores = [e[1] for e in p.ev if e[0] == "stmt" and isinstance(e[1], ast.Assign) and any(A.src(t) == "d[%s]" % k for t in e[1].targets)]
        rec = [c for e in p.ev if e[0] == "stmt" for c in A.walk_local(e[1]) if isinstance(c, ast.Call) and res.canon(c.func) == FN + ".update_recursively"]
        isdict = "isinstance(%s, dict)" % v in lits
        present = "%s in d" % k in lits
        if isdict and present:
            n += 1
            okrec = len(rec) == 1 and A.src(rec[0].args[0]) == "d[%s]" % k and A.src(rec[0].args[1]) in ("other[%s]" % k, v)
            okstores = all(isinstance(s.value, ast.Dict) and not s.value.keys and "not isinstance(d[%s], dict)" % k in lits for s in stores)
            ctx.check("C07-e", okrec and okstores, loop, "update_recursively overwrites an existing d[%s] with a dictionary value instead of "
                      "merging into it [%s]: items of d that other does not mention are lost" % (k, p.describe()),
                      detail="existing key + dict value: recursion only [%s]" % p.describe(3), construct="merge:" + p.describe(3), path=p)
        elif not stores and not rec and p.end in ("fall", "continue"):
            ctx.violation("C07-e", loop, "update_recursively ignores an item of other on path [%s]: other would not be contained in d"
                          % p.describe(), construct="ignored:" + p.describe(), path=p)
        else:
            for s in stores:
                ctx.check("C07-e", A.src(s.value) == v, s, "update_recursively stores `%s` instead of the item's value" % A.src(s.value),
                          detail="d[%s] = %s [%s]" % (k, v, p.describe(2)), path=p)
    ctx.instances_floor("C07-e", n, 1, "merge paths")


def check_depth(ctx):
    """intersection(*dicts, level) must equal the pairwise fold with the same level, difference(d1, d2, level) must treat
    every key at the same depth: the depth counter may not change while the arguments / keys of one call are processed,
    and a nested dictionary is compared one level deeper -- exactly level - 1."""
    res = ctx.res
    n = 0
    for name in ("intersection", "difference"):
        fn = ctx.tree.func(FN, name)
        # the depth variable: the parameter `level`, or the local taken from kwargs.pop("level", ...)
        lv = None
        if "level" in A.func_params(fn):
            lv = "level"
        for st in A.walk_local(fn):
            if isinstance(st, ast.Assign) and len(st.targets) == 1 and isinstance(st.targets[0], ast.Name) and isinstance(st.value, ast.Call) \
                    and isinstance(st.value.func, ast.Attribute) and st.value.func.attr in ("pop", "get") and st.value.args \
                    and A.const(st.value.args[0]) == "level":
                lv = st.targets[0].id
        if not ctx.require(lv is not None, "C07-f", fn, "%s: the depth variable was not found" % name):
            continue
        for st in A.walk_local(fn):
            tg = []
            if isinstance(st, (ast.Assign, ast.AugAssign, ast.For)):
                tg = [t for t in A.assigned_targets(st) if lv in A.target_names(t)]
            if not tg:
                continue
            loop = A.enclosing(st, (ast.For, ast.While))
            ctx.check("C07-f", loop is None, st, "%s changes its depth counter inside a loop (`%s`): later arguments / keys of the same call "
                      "are compared at another depth than earlier ones, so the result depends on the order and the number of the "
                      "arguments (intersection(a, b, c) is no longer intersection(intersection(a, b), c))" % (name, A.short(st, 50)),
                      detail="%s: the depth counter is bound outside loops" % name, construct="level-rebound-in-loop:%s" % name)
        for c in A.walk_local(fn):
            if isinstance(c, ast.Call) and res.call_canon(c) == FN + "." + name:
                n += 1
                arg = A.kwarg(c, "level")
                if arg is None:
                    formal = A.func_params(fn)
                    if "level" in formal and len(c.args) > formal.index("level"):
                        arg = c.args[formal.index("level")]
                ok = arg is not None and isinstance(arg, ast.BinOp) and isinstance(arg.op, ast.Sub) and A.src(arg.left) == lv \
                    and A.is_const(arg.right, 1)
                ctx.check("C07-f", ok, c, "%s recurses with level `%s`, not `%s - 1`: nested dictionaries are compared at the wrong depth"
                          % (name, A.src(arg) if arg is not None else "<default>", lv), detail="%s recurses with level - 1" % name,
                          construct="level-arg:%s" % name)
    ctx.instances_floor("C07-f", n, 2, "recursive calls of intersection/difference")


HELPER_MODULES = ("lena.context.functions", "lena.flow.functions", "lena.core.functions", "lena.core.check_sequence_type",
                  "lena.math.meshes", "lena.structures.hist_functions")
MUTABLE_CTORS = ("builtins.dict", "builtins.list", "builtins.set", "collections.OrderedDict", "collections.defaultdict",
                 "collections.deque", "weakref.WeakValueDictionary", "weakref.WeakKeyDictionary")


def check_no_hidden_state(ctx):
    """The dictionary algebra and the value helpers are documented as functions of their arguments.  update_recursively
    stores the dictionary it gets from str_to_dict into the caller's context *by reference*: that is harmless exactly as
    long as every call builds a new one.  A module-level cache (or functools cache) breaks it for every caller at once."""
    res = ctx.res
    n_mod = 0
    for modname in HELPER_MODULES:
        mod = ctx.tree.module(modname)
        n_mod += 1
        containers = {}
        for st in mod.tree.body:
            if isinstance(st, ast.Assign) and len(st.targets) == 1 and isinstance(st.targets[0], ast.Name):
                v = st.value
                if isinstance(v, (ast.Dict, ast.List, ast.Set, ast.ListComp, ast.DictComp, ast.SetComp)) or \
                        (isinstance(v, ast.Call) and res.call_canon(v) in MUTABLE_CTORS):
                    if st.targets[0].id != "__all__":
                        containers[st.targets[0].id] = st
        used = False
        for fnmod, fn in ctx.tree.functions():
            if fnmod is not mod or isinstance(fn, ast.Lambda):
                continue
            own = set(A.func_params(fn)) | {n.id for n in A.walk_local(fn, include_self=False)
                                             if isinstance(n, ast.Name) and isinstance(n.ctx, ast.Store)}
            for n in A.walk_local(fn, include_self=False):
                if isinstance(n, ast.Name) and n.id in containers and n.id not in own:
                    used = True
                    ctx.violation("C07-g", n, "%s uses the module-level container `%s` of %s: results (or parts of them) are shared "
                                  "between calls -- update_recursively stores what str_to_dict returns into the caller's dictionary by "
                                  "reference, so an in-place update of one context shows up in every other context built from the same "
                                  "key" % (A.qualname(fn), n.id, modname), construct="module-state:%s.%s" % (modname.rsplit(".", 1)[-1], A.qualname(fn)))
                    break
            for d in getattr(fn, "decorator_list", []):
                c = res.canon(d.func if isinstance(d, ast.Call) else d)
                if c and (c.endswith("lru_cache") or c.endswith("functools.cache")):
                    used = True
                    ctx.violation("C07-g", d, "%s is memoised with %s: every caller receives the same result object" % (A.qualname(fn), c),
                                  construct="memoised:%s" % A.qualname(fn))
        if not used:
            ctx.ok("C07-g", (modname, "<module>"), "%s: no function reads or fills a module-level mutable container (%d such containers)" % (
                modname, len(containers)))
    ctx.instances_floor("C07-g", n_mod, 6, "shared helper modules")


def _nondict_or_unequal(t, pol, a, b):
    """Does the literal (t, pol) establish that a is not contained in b: one of them is not a dictionary, or a != b?"""
    if isinstance(t, ast.BoolOp) and isinstance(t.op, ast.Or) and pol:
        return all(_nondict_or_unequal(*x, a, b) for v in t.values for x in [A.strip_not(v)])
    if isinstance(t, ast.Call) and A.call_name(t) == "isinstance" and len(t.args) == 2 and A.src(t.args[1]) == "dict" \
            and A.src(t.args[0]) in (a, b):
        return pol is False
    if isinstance(t, ast.Compare) and len(t.ops) == 1 and {A.src(t.left), A.src(t.comparators[0])} == {a, b}:
        if isinstance(t.ops[0], ast.Eq):
            return pol is False
        if isinstance(t.ops[0], ast.NotEq):
            return pol is True
    return False


def check_contained_first(ctx):
    fn = ctx.tree.func(FN, "difference")
    params = A.func_params(fn)
    if not ctx.require(len(params) >= 2, "C07-h", fn, "difference: two positional parameters expected"):
        return
    a, b = params[0], params[1]
    n = 0
    for p in P.paths_of(fn):
        if p.end != "return":
            continue
        ret = [e[1] for e in p.ev if e[0] == "stmt" and isinstance(e[1], ast.Return)]
        if not ret or not (isinstance(ret[-1].value, ast.Name) and ret[-1].value.id == a):
            continue
        # a rebinding of the parameter makes the name something else
        if any(e[0] == "stmt" and a in [x for t in A.assigned_targets(e[1]) for x in A.target_names(t)] for e in p.ev):
            continue
        n += 1
        ok = any(_nondict_or_unequal(t, pol, a, b) for t, pol in p.literals())
        ctx.check("C07-h", ok, ret[-1], "difference returns %s itself on the path [%s], where nothing has established that %s is not "
                  "contained in %s: for equal arguments (difference(d, d, level=0)) every item of the result is contained in %s, "
                  "although the difference must be empty; the test %s == %s has to come before the depth exit"
                  % (a, p.describe(4), a, b, b, a, b), detail="`return %s` only after a non-dict or an inequality test [%s]" % (a, p.describe(3)),
                  construct="returns-d1-unchecked", path=p)
    ctx.instances_floor("C07-h", n, 2, "paths of difference returning its first argument")


def check_depth_exit(ctx):
    """difference(d1[key], d2[key], level - 1) with level == 1 does not compute a difference: it hands d1[key] back because the
    values differ and may not be compared deeper.  `if res:` then drops the key when d1[key] is an empty dictionary, although the
    docstring says "for level 1, if a key is present both in d1 and d2 but has different values, it is included"."""
    res_ = ctx.res
    fn = ctx.tree.func(FN, "difference")
    params = A.func_params(fn)
    if not ctx.require("level" in params, "C07-j", fn, "difference has no level parameter"):
        return
    n = 0
    seen = set()
    for p in P.paths_of(fn):
        # locals holding the result of a recursive call with level - 1
        rec = {}
        for i, e in enumerate(p.ev):
            if e[0] == "stmt" and isinstance(e[1], ast.Assign) and len(e[1].targets) == 1 and isinstance(e[1].targets[0], ast.Name) \
                    and isinstance(e[1].value, ast.Call) and res_.call_canon(e[1].value) == FN + ".difference":
                rec[e[1].targets[0].id] = i
            elif e[0] == "cond":
                for t in truth_tests(e[1]):
                    name = t.id if isinstance(t, ast.Name) else None
                    direct = isinstance(t, ast.Call) and res_.call_canon(t) == FN + ".difference"
                    if (name in rec and rec[name] < i) or direct:
                        if id(t) in seen:
                            continue
                        n += 1
                        lits = [(A.norm_src(x), pol) for x, pol in P.Path(p.ev[:i]).literals()]
                        ok = ("level == 1", False) in lits or ("level != 1", True) in lits or any(
                            s_ in ("level > 1", "level >= 2") and pol for s_, pol in lits)
                        if ok:
                            continue
                        seen.add(id(t))
                        ctx.violation("C07-j", t, "difference decides by the emptiness of the recursive result `%s` on a path [%s] that has "
                                      "not excluded level == 1: there the recursion (level 0) hands d1[key] back as it is, and an empty "
                                      "d1[key] that differs from d2[key] -- difference({'a': {}}, {'a': {'a': 0}}, level=1) -- is dropped "
                                      "although at that depth it is not contained in d2 (intersection drops it too, so the item is in "
                                      "neither part and d1 cannot be reconstructed)" % (A.src(t), P.Path(p.ev[:i]).describe(4)),
                                      construct="emptiness-of-depth-exit", path=P.Path(p.ev[:i + 1]))
    ctx.instances_floor("C07-j", n, 1, "emptiness tests on a recursive difference")
    if not seen:
        ctx.ok("C07-j", fn, "the recursive difference is tested for emptiness only where level != 1")


def check_opaque_value(ctx):
    fn = ctx.tree.func(FN, "str_to_dict")
    params = A.func_params(fn)
    if not ctx.require(len(params) == 2, "C07-i", fn, "str_to_dict(s, value) expected"):
        return
    val = params[1]
    # the statement(s) where the value joins a list
    joins = []
    for st in A.walk_local(fn):
        if isinstance(st, ast.Expr) and isinstance(st.value, ast.Call) and isinstance(st.value.func, ast.Attribute) \
                and st.value.func.attr in ("append", "extend", "insert") and isinstance(st.value.func.value, ast.Name) \
                and val in A.names_loaded(st.value):
            joins.append((st, st.value.func.value.id))
        elif isinstance(st, (ast.Assign, ast.AugAssign)) and val in A.names_loaded(st.value) and not isinstance(st.value, ast.Compare):
            for t in A.assigned_targets(st):
                if isinstance(t, ast.Name):
                    joins.append((st, t.id))
    if not ctx.require(len(joins) == 1, "C07-i", fn, "str_to_dict: the place where the value joins the keys was not identified (%d)" % len(joins)):
        return
    jst, lst = joins[0]
    inner = {f.name: f for f in A.walk_local(fn, include_self=False) if isinstance(f, ast.FunctionDef)}
    n = 0
    for p in P.paths_of(fn):
        idx = [i for i, e in enumerate(p.ev) if e[0] == "stmt" and e[1] is jst]
        if not idx:
            continue
        n += 1
        for e in p.ev[idx[0] + 1:]:
            node = e[1] if e[0] in ("stmt", "cond", "iter") else None
            if node is None or isinstance(node, (ast.FunctionDef, ast.ClassDef)):
                continue
            bad = None
            if e[0] == "stmt" and lst in [x for t in A.assigned_targets(node) for x in A.target_names(t)]:
                bad = "rebinds `%s`" % lst
            for c in A.walk_local(node):
                if isinstance(c, ast.Call) and isinstance(c.func, ast.Attribute) and A.src(c.func.value) == lst \
                        and c.func.attr in ("remove", "pop", "clear", "sort", "reverse"):
                    bad = "calls %s.%s()" % (lst, c.func.attr)
                if isinstance(c, ast.Delete) and any(A.root_name(t) == lst for t in c.targets):
                    bad = "deletes from `%s`" % lst
                if isinstance(c, (ast.ListComp, ast.GeneratorExp, ast.SetComp)) and any(lst in A.names_loaded(g.iter) for g in c.generators):
                    bad = "rebuilds `%s` element by element" % lst
                if isinstance(c, ast.Call) and A.call_name(c) in ("filter", "map") and any(lst in A.names_loaded(a) for a in c.args):
                    bad = "passes `%s` through %s()" % (lst, A.call_name(c))
            if e[0] == "cond":
                for c in ast.walk(node):
                    if isinstance(c, ast.Subscript) and A.root_name(c) == lst:
                        bad = "tests an element of `%s`" % lst
            if bad:
                ctx.violation("C07-i", node, "str_to_dict %s (`%s`) after the explicit value has joined it: a rule meant for the keys is "
                              "applied to the value, so update_recursively(d, 'a.b', '') (or 0, None, a dictionary ...) no longer makes "
                              "{'a': {'b': value}} contained in d" % (bad, A.short(node, 60)), construct="value-filtered", path=p)
    ctx.instances_floor("C07-i", n, 1, "paths of str_to_dict on which the value joins the keys")
    # the nested helper decides by the length of the list only
    n_c = 0
    for g in inner.values():
        gp = A.func_params(g)
        for c in A.walk_local(g, include_self=False):
            tests = []
            if isinstance(c, (ast.If, ast.While, ast.IfExp)):
                tests = [c.test]
            for t in tests:
                n_c += 1
                subs = [s for s in ast.walk(t) if isinstance(s, ast.Subscript) and A.root_name(s) in gp]
                ctx.check("C07-i", not subs, t, "%s, which nests the list of keys and the value, decides by the content of an element (`%s`): "
                          "the last element is the caller's value and must be stored whatever it is" % (g.name, A.short(t, 50)),
                          detail="%s branches on the length of the list only (`%s`)" % (g.name, A.short(t, 40)), construct="helper-tests-element")
    ctx.instances_floor("C07-i/helper", n_c, 1, "branches of the nesting helper")
    ctx.ok("C07-i", fn, "nothing filters, rebinds or tests the key list once the value is in it")


def check(ctx):
    check_no_hidden_state(ctx)
    check_contained_first(ctx)
    check_opaque_value(ctx)
    check_depth_exit(ctx)
    check_truthy(ctx)
    check_depth(ctx)
    check_fresh(ctx)
    check_pure(ctx)
    check_update_nested(ctx)
    check_merge(ctx)


VARIANTS = [
    M("str-to-dict-memo", "lena/context/functions.py", "def str_to_dict(s, value=_sentinel):", "_str_to_dict_cache = {}\n\n\ndef memo(s, d):\n    _str_to_dict_cache[s] = d\n    return d\n\n\ndef str_to_dict(s, value=_sentinel):", ["C07-g"]),
    M("intersection-level-per-argument", "lena/context/functions.py", "        to_delete = []\n        for key in res:\n            if key in d:\n                if d[key] != res[key]:\n                    if level == 1:\n                        to_delete.append(key)\n                    elif isinstance(res[key], dict) and isinstance(d[key], dict):\n                        res[key] = intersection(res[key], d[key], level=level-1)",
      "        level -= 1\n        to_delete = []\n        for key in res:\n            if key in d:\n                if d[key] != res[key]:\n                    if level == 0:\n                        to_delete.append(key)\n                    elif isinstance(res[key], dict) and isinstance(d[key], dict):\n                        res[key] = intersection(res[key], d[key], level=level)", ["C07-f"]),
    M("difference-level-kept", "lena/context/functions.py", "                res = difference(d1[key], d2[key], level-1)", "                res = difference(d1[key], d2[key], level)", ["C07-f"]),
    M("intersection-level-dropped", "lena/context/functions.py", "                        res[key] = intersection(res[key], d[key], level=level-1)", "                        res[key] = intersection(res[key], d[key])", ["C07-f"]),
    V("mutant", "revert-fix-difference-truthy", None, None, None, ["C07-a"], edits=[
        ("lena/context/functions.py", "            if (level != 1 and isinstance(d1[key], dict)\n                and isinstance(d2[key], dict)):\n                res = difference(d1[key], d2[key], level-1)",
         "            if level != 1:\n                res = difference(d1[key], d2[key], level-1)", 0)]),
    M("intersection-shallow", "lena/context/functions.py", "    res = copy.deepcopy(dicts[0])", "    res = copy.copy(dicts[0])", ["C07-b"]),
    M("intersection-stores-arg", "lena/context/functions.py", "                        res[key] = intersection(res[key], d[key], level=level-1)",
      "                        res[key] = d[key]", ["C07-b"]),
    M("difference-mutates", "lena/context/functions.py", "        if key not in d2:\n            result[key] = d1[key]",
      "        if key not in d2:\n            result[key] = d1[key]\n            d2[key] = None", ["C07-c"]),
    M("update-recursively-del", "lena/context/functions.py", "                if not isinstance(d[key], dict):\n                    d[key] = {}",
      "                if not isinstance(d[key], dict):\n                    del d[key]\n                    d[key] = {}", ["C07-c"]),
    M("update-recursively-overwrite", "lena/context/functions.py", "                update_recursively(d[key], other[key])\n", "                d[key] = val\n", ["C07-e"]),
    M("update-nested-loses-old", "lena/context/functions.py", "        other_most_nested[key] = d[key]\n", "        pass\n", ["C07-d"]),
    M("difference-get-none", "lena/context/functions.py", "        if key not in d2:\n            result[key] = d1[key]",
      "        if d2.get(key) is None:\n            result[key] = d1[key]", ["C07-a"]),
    M("revert-fix-difference-level-1", "lena/context/functions.py", "            if (level != 1 and isinstance(d1[key], dict)\n                and isinstance(d2[key], dict)):", "            if (isinstance(d1[key], dict)\n                and isinstance(d2[key], dict)):", ["C07-j"]),
    M("difference-depth-exit-first", "lena/context/functions.py", "    if d1 == d2:\n        return {}\n    elif level == 0:\n        return d1",
      "    if level == 0:\n        return d1\n    elif d1 == d2:\n        return {}", ["C07-h"]),
    M("str-to-dict-filters-after-value", "lena/context/functions.py", "        parts.append(value)\n", "        parts.append(value)\n    parts = [part for part in parts if part != \"\"]\n", ["C07-i"]),
    M("str-to-dict-helper-skips-falsy", "lena/context/functions.py", "        if len_l == 2:\n            d.update([(l[0], l[1])])", "        if len_l == 2 and l[1]:\n            d.update([(l[0], l[1])])", ["C07-i"]),
    TW("difference-unequal-spelled", "lena/context/functions.py", "    if d1 == d2:\n        return {}\n    elif level == 0:\n        return d1",
       "    if not d1 != d2:\n        return {}\n    if level == 0:\n        return d1"),
    TW("str-to-dict-filters-before-value", "lena/context/functions.py", "    parts = s.split(\".\")\n", "    parts = [x for x in s.split(\".\")]\n"),
    TW("difference-renamed-local", "lena/context/functions.py", "                res = difference(d1[key], d2[key], level-1)\n                # if d2[key] contains all d1[key] elements,\n                # the difference will be empty\n                if res:\n                    result[key] = res",
       "                sub = difference(d1[key], d2[key], level-1)\n                if sub:\n                    result[key] = sub"),
]
