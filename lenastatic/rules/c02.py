"""C02 -- evaluation is lazy: demand-driven consumption and bounded buffering."""
import ast

from .. import astutil as A
from .. import paths as P
from ..lazy import FlowAnalyser, GROW_METHODS, carried_names, in_loop_body
from ..loader import methods
from ..selftest.runner import M, TW, V
from . import common as K

PROPERTY = "C02"
EXPLANATION = (
    "Flow-consumption analysis of the streaming elements the property names.  Every use of the input iterator (and "
    "of every lazy view derived from it: iter, flow_to_iter, islice, chain, zip, generator expressions, another "
    "element's run, generator methods of the tree -- followed through nested functions, lambdas stored in "
    "attributes and method values) is classified as pull-loop / pull-one / eager / bounded / drain / lazy view.  "
    "Decided: (a) a run/call that is not a generator function consumes nothing when it is called and returns a lazy "
    "view; (b) a generator run pulls only at `for x in flow` heads and by next() outside them, never two values per "
    "iteration, yields inside its pull loop, puts no pulled value into a container that outlives the iteration, and "
    "carries at most the documented number of pulled values over the back edge (Count: 1, everything else: 0); "
    "(c) Split.run has exactly one pull site, list(islice(flow, self._bufsize)) with _bufsize set only from the "
    "constructor parameter, it precedes every yield of the block loop, the block is not carried over (no prefetch) "
    "and the flow escapes nowhere else; (d) every container of the negative Slice that receives flow values is a "
    "deque whose maxlen resolves to -start/-stop, whole-flow drains are such deques only, and the lagging loops are "
    "one-out-one-in per pulled value; (e) the constructors of the sequence classes call no data-protocol method of "
    "the elements they are given; (f) the callables of the vocabulary (Variable, Print, Context, UpdateContext, "
    "MakeFilename) are driven by Run._call_run or have a lazy run of their own.  Every other run method of the tree "
    "is only censused.  Does not decide termination of a concrete pipeline with user elements, nor the exact lag "
    "arithmetic."    " Added after the eighth round of seeded changes and the second round of behaviour-preserving changes: deque(it, maxlen=0) is read as the consume idiom; functools.reduce(f, elements, flow) with f wrapping its first argument is read as the lazy left fold."
)
RULES = {
    "C02-a": "LAZY/call time: a non-generator run consumes nothing when called and returns a lazy view",
    "C02-b": "LAZY/pull discipline: pulls only at loop heads/next(), one per iteration, yield inside the loop, no growing container, bounded look-ahead",
    "C02-c": "Split.run: one bounded pull site per block, before every yield, no prefetch, no escape of the flow",
    "C02-d": "negative Slice: only deques bounded by -start/-stop hold flow values; one-out-one-in lag",
    "C02-e": "no work at build time: constructors call no run/fill/compute/request/__call__ of their elements",
    "C02-f": "vocabulary callables are driven by Run._call_run or stream themselves; census of all run methods",
}

# (module, qualname, parameters holding the flow, look-ahead allowed); an empty list = the function has no flow
# parameter: the locals holding a flow it produces itself are derived from its code (produced_flow_names)
TABLE = [
    ("lena.core.functions", "flow_to_iter", ["flow"], 0),
    ("lena.core.sequence", "Sequence.run", ["flow"], 0),
    ("lena.core.source", "Source.__call__", [], 0),
    ("lena.core.adapters", "Run._call_run", ["flow"], 0),
    ("lena.flow.filter", "Filter.run", ["flow"], 0),
    ("lena.flow.iterators", "Slice.run", ["flow"], 0),
    ("lena.flow.elements", "Count.run", ["flow"], 1),
    ("lena.flow.elements", "RunIf.run", ["flow"], 0),
    ("lena.core.split", "Split._empty_run", ["flow"], 0),
    ("lena.flow.cache", "Cache.run", ["flow"], 0),
    ("lena.flow.cache", "Cache._dump_flow_and_yield", ["flow"], 0),
    ("lena.core.fill_compute_seq", "FillComputeSeq.compute", [], 0),
    ("lena.core.fill_request_seq", "FillRequestSeq.request", [], 0),
]
LOOKAHEAD_DOC = {"Count.run": "Count yields the previous value so that it can attach the total to the last one (documented)"}
CONSTRUCTORS = [
    ("lena.core.sequence", "Sequence.__init__"),
    ("lena.core.source", "Source.__init__"),
    ("lena.core.split", "Split.__init__"),
    ("lena.core.split", "_get_seq_with_type"),
    ("lena.core.lena_sequence", "LenaSequence.__init__"),
    ("lena.core.fill_seq", "FillSeq.__init__"),
    ("lena.core.fill_compute_seq", "FillComputeSeq.__init__"),
    ("lena.core.fill_compute_seq", "_init_sequence_with_el"),
    ("lena.core.fill_request_seq", "FillRequestSeq.__init__"),
    ("lena.core.adapters", "Run.__init__"),
    ("lena.flow.elements", "RunIf.__init__"),
    ("lena.flow.filter", "Filter.__init__"),
]
PROTOCOL = ("run", "fill", "fill_into", "compute", "request", "__call__", "__next__", "next", "__iter__")
CALLED_PARAM_EXCEPTIONS = {
    ("_init_sequence_with_el", "check_el_type"): "framework predicate (is_fill_compute_el / is_fill_request_el) passed "
                                                 "by the two sequence classes, not an element",
}
VOCABULARY = [("lena.variables.variable", "Variable"), ("lena.flow.print_", "Print"), ("lena.context.context", "Context"),
              ("lena.context.update_context", "UpdateContext"), ("lena.output.make_filename", "MakeFilename")]
EAGER_DOCUMENTED = {
    "Reverse.run": "documented: will consume the whole flow",
    "Progress.run": "documented: consumes the flow, then yields",
    "End.run": "documented: exhausts the flow and yields nothing",
    "Run._fc_run": "documented: fill for the whole flow, then compute",
    "GroupPlots.run": "groups need the whole flow",
    "WriteROOTTree.run": "writes the whole flow into a tree, then yields the file",
    "FillRequest._run_fill_compute": "block-wise adapter (C16)",
    "FillRequest._run_run": "block-wise adapter (C16)",
}


def consumed_kinds():
    return ("pull-loop", "pull-one", "eager", "bounded", "drain")


# -- spelling-independent views -------------------------------------------------------------------
def inplace_update(st):
    """(target, op, value) when the statement *st* computes the new value of a target from its old value
    and one more operand: `T op= E`, the equivalent `T = T op E`, and -- for a local name and the
    operators + * | & ^ -- `x = E op x`; else None."""
    if not isinstance(st, (ast.Assign, ast.AugAssign)):
        return None
    aa = A.as_augassign(st)
    if aa is not None:
        return aa
    if isinstance(st, ast.Assign) and len(st.targets) == 1 and isinstance(st.targets[0], ast.Name) \
            and isinstance(st.value, ast.BinOp) and isinstance(st.value.op, (ast.Add, ast.Mult, ast.BitOr, ast.BitAnd, ast.BitXor)) \
            and isinstance(st.value.right, ast.Name) and st.value.right.id == st.targets[0].id:
        return st.targets[0], st.value.op, st.value.left
    return None


def accumulation(st):
    """(name, op, value) when *st* is an in-place update (see inplace_update) of a local name; else None."""
    up = inplace_update(st)
    if up is not None and isinstance(up[0], ast.Name):
        return up[0].id, up[1], up[2]
    return None


def pulled_taint(fn, seeds, loop=None, accumulations=True):
    """Local names whose value derives from the pulled values *seeds* (names) by plain assignments /
    unpacking / for-iteration / in-place updates, inside *loop* (or the whole function).  `x op= e` and
    `x = x op e` are one construct: with accumulations=True both taint x when e is tainted (x then holds
    something made of pulled values over the back edge); with accumulations=False both are left out
    (the names that are pulled values *themselves*, not collections or sums of them)."""
    tainted = set(seeds)
    body = loop.body if loop is not None else fn.body
    changed = True
    while changed:
        changed = False
        for n in A.walk_body(body):
            names = ()
            acc = accumulation(n)
            if acc is not None:
                if accumulations and (A.names_loaded(acc[2]) & tainted):
                    names = [acc[0]]
            elif isinstance(n, ast.Assign):
                if A.names_loaded(n.value) & tainted:
                    names = [nm for t in n.targets if isinstance(t, (ast.Name, ast.Tuple, ast.List)) for nm in A.target_names(t)]
            elif isinstance(n, (ast.For, ast.AsyncFor)) and n is not loop:
                if A.names_loaded(n.iter) & tainted:
                    names = A.target_names(n.target)
            for nm in names:
                if nm not in tainted:
                    tainted.add(nm)
                    changed = True
    return tainted


def returned_values(fn, ret):
    """The expressions a `return` statement can deliver: a returned local name stands for the value of its
    last plain assignment on each path that reaches the return (`_r = list(x); return _r` delivers
    `list(x)`); anything else stands for itself."""
    if not isinstance(ret.value, ast.Name):
        return [ret.value]
    out = []
    for p in P.paths_of(fn):
        end = p.index(ret)
        if end < 0:
            continue
        v, upto, hops = ret.value, end, 0
        while isinstance(v, ast.Name) and hops < 6:
            hops += 1
            at = None
            for i, e in enumerate(p.ev[:upto]):
                if e[0] == "stmt" and v.id in [x for t in A.assigned_targets(e[1]) for x in A.target_names(t)]:
                    at = i if isinstance(e[1], ast.Assign) and len(e[1].targets) == 1 and isinstance(e[1].targets[0], ast.Name) else None
                elif e[0] in ("iter", "partial") and v.id in [x for t in A.assigned_targets(e[1]) for x in A.target_names(t)]:
                    at = None
            if at is None:
                break
            v, upto = p.ev[at][1].value, at
        if not any(v is o for o in out):
            out.append(v)
    return out or [ret.value]


def produced_flow_names(fn):
    """Locals of *fn* that hold a flow the function produces itself and hands on: the non-parameter
    names that reach a returned expression through `x = <expr>` assignments and that are bound from a
    call (`x = f(...)`, `x = obj.run(y)`) or are aliases of such names.  A local that only copies an
    attribute (`first = self._first`) is a stored object, not a flow produced here.  Independent of
    what the locals are called."""
    params = set(A.func_params(fn))
    defs = {}
    for st in A.walk_local(fn, include_self=False):
        if isinstance(st, ast.Assign) and len(st.targets) == 1 and isinstance(st.targets[0], ast.Name) \
                and st.targets[0].id not in params:
            defs.setdefault(st.targets[0].id, []).append(st.value)
    reach = set()
    work = []
    for r in A.walk_local(fn, include_self=False):
        if isinstance(r, ast.Return) and r.value is not None:
            work.extend(sorted(A.names_loaded(r.value) & set(defs)))
    while work:
        nm = work.pop()
        if nm in reach:
            continue
        reach.add(nm)
        for v in defs[nm]:
            work.extend(sorted(A.names_loaded(v) & set(defs)))
    produced = set()
    changed = True
    while changed:
        changed = False
        for nm in reach - produced:
            if any(isinstance(v, ast.Call) or (isinstance(v, ast.Name) and v.id in produced) for v in defs[nm]):
                produced.add(nm)
                changed = True
    return sorted(produced)


def flow_names_of(ctx, fn, qual, names):
    params = A.func_params(fn)
    out = [n for n in names if n in params]
    if out:
        return out
    # locals holding a flow produced inside the function (Source.__call__, compute/request)
    out = produced_flow_names(fn)
    if not out:
        ctx.unknown("C02-a", fn, "%s: no parameter of the table (%s) and no local bound from a call reaches a return: the "
                    "analyser does not know which names hold the flow" % (qual, ", ".join(names) or "-"))
    return out


def check_nongen(ctx, fa, fn, qual, names, rule="C02-a"):
    uses = fa.uses(fn, names)
    ok = True
    for u in uses:
        if u.kind in consumed_kinds():
            ok = False
            ctx.violation(rule, u.node, "%s is not a generator function, so `%s` runs when %s is *called*: building/starting the "
                          "pipeline already consumes the input (%s)" % (qual, A.short(u.node if not isinstance(u.node, ast.For) else u.node.iter, 60),
                                                                     qual.split(".")[-1], u.describe()),
                          construct="calltime:%s:%s" % (u.kind, A.short(u.node if not isinstance(u.node, ast.For) else u.node.iter, 80)))
        elif u.kind == "unknown":
            ok = False
            ctx.unknown(rule, u.node, "%s: %s (%s)" % (qual, u.detail, A.short(u.node, 60)))
        elif u.kind == "store-self":
            ok = False
            ctx.unknown(rule, u.node, "%s stores the flow in an attribute: %s" % (qual, u.detail))
    if ok:
        ctx.ok(rule, fn, "%s: %d use(s) of the flow, all lazy views handed on (%s)" % (
            qual, len(uses), ", ".join(sorted({u.kind for u in uses})) or "none"))
    # every returned expression is a lazy view, not a materialised container
    rets = [r for r in A.walk_local(fn) if isinstance(r, ast.Return) and r.value is not None] if not isinstance(fn, ast.Lambda) else []
    for r in rets:
        # what the return delivers, whether it is written `return f(x)` or `tmp = f(x); return tmp`
        vals = returned_values(fn, r)
        mat = [v for v in vals if isinstance(v, (ast.List, ast.ListComp, ast.Tuple, ast.Set, ast.SetComp, ast.Dict, ast.DictComp)) or (
            isinstance(v, ast.Call) and ctx.res.canon(v.func) in ("builtins.list", "builtins.tuple", "builtins.sorted", "builtins.set"))]
        v = mat[0] if mat else vals[0]
        ctx.check(rule, not mat, r, "%s returns the materialised container `%s` instead of a lazy iterator" % (qual, A.short(v, 60)),
                  detail="%s returns a lazy view: %s" % (qual, A.short(v, 60)),
                  construct=None if v is r.value else "return %s" % A.short(v, 153))
    return uses


def pull_loops(uses):
    return [u.node for u in uses if u.kind == "pull-loop"]


def check_stream(ctx, fa, fn, qual, names, lookahead, rule="C02-b", allow=()):
    """Generator function that streams its input."""
    uses = fa.uses(fn, names)
    loops = pull_loops(uses)
    bad = False
    for u in uses:
        k = u.kind
        desc = A.short(u.node if not isinstance(u.node, ast.For) else u.node.iter, 70)
        if k in ("eager", "drain") and k not in allow:
            bad = True
            ctx.violation(rule, u.node, "%s consumes its whole input before it can yield anything: %s%s" % (
                qual, u.describe(), (" -- " + u.detail) if u.detail else ""), construct="%s:%s" % (k, desc))
        elif k == "bounded" and "bounded" not in allow:
            bad = True
            ctx.violation(rule, u.node, "%s reads a block of input ahead of what it yields: %s (the property allows %d value(s) "
                          "of look-ahead here)" % (qual, u.describe(), lookahead), construct="bounded:%s" % desc)
        elif k == "unknown":
            bad = True
            ctx.unknown(rule, u.node, "%s: %s (%s)" % (qual, u.detail, desc))
        elif k == "store-self":
            bad = True
            ctx.unknown(rule, u.node, "%s stores the flow in an attribute: %s" % (qual, u.detail))
        elif k == "pull-one":
            inside = [l for l in loops if in_loop_body(u.node, l)]
            if inside:
                bad = True
                ctx.violation(rule, u.node, "%s pulls a second value (`%s`) inside the loop that already pulls one per iteration: "
                              "it reads further ahead than the result it yields needs" % (qual, desc), construct="pull2:%s" % desc)
        elif k == "pull-loop":
            outer = [l for l in loops if l is not u.node and in_loop_body(u.node, l)]
            if outer:
                bad = True
                ctx.violation(rule, u.node, "%s drains the flow in a nested loop `for ... in %s` inside its per-value loop" % (qual, desc),
                              construct="nested-pull:%s" % desc)
    if not bad:
        ctx.ok(rule, fn, "%s: the flow is consumed only by %s" % (qual, ", ".join(
            "%d %s" % (sum(1 for u in uses if u.kind == k), k) for k in sorted({u.kind for u in uses if u.kind in consumed_kinds()})) or "nothing"))
    # streaming loops
    for loop in loops:
        has_yield = any(isinstance(n, (ast.Yield, ast.YieldFrom)) for n in A.walk_body(loop.body))
        if "drain-loop" in allow:
            pass
        else:
            ctx.check(rule, has_yield, loop, "%s: the loop `for %s in %s` consumes the whole flow without yielding inside it; results "
                      "appear only after the input is exhausted" % (qual, A.src(loop.target), A.short(loop.iter, 40)),
                      detail="%s: yields inside its pull loop" % qual, construct="drain-loop:%s" % A.short(loop.iter, 60))
        seeds = set(A.target_names(loop.target))
        for u in uses:
            if u.kind == "pull-one":
                st = A.enclosing(u.node, (ast.stmt,))
                if isinstance(st, ast.Assign):
                    for t in st.targets:
                        seeds.update(A.target_names(t))
        tainted = pulled_taint(fn, seeds, loop)
        check_growing(ctx, fn, qual, loop, tainted, rule, own=pulled_taint(fn, seeds, loop, accumulations=False))
        body_paths = P.loop_body_paths(loop)
        carried = carried_names(loop, body_paths, fn)
        held = sorted(n for n in carried if n in tainted)
        # a name read after the loop that is assigned in the loop from a pulled value is also live across iterations,
        # but holds only the last value: it is the same object as one of the carried ones or the current one
        ctx.check("C02-b'", len(held) <= lookahead, loop if not held else carried[held[0]][0],
                  "%s keeps %d pulled value(s) across iterations (%s) but the property allows %d: after k results it has pulled "
                  "more than the shortest prefix that determines them" % (qual, len(held), ", ".join(held), lookahead),
                  detail="%s: %d pulled value(s) carried over the back edge (%s), %d allowed%s" % (
                      qual, len(held), ", ".join(held) or "-", lookahead,
                      (": " + LOOKAHEAD_DOC[qual]) if qual in LOOKAHEAD_DOC else ""),
                  construct="lookahead:%s" % ",".join(held))
    return uses


def deque_maxlen(value, scope):
    """maxlen expression if *value* constructs a bounded deque (directly or through a
    nested helper whose every return is such a deque); None = unbounded deque; False = not a deque."""
    if not isinstance(value, ast.Call):
        return False
    if A.call_name(value) == "deque":
        ml = A.kwarg(value, "maxlen")
        if ml is None and len(value.args) >= 2:
            ml = value.args[1]
        return ml
    if isinstance(value.func, ast.Name):
        helpers = [d for d in ast.walk(scope) if isinstance(d, ast.FunctionDef) and d.name == value.func.id and d is not scope]
        if len(helpers) == 1:
            h = helpers[0]
            rets = [r for r in A.walk_local(h) if isinstance(r, ast.Return)]
            if rets and all(isinstance(r.value, ast.Name) for r in rets):
                outs = [container_origin(h, None, r.value.id) for r in rets]
                if all(o is not None and o[0] == "deque" for o in outs):
                    return outs[0][1]
    return False


def container_origin(fn, loop, name):
    """How a local container is created: ('deque', maxlen_expr) | ('in-iteration',) | ('outside', value) | None"""
    if loop is not None:
        fn = A.enclosing_func(loop) or fn
    stores = []
    for n in A.walk_local(fn, include_self=False):
        if isinstance(n, ast.Name) and n.id == name and isinstance(n.ctx, ast.Store):
            stores.append(n)
    if not stores:
        return None
    inside = [s for s in stores if loop is not None and in_loop_body(s, loop)]
    vals = []
    for s in stores:
        st = A.parent(s)
        vals.append(st.value if isinstance(st, ast.Assign) and len(st.targets) == 1 and st.targets[0] is s else None)
    top = fn
    while A.enclosing_func(top) is not None:
        top = A.enclosing_func(top)
    deq = [deque_maxlen(v, top) for v in vals]
    if all(d is not False and d is not None for d in deq):
        return ("deque", deq[0])
    if inside and len(inside) == len(stores):
        return ("in-iteration",)
    return ("outside", vals[0])


def check_growing(ctx, fn, qual, loop, tainted, rule, own=None):
    """*tainted*: the names made of pulled values; *own*: those of them that are pulled values themselves
    (changing one of these is changing the value, not collecting values)."""
    own = tainted if own is None else own
    found = False
    for n in A.walk_body(loop.body):
        target = None
        what = None
        up = inplace_update(n)
        if isinstance(n, ast.Call) and isinstance(n.func, ast.Attribute) and n.func.attr in GROW_METHODS:
            args = list(n.args) + [k.value for k in n.keywords]
            if any(A.names_loaded(a) & tainted for a in args):
                target, what = n.func.value, "%s(...)" % n.func.attr
        elif isinstance(n, ast.Subscript) and isinstance(n.ctx, ast.Store):
            st = A.enclosing(n, (ast.stmt,))
            val = getattr(st, "value", None)
            if val is not None and (A.names_loaded(val) & tainted):
                target, what = n.value, "item store"
        elif up is not None and isinstance(up[1], ast.Add) and (A.names_loaded(up[2]) & tainted) \
                and isinstance(up[2], (ast.List, ast.Tuple)):
            target, what = up[0], "+= [...]"      # also when it is written `x = x + [...]`
        if target is None:
            continue
        root = A.root_name(target)
        if root is None:
            continue
        if root in own and root != "self":
            continue   # changing the pulled value itself (its context), not collecting values
        if root == "self":
            found = True
            ctx.violation(rule, n, "%s collects pulled values in `%s` (%s) for every value of the flow: the element keeps its whole "
                          "input alive instead of streaming it" % (qual, A.short(target, 40), what), construct="grow:%s" % A.short(target, 60))
            continue
        origin = container_origin(fn, loop, root)
        if origin is None or origin[0] == "in-iteration":
            continue
        if origin[0] == "deque":
            continue   # bounded by maxlen (its bound is judged by C02-d where the property states one)
        found = True
        ctx.violation(rule, n, "%s collects pulled values in `%s` (%s), created outside the per-value loop: the container grows "
                      "with the flow (unbounded buffering)" % (qual, root, what), construct="grow:%s" % root)
    if not found:
        ctx.ok(rule, loop, "%s: no pulled value is put into a container that outlives the iteration" % qual)


# ---------------------------------------------------------------------------------------------
def check_table(ctx, fa):
    n = 0
    analysed = set()
    for modname, qual, names, lookahead in TABLE:
        fn = ctx.tree.func(modname, qual)
        n += 1
        analysed.add(fn)
        if A.is_generator(fn):
            check_stream(ctx, fa, fn, qual, flow_names_of(ctx, fn, qual, names), lookahead)
        else:
            uses = check_nongen(ctx, fa, fn, qual, flow_names_of(ctx, fn, qual, names))
            # generator methods it hands the flow to are streaming functions of the table too
            for u in uses:
                if u.kind == "gen-call":
                    for cal in fa.callee_nodes(u.node):
                        if cal is not None and cal not in analysed and not isinstance(cal, ast.Lambda) \
                                and A.qualname(cal) != "Slice._run_negative_islice":
                            analysed.add(cal)
                            params = [p for p in A.func_params(cal) if p != "self"]
                            check_stream(ctx, fa, cal, A.qualname(cal), params[:1], 0)
    # the lambdas Slice.__init__ installs as run / _islice
    init = ctx.tree.func("lena.flow.iterators", "Slice.__init__")
    lambdas = [l for l in ast.walk(init) if isinstance(l, ast.Lambda) and isinstance(A.parent(l), ast.Assign)
               and any(A.is_self_attr(t) and t.attr in ("run", "_islice") for t in A.parent(l).targets)]
    for lam in lambdas:
        n += 1
        check_nongen(ctx, fa, lam, "Slice.__init__:<lambda %s>" % A.src(A.parent(lam).targets[0]), A.func_params(lam)[:1])
    # every value bound to self.run in Slice.__init__ is such a lambda
    for st in A.walk_local(init):
        if isinstance(st, ast.Assign) and any(A.is_self_attr(t, "run") for t in st.targets):
            ctx.check("C02-a", isinstance(st.value, ast.Lambda), st, "Slice.__init__ binds run to `%s`, which the analyser cannot "
                      "show to be lazy" % A.short(st.value, 50), detail="Slice.run override is an analysed lambda")
    ctx.instances_floor("C02-a/b", n, 16, "functions and lambdas of the streaming vocabulary")
    return analysed


def check_split(ctx, fa):
    rule = "C02-c"
    fn = ctx.tree.func("lena.core.split", "Split.run")
    uses = [u for u in fa.uses(fn, ["flow"]) if u.kind not in ("alias", "test")]
    pulls = [u for u in uses if u.kind in consumed_kinds()]
    for u in uses:
        if u.kind == "unknown" or u.kind == "store-self":
            ctx.unknown(rule, u.node, "Split.run: %s" % u.detail)
        elif u.kind in ("return", "yield-from", "gen-call"):
            ctx.violation(rule, u.node, "Split.run hands the flow itself on (`%s`): the block discipline no longer bounds what is read"
                          % A.short(u.node, 60), construct="escape:%s" % A.short(u.node, 60))
    if not ctx.check(rule, len(pulls) == 1, fn if not pulls else pulls[-1].node,
                     "Split.run reads its input at %d places (%s); the documented schedule has exactly one read per block" % (
                         len(pulls), "; ".join(u.describe() for u in pulls)),
                     detail="exactly one pull site", construct="pull-sites:%d" % len(pulls)):
        if not pulls:
            return
    pull = pulls[0]
    ok = pull.kind == "bounded" and pull.bound is not None and A.src(pull.bound) == "self._bufsize"
    ctx.check(rule, ok, pull.node, "Split.run reads `%s`: the block must be list(islice(flow, self._bufsize)), at most bufsize values"
              % pull.describe(), detail="the pull is list(islice(flow, self._bufsize))", construct="pull:%s" % A.short(pull.node, 80))
    # _bufsize is set from the constructor parameter only
    cls = ctx.tree.cls("lena.core.split", "Split")
    stores = []
    for m in methods(cls).values():
        for st in A.walk_local(m):
            if isinstance(st, (ast.Assign, ast.AugAssign)) and any(A.is_self_attr(t, "_bufsize") for t in A.assigned_targets(st)):
                stores.append((m, st))
    okb = len(stores) == 1 and stores[0][0].name == "__init__" and isinstance(stores[0][1], ast.Assign) \
        and A.src(stores[0][1].value) == "bufsize" and "bufsize" in A.func_params(stores[0][0])
    ctx.check(rule, okb, stores[0][1] if stores else cls, "Split._bufsize is not simply the constructor parameter bufsize (%s): the "
              "block size the user asked for is not the one used" % "; ".join("%s: %s" % (m.name, A.src(s)) for m, s in stores),
              detail="_bufsize = bufsize in __init__ only", construct="bufsize-store")
    # the pull statement is in the block loop; it precedes every yield on every path through the loop body
    st = A.enclosing(pull.node, (ast.stmt,))
    loop = A.enclosing(st, (ast.While, ast.For))
    if not ctx.require(loop is not None and A.enclosing(loop, (ast.While, ast.For)) is None, rule, st,
                       "Split.run: the pull is not in a top-level block loop"):
        return
    if not ctx.require(isinstance(st, ast.Assign) and len(st.targets) == 1 and isinstance(st.targets[0], ast.Name), rule, st,
                       "Split.run: the pulled block is not assigned to a local name"):
        return
    bufname = st.targets[0].id
    body_paths = P.loop_body_paths(loop)
    n = 0
    for p in body_paths:
        i = p.index(st)
        ys = p.yields()
        if i < 0:
            if ys or p.end in ("fall", "continue"):
                ctx.violation(rule, loop, "Split.run: a path through the block loop [%s] does not read a block" % p.describe(),
                              construct="no-pull:" + p.describe(3), path=p)
            continue
        n += 1
        early = [y for j, y in ys if j < i]
        if early:
            ctx.violation(rule, early[0], "Split.run yields before the block is read on path [%s]" % p.describe(), path=p)
    ctx.instances_floor(rule + "/paths", n, 10, "paths through the block loop that read a block")
    ctx.ok(rule, loop, "on %d paths through the block loop the read precedes every yield" % n)
    # no prefetch: nothing derived from the block is carried over the back edge
    tainted = pulled_taint(fn, {bufname}, loop)
    carried = carried_names(loop, body_paths, fn)
    held = sorted(x for x in carried if x in tainted)
    ctx.check(rule, not held, loop if not held else carried[held[0]][0], "Split.run carries input values over to the next block "
              "(%s): it holds more than bufsize unprocessed values / has read the next block before the results of this one were "
              "handed downstream" % ", ".join(held), detail="no block-derived value is loop-carried (%d names derive from the block)"
              % len(tainted), construct="prefetch:%s" % ",".join(held))
    check_growing(ctx, fn, "Split.run", loop, tainted, rule, own=pulled_taint(fn, {bufname}, loop, accumulations=False))
    # the loop is left only when the read returned nothing
    for p in body_paths:
        if p.end == "break":
            lits = p.literal_srcs()
            ctx.check(rule, "not %s" % bufname in lits, loop, "Split.run leaves the block loop on a path [%s] that does not test the "
                      "block for emptiness" % p.describe(), detail="the block loop ends only on an empty read", path=p,
                      construct="break:" + p.describe(3))
    # Split.__call__ chains the sources lazily
    call = ctx.tree.func("lena.core.split", "Split.__call__")
    ctx.check(rule, A.is_generator(call) and not any(
        isinstance(c, ast.Call) and ctx.res.canon(c.func) in ("builtins.list", "builtins.tuple", "builtins.sorted")
        for c in A.walk_local(call)), call, "Split.__call__ materialises the output of its sources", detail="Split.__call__ streams "
        "its sources one after the other")


CTOR_ATTRS = {"_start": "start", "_stop": "stop", "_step": "step"}


def ctor_locals(fn):
    """{local name: 'start' | 'stop' | 'step'} for the locals of *fn* that are bound exactly once, by a
    top-level statement of its body, from self._start / self._stop / self._step (singly or by a tuple
    assignment): whatever the code calls them, they are the constructor's values."""
    cand = {}
    for st in A.body_wo_doc(fn):
        if not isinstance(st, ast.Assign) or len(st.targets) != 1:
            continue
        t, v = st.targets[0], st.value
        if isinstance(t, (ast.Tuple, ast.List)) and isinstance(v, (ast.Tuple, ast.List)) and len(t.elts) == len(v.elts) \
                and not any(isinstance(e, ast.Starred) for e in list(t.elts) + list(v.elts)):
            pairs = list(zip(t.elts, v.elts))
        else:
            pairs = [(t, v)]
        for tt, vv in pairs:
            if isinstance(tt, ast.Name) and A.is_self_attr(vv) and vv.attr in CTOR_ATTRS:
                cand[tt.id] = CTOR_ATTRS[vv.attr]
    out = {}
    rebound = {nm for n in ast.walk(fn) if isinstance(n, (ast.Nonlocal, ast.Global)) for nm in n.names}
    for name, what in cand.items():
        stores = [n for n in A.walk_local(fn, include_self=False) if isinstance(n, ast.Name) and n.id == name
                  and isinstance(n.ctx, (ast.Store, ast.Del))]
        if len(stores) == 1 and name not in A.func_params(fn) and name not in rebound:
            out[name] = what
    return out


def neg_bound(fn, expr, ctor):
    """'-start' / '-stop' / '-self._start' / '-self._stop' if *expr* is the negation of a constructor
    value (the attribute itself or a local of *fn* that ctor_locals identified), else None."""
    if not (isinstance(expr, ast.UnaryOp) and isinstance(expr.op, ast.USub)):
        return None
    op = expr.operand
    if A.is_self_attr(op) and op.attr in ("_start", "_stop"):
        return "-self." + op.attr
    if isinstance(op, ast.Name) and ctor.get(op.id) in ("start", "stop"):
        # the name must be the local of fn, not a parameter/local of a nested helper that shadows it
        sc = A.enclosing_func(op)
        while sc is not None and sc is not fn:
            if op.id in A.func_params(sc) or any(isinstance(n, ast.Name) and n.id == op.id and isinstance(n.ctx, ast.Store)
                                                  for n in A.walk_local(sc, include_self=False)):
                return None
            sc = A.enclosing_func(sc)
        if sc is fn:
            return "-" + ctor[op.id]
    return None


def resolve_bound(fn, expr, seen=(), ctor=None):
    """Normalised texts a maxlen expression may stand for (-start / -stop, in terms of the constructor's
    values, or '?<source>' if it is something else), following local single assignments and
    parameters of nested helpers to their call sites."""
    ctor = ctor_locals(fn) if ctor is None else ctor
    s = A.src_with(expr, ctor)
    nb = neg_bound(fn, expr, ctor)
    if nb is not None:
        return {nb}
    if isinstance(expr, ast.Name) and expr.id not in seen:
        holder = A.enclosing_func(expr)
        if holder is not None and expr.id in A.func_params(holder) and holder is not fn:
            # parameter of a nested helper: union over the call sites in fn
            out = set()
            params = A.func_params(holder)
            i = params.index(expr.id)
            sites = [c for c in ast.walk(fn) if isinstance(c, ast.Call) and isinstance(c.func, ast.Name) and c.func.id == holder.name]
            if not sites:
                return {"?" + s}
            for c in sites:
                a = c.args[i] if i < len(c.args) else A.kwarg(c, expr.id)
                if a is None:
                    out.add("?" + s)
                else:
                    out |= resolve_bound(fn, a, seen + (expr.id,), ctor)
            return out
        vals = [A.parent(n).value for n in ast.walk(fn) if isinstance(n, ast.Name) and n.id == expr.id and isinstance(n.ctx, ast.Store)
                and isinstance(A.parent(n), ast.Assign) and len(A.parent(n).targets) == 1]
        stores = [n for n in ast.walk(fn) if isinstance(n, ast.Name) and n.id == expr.id and isinstance(n.ctx, ast.Store)]
        if vals and len(vals) == len(stores):
            out = set()
            for v in vals:
                out |= resolve_bound(fn, v, seen + (expr.id,), ctor)
            return out
    return {"?" + s}


def check_negative_slice(ctx, fa):
    rule = "C02-d"
    fn = ctx.tree.func("lena.flow.iterators", "Slice._run_negative_islice")
    # start/stop are the constructor's values: the locals bound (once, at the top of the body) from self._start,
    # self._stop, self._step -- identified by what they are bound from, not by what they are called
    ctor = ctor_locals(fn)
    ctx.check(rule, {"start", "stop"} <= set(ctor.values()), fn, "Slice._run_negative_islice does not take start/stop from the "
              "constructor's values", detail="start, stop, step = self._start, self._stop, self._step", construct="unpack")
    deques = [c for c in ast.walk(fn) if isinstance(c, ast.Call) and A.call_name(c) == "deque"]
    for c in deques:
        ml = A.kwarg(c, "maxlen")
        if ml is None and len(c.args) >= 2:
            ml = c.args[1]
        if ml is None:
            ctx.violation(rule, c, "negative Slice creates `%s` without maxlen: it keeps every value it is given instead of the |index| "
                          "values the documentation promises" % A.short(c, 50), construct="deque-unbounded:%s" % A.short(c, 60))
            continue
        if isinstance(ml, ast.Constant) and ml.value == 0 and not isinstance(ml.value, bool):
            # deque(it, maxlen=0): the consume idiom -- keeps nothing alive, whatever it is given
            ctx.ok(rule, c, "deque(..., maxlen=0) keeps no value")
            continue
        bounds = resolve_bound(fn, ml, ctor=ctor)
        unknown = sorted(b for b in bounds if b.startswith("?"))
        ctx.check(rule, not unknown, c, "negative Slice bounds `%s` by `%s`, which is not -start/-stop (%s): more (or fewer) values than "
                  "the documented |index| are kept alive" % (A.short(c, 50), A.src(ml), ", ".join(unknown)),
                  detail="deque bounded by %s" % "/".join(sorted(bounds)), construct="deque-bound:%s" % A.src_with(ml, ctor))
    ctx.instances_floor(rule, len(deques), 3, "deque constructions in the negative Slice")
    # a result that the slice's own numbers decide (stop <= start: nothing to yield) is produced without touching the flow
    pnames = set(ctor)        # locals bound from self._start / self._stop / self._step
    n_empty = 0
    reported = False
    for p in P.paths_of(fn):
        if p.end != "return" or p.yields() or any(e[0] in ("exc", "partial", "iter", "loop0", "backedge") for e in p.ev):
            continue        # an exception or a loop over data on the way: the data had a say
        lits = list(p.literals())
        if not lits or not all(A.names_loaded(t) <= pnames for t, _ in lits):
            continue
        n_empty += 1
        pulls = [n for _, n in p.exprs() for x in A.walk_local(n) if isinstance(x, ast.Name) and x.id == "flow"]
        if pulls and not reported:
            reported = True
            ctx.violation(rule, pulls[0], "negative Slice returns without a result on the path [%s], which only its own start/stop/step "
                          "decide, yet pulls from the flow on the way (`%s`): an empty slice such as Slice(-2, -3) exhausts its input -- "
                          "it never returns after an infinite Source -- although its zero results need none of it"
                          % (p.describe(5), A.short(pulls[0], 50)), construct="empty-slice-pulls", path=p)
    ctx.instances_floor(rule + "/empty", n_empty, 1, "paths of the negative Slice that return nothing by its parameters alone")
    if not reported:
        ctx.ok(rule, fn, "negative Slice: %d parameter-decided empty exits are reached without touching the flow" % n_empty)
    uses = fa.uses(fn, ["flow"])
    loops = pull_loops(uses)
    n_bad = 0
    for u in uses:
        desc = A.short(u.node if not isinstance(u.node, ast.For) else u.node.iter, 70)
        if u.kind == "eager" or (u.kind == "bounded" and A.call_name(u.node) != "deque"):
            n_bad += 1
            ctx.violation(rule, u.node, "negative Slice materialises the flow: %s%s" % (u.describe(), (" -- " + u.detail) if u.detail else ""),
                          construct="%s:%s" % (u.kind, desc))
        elif u.kind == "unknown":
            n_bad += 1
            ctx.unknown(rule, u.node, "Slice._run_negative_islice: %s (%s)" % (u.detail, desc))
        elif u.kind == "drain":
            b = resolve_bound(fn, u.bound, ctor=ctor) if u.bound is not None else {"?none"}
            if any(x.startswith("?") for x in b):
                n_bad += 1
                ctx.violation(rule, u.node, "negative Slice drains the flow into `%s`, whose bound is not -start/-stop" % desc,
                              construct="drain:%s" % desc)
    if not n_bad:
        ctx.ok(rule, fn, "negative Slice: %d uses of the flow; whole-flow drains only into deques bounded by -start/-stop" % len(uses))
    for loop in loops:
        seeds = set(A.target_names(loop.target))
        check_growing(ctx, fn, "Slice._run_negative_islice", loop, pulled_taint(fn, seeds, loop), rule,
                      own=pulled_taint(fn, seeds, loop, accumulations=False))
        if not any(isinstance(n, (ast.Yield, ast.YieldFrom)) for n in A.walk_body(loop.body)):
            check_early_exit(ctx, fn, loop, rule)
            continue
        # lagging loop: one out, one in, in this order, on every path
        pulled = A.target_names(loop.target)
        for p in P.loop_body_paths(loop):
            if p.end in ("return", "raise"):
                continue
            outs, ins = [], []
            for i, e in enumerate(p.ev):
                if e[0] != "stmt":
                    continue
                for c in A.walk_local(e[1]):
                    if isinstance(c, ast.Call) and isinstance(c.func, ast.Attribute):
                        if c.func.attr in ("pop", "popleft") and isinstance(A.parent(c), ast.Yield):
                            outs.append((i, c))
                        elif c.func.attr in ("append", "appendleft") and c.args and A.names_loaded(c.args[0]) & set(pulled):
                            ins.append((i, c))
            ys = p.yields()
            ok = len(outs) == 1 and len(ins) == 1 and len(ys) == 1 and outs[0][0] < ins[0][0] \
                and A.src(outs[0][1].func.value) == A.src(ins[0][1].func.value) \
                and {outs[0][1].func.attr, ins[0][1].func.attr} in ({"pop", "appendleft"}, {"popleft", "append"})
            ctx.check(rule, ok, loop, "negative Slice: the lagging loop `for %s in %s` is not one-out-one-in on path [%s] (%d yielded, %d "
                      "stored): the lag behind the input is no longer exactly the deque length" % (
                          A.src(loop.target), A.short(loop.iter, 30), p.describe(), len(ys), len(ins)),
                      detail="lagging loop yields the oldest value, then stores the pulled one", construct="lag:%s" % p.describe(3), path=p)


def monotone_counters(loop):
    """Locals incremented by a positive constant exactly once on every continuing path of
    the loop body and not stored otherwise in it."""
    cand = {}
    for n in A.walk_body(loop.body):
        # `i += k`, `i = i + k`, `i = k + i`: one construct
        acc = accumulation(n)
        if acc is not None and isinstance(acc[1], ast.Add) and isinstance(acc[2], ast.Constant) \
                and isinstance(acc[2].value, int) and not isinstance(acc[2].value, bool) and acc[2].value > 0:
            cand.setdefault(acc[0], []).append(n)
    for n in A.walk_body(loop.body):
        if isinstance(n, ast.Name) and isinstance(n.ctx, ast.Store) and n.id in cand \
                and not any(A.parent(n) is inc for inc in cand[n.id]):
            cand.pop(n.id, None)
    out = set()
    paths = P.loop_body_paths(loop)
    for name, incs in cand.items():
        ok = True
        for p in paths:
            if p.end in ("fall", "continue"):
                if sum(1 for s in p.stmts() if s in incs) != 1:
                    ok = False
        if ok:
            out.add(name)
    return out


def check_early_exit(ctx, fn, loop, rule):
    """A draining loop of the negative Slice that can leave early (`return`/`break` under a
    test) must test a per-value counter: a bounded quantity (the length of a maxlen deque)
    saturates, the exit would never be taken and an infinite input would be read forever."""
    counters = monotone_counters(loop)
    for p in P.loop_body_paths(loop):
        if p.end not in ("return", "break"):
            continue
        conds = p.conds()
        if not conds:
            continue
        test, pol = conds[-1]
        names = A.names_loaded(test)
        lens = [c for c in ast.walk(test) if isinstance(c, ast.Call) and A.call_name(c) == "len"]
        ctx.check(rule, bool(names & counters), test, "negative Slice: the early exit of the draining loop `for %s in %s` tests `%s`, "
                  "which contains no counter that grows with every pulled value (%s): %s, so the loop would read an infinite "
                  "input forever" % (A.src(loop.target), A.short(loop.iter, 30), A.src(test),
                                     "counters of this loop: " + (", ".join(sorted(counters)) or "none"),
                                     "the length of a bounded deque saturates at maxlen" if lens else "the tested quantity does not advance"),
                  detail="early exit of the draining loop tests the per-value counter %s" % ", ".join(sorted(names & counters)),
                  construct="early-exit:%s" % A.src(test), path=p)


def check_constructors(ctx):
    rule = "C02-e"
    n = 0
    for modname, qual in CONSTRUCTORS:
        fn = ctx.tree.func(modname, qual)
        n += 1
        params = [p for p in A.func_params(fn) if p != "self"]
        defaults = A.param_defaults(fn)
        seeds = {p for p in params if not (p in defaults and isinstance(defaults[p], ast.Constant))}
        tainted = set(seeds)
        changed = True
        while changed:
            changed = False
            for x in A.walk_local(fn, include_self=False):
                tg, val = None, None
                if isinstance(x, ast.Assign):
                    tg, val = x.targets, x.value
                elif isinstance(x, (ast.For, ast.comprehension)):
                    tg, val = [x.target], x.iter
                if tg is None:
                    continue
                if A.names_loaded(val) & tainted or any(A.is_self_attr(a) for a in ast.walk(val)):
                    for t in tg:
                        for nm in A.target_names(t):
                            if nm not in tainted:
                                tainted.add(nm)
                                changed = True
        bad = []
        for c in A.walk_local(fn, include_self=False):
            if not isinstance(c, ast.Call):
                continue
            f = c.func
            if isinstance(f, ast.Name) and f.id in tainted:
                t = ctx.res.resolve(f)
                if t is not None and t.kind == "local":
                    if (qual.split(".")[-1], f.id) in CALLED_PARAM_EXCEPTIONS or (qual, f.id) in CALLED_PARAM_EXCEPTIONS:
                        ctx.ok(rule, c, "%s calls its parameter %s -- named exception: %s" % (
                            qual, f.id, CALLED_PARAM_EXCEPTIONS.get((qual, f.id)) or CALLED_PARAM_EXCEPTIONS[(qual.split(".")[-1], f.id)]),
                            nontrivial=False)
                        continue
                    bad.append((c, "calls the object `%s` it was given" % f.id))
            elif isinstance(f, ast.Attribute) and f.attr in PROTOCOL:
                base = f.value
                if isinstance(base, ast.Call) and A.call_name(base) == "super":
                    continue
                r = A.root_name(base)
                if r in tainted or (r == "self" and not isinstance(base, ast.Name)):
                    bad.append((c, "calls `%s` of an element" % A.short(f, 40)))
            elif isinstance(f, ast.Name) and ctx.res.canon(f) == "builtins.next" and c.args and A.names_loaded(c.args[0]) & tainted:
                bad.append((c, "pulls a value with `%s`" % A.short(c, 40)))
        for c, what in bad:
            ctx.violation(rule, c, "%s %s while the pipeline is being built: constructing a sequence must do no work on the data" % (qual, what),
                          construct="build-time:%s" % A.short(c, 80))
        if not bad:
            ctx.ok(rule, fn, "%s calls no data-protocol method of its arguments (%d names derive from them)" % (qual, len(tainted)))
    ctx.instances_floor(rule, n, 12, "constructors and helpers of the sequence classes")


def check_vocabulary(ctx, fa, analysed):
    rule = "C02-f"
    n = 0
    for modname, cname in VOCABULARY:
        cls = ctx.tree.cls(modname, cname)
        ms = methods(cls)
        n += 1
        if "run" in ms:
            fn = ms["run"]
            analysed.add(fn)
            params = [p for p in A.func_params(fn) if p != "self"]
            if A.is_generator(fn):
                check_stream(ctx, fa, fn, "%s.run" % cname, params[:1], 0)
            else:
                check_nongen(ctx, fa, fn, "%s.run" % cname, params[:1])
        else:
            has_call = "__call__" in ms or any("__call__" in methods(b.node) for b in ctx.res.mro(ctx.res.class_target(modname, cname))[1:] if b.is_class)
            ctx.check(rule, has_call, cls, "%s has neither run nor __call__: it cannot be part of a streaming sequence" % cname,
                      detail="%s is a callable: Sequence drives it through Run._call_run (one value in, one value out)" % cname)
    ctx.instances_floor(rule, n, 5, "callables of the streaming vocabulary")
    # Run.__init__ picks _call_run for callables
    init = ctx.tree.func("lena.core.adapters", "Run.__init__")
    # the run method looked up on the element: getattr(el, "run", None) itself or the locals bound only from it
    lookup = "getattr(el, 'run', None)"
    run_locals = {st.targets[0].id for st in A.walk_local(init, include_self=False)
                  if isinstance(st, ast.Assign) and len(st.targets) == 1 and isinstance(st.targets[0], ast.Name)
                  and A.src(st.value) == lookup}
    run_locals = {nm for nm in run_locals if nm not in A.func_params(init) and A.single_def(init, nm) is not None
                  and sum(1 for n in A.walk_local(init, include_self=False)
                          if isinstance(n, ast.Name) and n.id == nm and isinstance(n.ctx, (ast.Store, ast.Del))) == 1}

    def no_run_method(t, pol):
        """literal `not callable(<the looked-up run method>)`"""
        return (not pol) and isinstance(t, ast.Call) and ctx.res.canon(t.func) == "builtins.callable" and len(t.args) == 1 \
            and not t.keywords and ((isinstance(t.args[0], ast.Name) and t.args[0].id in run_locals) or A.src(t.args[0]) == lookup)

    ok = False
    for p in P.paths_of(init):
        lits = p.literal_srcs()
        if "callable(el)" in lits and p.end != "raise" and "run is _SENTINEL" in lits and any(no_run_method(t, pol) for t, pol in p.literals()):
            ok = any(isinstance(s, ast.Assign) and A.src(s) == "self.run = self._call_run" for s in p.stmts())
    ctx.check(rule, ok, init, "Run.__init__ does not drive a plain callable with the streaming generator _call_run",
              detail="callable without run => self.run = self._call_run", construct="run-callable")
    # census
    census = {}
    for m, c in ctx.tree.classes():
        for name, fn in methods(c).items():
            if "flow" not in A.func_params(fn) or fn in analysed:
                continue
            q = "%s.%s" % (c.name, name)
            if q in ("Split.run", "Slice._run_negative_islice"):
                continue
            uses = fa.uses(fn, ["flow"])
            kinds = sorted({u.kind for u in uses if u.kind in consumed_kinds() or u.kind == "unknown"})
            if "eager" in kinds or "drain" in kinds:
                cls_ = "eager"
            elif "unknown" in kinds:
                cls_ = "not classified"
            elif A.is_generator(fn) and all(any(isinstance(n, (ast.Yield, ast.YieldFrom)) for n in A.walk_body(l.body)) for l in pull_loops(uses)):
                cls_ = "streaming"
            elif not A.is_generator(fn) and not any(k in consumed_kinds() for k in kinds):
                cls_ = "lazy view"
            else:
                cls_ = "eager"
            census[q] = cls_ + ((" (%s)" % EAGER_DOCUMENTED[q]) if q in EAGER_DOCUMENTED and cls_ == "eager" else "")
    ctx.note("census_of_other_run_methods", census)
    ctx.ok(rule, ("lena", "<tree>"), "census: %d other run-like methods classified without a verdict (%d streaming, %d eager)" % (
        len(census), sum(1 for v in census.values() if v.startswith("streaming")), sum(1 for v in census.values() if v.startswith("eager"))),
        nontrivial=False)


def check(ctx):
    fa = FlowAnalyser(ctx.res)
    analysed = check_table(ctx, fa)
    check_split(ctx, fa)
    check_negative_slice(ctx, fa)
    check_constructors(ctx)
    check_vocabulary(ctx, fa, analysed)


VARIANTS = [
    M("flowtoiter-list", "lena/core/functions.py", "        return iter(flow)", "        return iter(list(flow))", ["C02-a"]),
    M("negslice-collects-before-empty-exit", "lena/flow/iterators.py", "                if stop is None:\n                    d = deque(flow, maxlen=-start)\n                    while True:", "                if stop is None or stop < 0:\n                    d = deque(flow, maxlen=-start)\n                if stop is None:\n                    while True:", ["C02-d"]),
    M("negslice-exit-on-len", "lena/flow/iterators.py", "                        if ind >= stop - start:", "                        if len(d) >= stop - start:", ["C02-d"]),
    M("callrun-list", "lena/core/adapters.py", "        for val in flow:\n            yield self._el(val)\n",
      "        return [self._el(val) for val in flow]\n", ["C02-a"]),
    M("filter-listcomp", "lena/flow/filter.py", "        return (val for val in flow if self._selector(val))",
      "        return [val for val in flow if self._selector(val)]", ["C02-a"]),
    M("slice-list", "lena/flow/iterators.py", "        return self._islice(flow)", "        return iter(list(self._islice(flow)))", ["C02-a"]),
    M("sequence-materialise", "lena/core/sequence.py", "            flow = el.run(flow)", "            flow = iter(list(el.run(flow)))", ["C02-a"]),
    M("sequence-prime", "lena/core/sequence.py", "        flow = functions.flow_to_iter(flow)\n\n        # This function",
      "        flow = functions.flow_to_iter(flow)\n        first = next(flow, None)\n        flow = itertools.chain([first], flow)\n\n        # This function", ["C02-a"]),
    M("count-two-lookahead", "lena/flow/elements.py", "        for val in flow:\n            yield prev_val\n            count += 1\n            prev_val = val",
      "        prev2 = None\n        for val in flow:\n            if prev2 is not None:\n                yield prev2\n            count += 1\n            prev2 = prev_val\n            prev_val = val", ["C02-b'"]),
    M("count-next-in-loop", "lena/flow/elements.py", "        for val in flow:\n            yield prev_val\n            count += 1\n            prev_val = val",
      "        for val in flow:\n            yield prev_val\n            count += 1\n            prev_val = val\n            peek = next(flow, None)", ["C02-b"]),
    M("split-list-flow", "lena/core/split.py", "            orig_buf = list(itertools.islice(flow, self._bufsize))", "            orig_buf = list(flow)", ["C02-c"]),
    M("split-prefetch", "lena/core/split.py", "        while True:\n            ## iterate on flow",
      "        next_buf = list(itertools.islice(flow, self._bufsize))\n        while True:\n            ## iterate on flow", ["C02-c"]),
    M("split-bufsize-doubled", "lena/core/split.py", "        self._bufsize = bufsize\n", "        self._bufsize = bufsize and 2 * bufsize\n", ["C02-c"]),
    M("negslice-unbounded-deque", "lena/flow/iterators.py", "                if stop is None:\n                    d = deque(flow, maxlen=-start)",
      "                if stop is None:\n                    d = deque(flow)", ["C02-d"]),
    M("negslice-list", "lena/flow/iterators.py", "                if stop is None:\n                    d = deque(flow, maxlen=-start)",
      "                if stop is None:\n                    d = deque(list(flow)[start:])", ["C02-d"]),
    M("negslice-wrong-bound", "lena/flow/iterators.py", "            to_skip = -stop\n", "            to_skip = -stop + 1000\n", ["C02-d"]),
    M("runif-remembers", "lena/flow/elements.py", "        for val in flow:\n            if self._select(val):\n                for result in self._seq.run([val]):",
      "        self._seen = []\n        for val in flow:\n            self._seen.append(val)\n            if self._select(val):\n                for result in self._seq.run([val]):", ["C02-b"]),
    M("runif-sorted", "lena/flow/elements.py", "        for val in flow:\n            if self._select(val):", "        for val in list(flow):\n            if self._select(val):", ["C02-b"]),
    M("cache-dump-first", "lena/flow/cache.py", "            for val in flow:\n", "            for val in tuple(flow):\n", ["C02-b"]),
    M("source-init-calls-first", "lena/core/source.py", "        self._first = first\n", "        self._first = first\n        self._started = first() if callable(first) else None\n", ["C02-e"]),
    M("sequence-init-runs", "lena/core/sequence.py", "                else:\n                    seq.append(run_el)", "                else:\n                    run_el.run([])\n                    seq.append(run_el)", ["C02-e"]),
    TW("filter-generator-function", "lena/flow/filter.py", "        return (val for val in flow if self._selector(val))",
       "        for val in flow:\n            if self._selector(val):\n                yield val"),
    TW("callrun-alias", "lena/core/adapters.py", "        for val in flow:\n            yield self._el(val)\n",
       "        el = self._el\n        for val in flow:\n            res = el(val)\n            yield res\n"),
    TW("split-rename-buffer", "lena/core/split.py", "orig_buf", "block", nth=-1),
    TW("emptyrun-yield-from", "lena/core/split.py", "        for val in flow:\n            yield val\n\n    def run(self, flow):", "        yield from flow\n\n    def run(self, flow):"),
    TW("count-rename", "lena/flow/elements.py", "prev_val", "last_seen", nth=-1),
]
