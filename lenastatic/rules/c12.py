"""C12 -- histogram and graph arithmetic, scaling and conversions keep every cell (guards, purity, consistent update only)."""
import ast

from .. import astutil as A
from .. import paths as P
from ..effects import Effects
from ..selftest.runner import M, TW, V

PROPERTY = "C12"
EXPLANATION = (
    "Claimed for guards, purity and consistent update only -- the numeric relations that make up most of the property "
    "(scale after rescale equals s, add is cell-wise, iterators agree, CSV parses back, one point per cell) are value "
    "clauses and are NOT decided.  Decided: (a) GUARD -- every division by a scale/count in histogram.scale, "
    "set_nevents, graph.scale and Graph.scale is dominated on every path by a zero (or unknown) test whose branch "
    "raises LenaValueError; (b) PURE -- histogram.add stores nothing through self or other, returns a new histogram "
    "built from md_map results over copy.deepcopy(self.edges), and rejects a non-histogram with LenaTypeError and "
    "different edges with LenaValueError before computing; (c) PAIR -- a rescale updates bins, n_out_of_range and "
    "_scale together (histogram), bins and n_out_of_range (set_nevents); graph.scale rebinds exactly the coordinate "
    "lists [dim-1] + error indices of the last coordinate to new lists (no in-place change of a possibly shared "
    "list) and then stores the new scale; (d) scale_to / ScaleTo reach structure.scale(x) on every non-raising path; (e) ToCSV.run carries no local or self state from one value to the next.")
RULES = {
    "C12-a": "GUARD: division by a scale/count is dominated by a zero test that raises LenaValueError",
    "C12-b": "PURE: histogram.add leaves its operands alone and returns a new histogram over copied edges",
    "C12-c": "PAIR: rescaling updates all dependent fields together; graph.scale rebinds only the last coordinate and its errors",
    "C12-d": "delegation: scale_to and ScaleTo call structure.scale(x) on every non-raising path",
    "C12-e": "STATELESS: the rows ToCSV writes for a value do not depend on earlier values (no loop-carried settings)",
}
HIST = "lena.structures.histogram"
GRAPH = "lena.structures.graph"
LVE = "lena.core.exceptions.LenaValueError"

DIV_SITES = [(HIST, "histogram.scale"), (HIST, "histogram.set_nevents"), (GRAPH, "graph.scale"), (GRAPH, "Graph.scale")]


def check_zero_guards(ctx):
    res = ctx.res
    n = 0
    for modname, qual in DIV_SITES:
        fn = ctx.tree.func(modname, qual)
        divs = [d for d in ast.walk(fn) if isinstance(d, ast.BinOp) and isinstance(d.op, (ast.Div, ast.FloorDiv))]
        if not ctx.require(divs, "C12-a", fn, "%s: no division found" % qual):
            continue
        seen = set()
        for d in divs:
            den = d.right
            dsrc = A.src(den)
            if dsrc in seen or not (isinstance(den, ast.Name) or A.is_self_attr(den)):
                continue
            seen.add(dsrc)
            stmt = A.enclosing(d, (ast.stmt,))
            ok_all = True
            npaths = 0
            for p in P.paths_of(fn):
                idx = [k for k, e in enumerate(p.ev) if e[0] == "stmt" and e[1] is stmt]
                if not idx:
                    continue
                npaths += 1
                lits = [(A.src(t), pol) for t, pol in P.Path(p.ev[:idx[0]]).literals()]
                ok = (dsrc, True) in lits or ("%s == 0" % dsrc, False) in lits or ("%s != 0" % dsrc, True) in lits
                if not ok:
                    ok_all = False
                    ctx.violation("C12-a", d, "%s divides by `%s` on path [%s] without having excluded a zero%s value: ZeroDivisionError / "
                                  "TypeError instead of LenaValueError" % (qual, dsrc, P.Path(p.ev[:idx[0]]).describe(4),
                                                                           " or unknown (None)" if "graph" in qual.lower() else ""),
                                  construct="unguarded-division:%s" % dsrc, path=P.Path(p.ev[:idx[0] + 1]))
                    break
            if ok_all and npaths:
                n += 1
                ctx.ok("C12-a", d, "%s: `/ %s` dominated by a zero test on %d paths" % (qual, dsrc, npaths))
            # the guarding branch raises LenaValueError
            guards = [i for i in A.walk_local(fn) if isinstance(i, ast.If) and A.src(i.test) in ("not %s" % dsrc, "%s == 0" % dsrc)]
            okr = bool(guards) and all(any(isinstance(r, ast.Raise) and r.exc is not None and
                                           res.canon(r.exc.func if isinstance(r.exc, ast.Call) else r.exc) == LVE for r in g.body) for g in guards)
            ctx.check("C12-a", okr, fn, "%s: the zero test on `%s` does not raise LenaValueError" % (qual, dsrc),
                      detail="%s: zero %s raises LenaValueError" % (qual, dsrc), construct="zero-raise:%s" % dsrc)
    ctx.instances_floor("C12-a", n, 4, "guarded divisions")


def check_add(ctx):
    res = ctx.res
    fn = ctx.tree.func(HIST, "histogram.add")
    other = A.func_params(fn)[1]
    eff = Effects(res)
    for n in A.walk_local(fn):
        for names, who in (({"self"}, "self"), ({other}, other)):
            m = eff.mutation_through(n, names)
            if m and not (isinstance(n, ast.Attribute) and A.root_name(n) not in names):
                ctx.violation("C12-b", n, "histogram.add modifies its operand %s (%s): a + w*b must not change a or b" % (who, m),
                              construct="add-mutates:%s" % who)
    ctx.ok("C12-b", fn, "histogram.add stores nothing through self or %s" % other)
    rets = [r for r in A.walk_local(fn) if isinstance(r, ast.Return)]
    ok = len(rets) == 1 and isinstance(rets[0].value, ast.Name)
    if ok:
        rn = rets[0].value.id
        a = [x for x in A.walk_local(fn) if isinstance(x, ast.Assign) and any(A.src(t) == rn for t in x.targets)]
        ok = len(a) == 1 and isinstance(a[0].value, ast.Call) and A.call_name(a[0].value) == "histogram"
        if ok:
            c = a[0].value
            e = A.kwarg(c, "edges") or (c.args[0] if c.args else None)
            b = A.kwarg(c, "bins") or (c.args[1] if len(c.args) > 1 else None)
            ok = e is not None and res.is_call_to(e, "copy.deepcopy") and A.src(e.args[0]) == "self.edges" and isinstance(b, ast.Name)
            if ok:
                ba = [x for x in A.walk_local(fn) if isinstance(x, ast.Assign) and any(A.src(t) == b.id for t in x.targets)]
                ok = len(ba) == 1 and isinstance(ba[0].value, ast.Call) and A.call_name(ba[0].value) == "md_map"
    ctx.check("C12-b", ok, fn, "histogram.add does not return a new histogram(copy.deepcopy(self.edges), md_map(...)): the result would "
              "share edges or bins with an operand", detail="result is a new histogram over copied edges and mapped bins", construct="add-result")
    # guards first
    raises = [r for r in A.walk_local(fn) if isinstance(r, ast.Raise)]
    kinds = [res.canon(r.exc.func if isinstance(r.exc, ast.Call) else r.exc) for r in raises if r.exc is not None]
    first_calc = min([c.lineno for c in A.walk_local(fn) if isinstance(c, ast.Call) and A.call_name(c) == "md_map"] or [10 ** 9])
    ok = "lena.core.exceptions.LenaTypeError" in kinds and LVE in kinds and all(r.lineno < first_calc for r in raises)
    ctx.check("C12-b", ok, fn, "histogram.add does not reject a non-histogram (LenaTypeError) and different edges (LenaValueError) before "
              "computing", detail="operand checks precede the computation", construct="add-guards")
    tests = [i for i in A.walk_local(fn) if isinstance(i, ast.If) and "isclose(self.edges, %s.edges" % other in A.src(i.test)]
    ctx.check("C12-b", len(tests) == 1 and A.src(tests[0].test).startswith("not "), fn, "histogram.add does not compare the edges of the operands",
              detail="edges compared with isclose", construct="add-edges")


def stores_on_path(p, start=0):
    out = []
    for e in p.ev[start:]:
        if e[0] == "stmt":
            s = e[1]
            for t in A.assigned_targets(s):
                if A.is_self_attr(t):
                    out.append(t.attr)
    return out


def check_consistent(ctx):
    res = ctx.res
    fn = ctx.tree.func(HIST, "histogram.scale")
    n = 0
    for p in P.paths_of(fn):
        if p.end == "raise" or "other is None" in p.literal_srcs():
            continue
        n += 1
        st = set(stores_on_path(p))
        ctx.check("C12-c", {"bins", "n_out_of_range", "_scale"} <= st, fn, "histogram.scale rescales without updating %s together [%s]"
                  % (sorted({"bins", "n_out_of_range", "_scale"} - st), p.describe()), detail="bins, n_out_of_range and _scale updated together",
                  construct="hist-scale-fields", path=p)
    ctx.instances_floor("C12-c/hist", n, 1, "rescale paths of histogram.scale")
    sn = ctx.tree.func(HIST, "histogram.set_nevents")
    for p in P.paths_of(sn):
        if p.end == "raise":
            continue
        st = set(stores_on_path(p))
        ctx.check("C12-c", {"bins", "n_out_of_range"} <= st, sn, "set_nevents rescales without updating %s" % sorted({"bins", "n_out_of_range"} - st),
                  detail="bins and n_out_of_range rescaled together", construct="set_nevents-fields", path=p)
    g = ctx.tree.func(GRAPH, "graph.scale")
    # indices
    idx = [a for a in A.walk_local(g) if isinstance(a, ast.Assign) and any(A.src(t) == "last_coord_indices" for t in a.targets)]
    ok = len(idx) == 1 and A.src(idx[0].value).replace(" ", "") == "[last_coord_ind]+self._get_err_indices(last_coord_name)"
    a1 = [a for a in A.walk_local(g) if isinstance(a, ast.Assign) and any(A.src(t) == "last_coord_ind" for t in a.targets)]
    a2 = [a for a in A.walk_local(g) if isinstance(a, ast.Assign) and any(A.src(t) == "last_coord_name" for t in a.targets)]
    ok = ok and len(a1) == 1 and A.src(a1[0].value).replace(" ", "") == "self.dim-1" and len(a2) == 1 \
        and A.src(a2[0].value) == "self.field_names[last_coord_ind]"
    ctx.check("C12-c", ok, g, "graph.scale does not rescale exactly [dim-1] + error indices of the last coordinate",
              detail="rescaled columns: the last coordinate and its errors", construct="graph-indices")
    loops = [l for l in A.walk_local(g) if isinstance(l, ast.For) and "self.coords" in A.src(l.iter)]
    if ctx.require(len(loops) == 1 and isinstance(loops[0].target, ast.Tuple), "C12-c", g, "graph.scale: loop over enumerate(self.coords) not found"):
        l = loops[0]
        ind, arr = [A.src(e) for e in l.target.elts]
        eff = Effects(res)
        for p in P.loop_body_paths(l):
            lits = p.literal_srcs()
            sel = "%s in last_coord_indices" % ind in lits
            stores = [s for s in p.stmts() if isinstance(s, ast.Assign) and any(A.src(t) == "self.coords[%s]" % ind for t in s.targets)]
            inplace = [n for s in p.stmts() for n in A.walk_local(s) if eff.mutation_through(n, {arr})]
            if inplace:
                ctx.violation("C12-c", inplace[0], "graph.scale changes the coordinate list `%s` in place (`%s`): if that list object is "
                              "shared with another column or another graph, columns that must stay untouched are rescaled too (or "
                              "rescaled twice)" % (arr, A.short(A.enclosing(inplace[0], (ast.stmt,)) or inplace[0], 60)),
                              construct="graph-inplace", path=p)
                continue
            if sel:
                ok = len(stores) == 1 and arr in A.names_in(stores[0].value) or (len(stores) == 1 and isinstance(stores[0].value, ast.Name))
                ctx.check("C12-c", len(stores) == 1, l, "graph.scale does not rebind self.coords[%s] for a selected column" % ind,
                          detail="selected column rebound to a new list", construct="graph-selected", path=p)
            else:
                ctx.check("C12-c", not stores, l, "graph.scale replaces a coordinate list that is neither the last coordinate nor one of its "
                          "errors", detail="other columns untouched", construct="graph-unselected", path=p)
    for p in P.paths_of(g):
        if p.end == "raise" or "other is None" in p.literal_srcs():
            continue
        sc = [s for s in p.stmts() if isinstance(s, ast.Assign) and any(A.is_self_attr(t, "_scale") for t in s.targets)]
        ctx.check("C12-c", len(sc) == 1 and A.src(sc[0].value) == "other", g, "graph.scale does not store the new scale after rescaling",
                  detail="_scale = other after the rescale", construct="graph-scale-store", path=p)


def check_delegation(ctx):
    fn = ctx.tree.func("lena.flow.group_scale", "scale_to")
    loops = [l for l in A.walk_local(fn) if isinstance(l, ast.For) and A.src(l.iter) == "group"]
    if ctx.require(len(loops) == 1, "C12-d", fn, "scale_to: loop over group not found"):
        l = loops[0]
        for p in P.loop_body_paths(l):
            if p.end == "raise":
                continue
            excs = [e for e in p.ev if e[0] == "exc"]
            calls = [c for e in p.ev if e[0] in ("stmt", "partial") for c in A.walk_local(e[1])
                     if isinstance(c, ast.Call) and isinstance(c.func, ast.Attribute) and c.func.attr == "scale" and c.args]
            ok = len(calls) == 1 and A.src(calls[0].args[0]) == "scale" and A.src(calls[0].func.value) == "data"
            ctx.check("C12-d", ok, l, "scale_to does not call data.scale(scale) for a group member on path [%s]" % p.describe(),
                      detail="every member is rescaled with data.scale(scale)%s" % (" [tolerated failure]" if excs else ""),
                      construct="scale_to:%s" % p.describe(2), path=p)
    st = ctx.tree.func("lena.structures.elements", "ScaleTo.__call__")
    calls = [c for c in A.walk_local(st) if isinstance(c, ast.Call) and isinstance(c.func, ast.Attribute) and c.func.attr == "scale"]
    ok = len(calls) == 1 and A.src(calls[0].func.value) == "data" and len(calls[0].args) == 1 and A.src(calls[0].args[0]) == "self._scale_to" \
        and A.enclosing(calls[0], (ast.If, ast.Try, ast.For, ast.While)) is None
    ctx.check("C12-d", ok, st, "ScaleTo.__call__ does not call data.scale(self._scale_to) unconditionally", detail="ScaleTo delegates to data.scale",
              construct="scaleto")


def check_tocsv_stateless(ctx):
    """What ToCSV writes for a histogram depends on that value and the element's settings only
    (rows per cell, duplicate_last_bin): no state carried over from earlier values of the flow."""
    from . import c10
    from .. import paths as P2
    fn = ctx.tree.func("lena.output.to_csv", "ToCSV.run")
    loop = c10.flow_loop(ctx, fn)
    if not ctx.require(loop is not None, "C12-e", fn, "ToCSV.run: per-value loop not found"):
        return

    class Proxy(object):
        """Report c10's statelessness findings under this property's rule id."""
        def __init__(self, c):
            self.c = c

        def __getattr__(self, k):
            return getattr(self.c, k)

        def violation(self, rule, node, message, construct=None, path=None):
            return self.c.violation("C12-e", node, message, construct=construct, path=path)

        def ok(self, rule, node, detail="", nontrivial=True):
            return self.c.ok("C12-e", node, detail, nontrivial)
    c10.check_stateless(Proxy(ctx), "lena.output.to_csv", "ToCSV.run", fn, loop, P2.loop_body_paths(loop))


def check(ctx):
    check_tocsv_stateless(ctx)
    check_zero_guards(ctx)
    check_add(ctx)
    check_consistent(ctx)
    check_delegation(ctx)


VARIANTS = [
    M("hist-scale-no-zero-test", "lena/structures/histogram.py", "            if scale == 0:\n                raise LenaValueError(\n                    \"can not rescale histogram with zero scale\"\n                )\n", "", ["C12-a"]),
    M("graph-scale-none-only", "lena/structures/graph.py", "        if not self._scale:\n            raise lena.core.LenaValueError(\n                \"can't rescale a graph with zero or unknown scale\"",
      "        if self._scale is None:\n            raise lena.core.LenaValueError(\n                \"can't rescale a graph with zero or unknown scale\"", ["C12-a"]),
    M("add-accumulates-into-self", "lena/structures/histogram.py", "        new_bins = md_map(add, self.bins, obins)\n", "        new_bins = md_map(add, self.bins, obins)\n        self.bins = new_bins\n", ["C12-b"]),
    M("add-shares-edges", "lena/structures/histogram.py", "new_hist = histogram(edges=copy.deepcopy(self.edges), bins=new_bins)", "new_hist = histogram(edges=self.edges, bins=new_bins)", ["C12-b"]),
    M("scale-forgets-oor", "lena/structures/histogram.py", "            self.n_out_of_range *= other/scale\n", "", ["C12-c"]),
    M("graph-inplace", "lena/structures/graph.py", "                mappedl = list(map(partial(mul, rescale), arr))\n                self.coords[ind] = mappedl", "                arr[:] = map(partial(mul, rescale), arr)", ["C12-c"]),
    M("graph-rescales-all", "lena/structures/graph.py", "            if ind in last_coord_indices:\n", "            if True:\n", ["C12-c"]),
    M("scaleto-conditional", "lena/structures/elements.py", "        data.scale(self._scale_to)\n", "        if context:\n            data.scale(self._scale_to)\n", ["C12-d"]),
    TW("graph-rename-local", "lena/structures/graph.py", "                mappedl = list(map(partial(mul, rescale), arr))\n                self.coords[ind] = mappedl", "                self.coords[ind] = list(map(partial(mul, rescale), arr))"),
]
