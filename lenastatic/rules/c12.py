"""C12 -- histogram and graph arithmetic, scaling and conversions keep every cell (guards, purity, consistent update only)."""
import ast

from .. import astutil as A
from .. import paths as P
from ..effects import Effects
from ..selftest.runner import M, TW, V
from . import common as K

PROPERTY = "C12"
EXPLANATION = (
    "Claimed for guards, purity and consistent update only -- the numeric relations that make up most of the property "
    "(scale after rescale equals s, add is cell-wise, iterators agree, CSV parses back, one point per cell) are value "
    "clauses and are NOT decided.  Decided: (a) GUARD -- every division by a scale/count in histogram.scale, "
    "set_nevents, graph.scale and Graph.scale is dominated on every path by a zero (or unknown) test whose branch "
    "raises LenaValueError; (b) PURE -- histogram.add stores nothing through self or other, returns a new histogram "
    "built from md_map results over copy.deepcopy(self.edges), and rejects a non-histogram with LenaTypeError and "
    "different edges with LenaValueError before computing; (c) PAIR -- a rescale updates bins, n_out_of_range and "
    "_scale together (histogram), bins and n_out_of_range (set_nevents); graph.scale rebinds exactly the coordinate "
    "lists [dim-1] + error indices of the last coordinate to new lists (no in-place change of a possibly shared "
    "list) and then stores the new scale; (d) scale_to / ScaleTo reach structure.scale(x) on every non-raising path; (e) ToCSV.run carries no local or self state from one value to the next; "
    "(f) iter_cells recognises an absent index limit of *ranges* with `is None` only -- a limit is never tested for truth, so the legitimate limit 0 (an empty range) is not taken for 'no limit'; "
    "(g) set_nevents divides nevents by exactly self.get_nevents(include_out_of_range=<the same flag>), not adjusted afterwards, and "
    "_parse_error_names keeps its errors in field order (no sort/reverse/insert), because _get_err_indices takes the position of a "
    "parsed error for its column; "
    "(h) iter_bins, iter_bins_with_edges, get_bin_edges, iter_cells and hist_to_graph pair a cell's content, index and edges through one "
    "and the same index variable (low = edges[axis][i], high = edges[axis][i + 1], enumerated forwards), and the left/right/middle "
    "coordinate of a graph point takes the matching member of (low, high); "
    "(i) recursive numeric helpers (isclose, md_map, ...) pass their unchanged parameters on in place, and scale_to handles a value that "
    "cannot be rescaled inside its loop over the group; (j) WHO MAY WRITE -- in the value classes histogram and graph only the "
    "constructor and the documented modifiers (histogram.fill / scale / set_nevents, graph.scale) store through self, and only "
    "the fields tabled for them: a query (get_nevents, __eq__, rows, ...) that leaves something behind in the object is a memo "
    "that fill(), which changes cells in place, cannot invalidate; (k) the six places that decide whether edges are multidimensional "
    "ask the same test on edges[0] as the histogram constructor (init_bins is a tabled exception with its recorded text)."    " Added after the eighth round of seeded changes and the second round of behaviour-preserving changes: ScaleTo rescales the structure from the flow or copy.deepcopy of it, never copy.copy (shared coordinate lists); the error columns of a coordinate are selected by comparing the parsed coordinate, never by startswith/in on the field name."
)
RULES = {
    "C12-a": "GUARD: division by a scale/count is dominated by a zero test that raises LenaValueError",
    "C12-b": "PURE: histogram.add leaves its operands alone and returns a new histogram over copied edges",
    "C12-c": "PAIR: rescaling updates all dependent fields together; graph.scale rebinds only the last coordinate and its errors",
    "C12-d": "delegation: scale_to and ScaleTo call structure.scale(x) on every non-raising path",
    "C12-e": "STATELESS: the rows ToCSV writes for a value do not depend on earlier values (no loop-carried settings)",
    "C12-f": "LIMIT: iter_cells tells an absent index limit (None) from the limit 0 -- limits are compared with None, never tested for truth",
    "C12-g": "AGREE: set_nevents divides by exactly what get_nevents reports for the same include_out_of_range; the parsed error "
             "names keep the order of the fields (their position is their column)",
    "C12-h": "PAIRING: the cell iterators and hist_to_graph pair a cell's content, index and edges through one and the same index "
             "variable (low = edges[axis][i], high = edges[axis][i + 1]); the left/right/middle coordinate takes the matching member",
    "C12-j": "WHO MAY WRITE: only __init__ and the tabled modifiers of histogram/graph store through self, and only their tabled fields "
             "(queries keep no memo: get_nevents after a further fill must count that fill)",
    "C12-k": "AGREE on dimension: the histogram constructor, the edge checks and the cell iterators decide whether edges are "
             "multidimensional by the same test on edges[0] (one tabled exception)",
    "C12-i": "PASS-THROUGH: a recursive call of a numeric helper hands every unchanged parameter on in its own position (rel_tol as "
             "rel_tol, abs_tol as abs_tol); the tolerated per-item failures of scale_to are handled inside the loop over the group",
}
HIST = "lena.structures.histogram"
GRAPH = "lena.structures.graph"
LVE = "lena.core.exceptions.LenaValueError"

DIV_SITES = [(HIST, "histogram.scale"), (HIST, "histogram.set_nevents"), (GRAPH, "graph.scale"), (GRAPH, "Graph.scale")]


# -- names are derived from the analysed code, never assumed -----------------------------------------------

def local_names(fn):
    """Names bound inside fn that are not parameters."""
    params = set(A.func_params(fn))
    out = set()
    for n in A.walk_local(fn, include_self=False):
        if isinstance(n, ast.Name) and isinstance(n.ctx, (ast.Store, ast.Del)) and n.id not in params:
            out.add(n.id)
    return out


class _Expand(ast.NodeTransformer):
    def __init__(self, fn, depth=6):
        self.fn = fn
        self.locals = local_names(fn)
        self.depth = depth

    def visit_Name(self, node):
        if isinstance(node.ctx, ast.Load) and node.id in self.locals and self.depth > 0:
            v = A.single_def(self.fn, node.id)
            if v is not None:
                sub = _Expand(self.fn, self.depth - 1)
                return sub.visit(A._clone(v, {}))
        return node


def expanded_src(fn, node):
    """Source of *node* with every single-assignment local of fn replaced by its defining expression:
    the text no longer depends on how (or whether) fn names its intermediate values."""
    return A.src(ast.fix_missing_locations(_Expand(fn).visit(A._clone(node, {}))))


def stable_name(fn, node, ordinal=0):
    """A key for an operand that does not contain local variable names."""
    if isinstance(node, ast.Name) and node.id in local_names(fn):
        v = A.single_def(fn, node.id)
        if v is not None:
            return "local=" + " ".join(expanded_src(fn, v).split())[:80]
        return "local#%d" % ordinal
    return A.src(node)


def data_of(scope, value_name, rebinds=None):
    """The local bound to the data part of *value_name*: `<data>, <context> = ...get_data_context(<value_name>)`
    or `<data> = ...get_data(<value_name>)` inside *scope*; None if absent or ambiguous."""
    found = []
    for a in A.walk_local(scope):
        if not (isinstance(a, ast.Assign) and len(a.targets) == 1 and isinstance(a.value, ast.Call) and len(a.value.args) >= 1
                and isinstance(a.value.args[0], ast.Name) and a.value.args[0].id == value_name):
            continue
        t = a.targets[0]
        if A.call_name(a.value) == "get_data_context" and isinstance(t, (ast.Tuple, ast.List)) and len(t.elts) == 2 \
                and isinstance(t.elts[0], ast.Name):
            found.append(t.elts[0].id)
        elif A.call_name(a.value) == "get_data" and isinstance(t, ast.Name):
            found.append(t.id)
    if len(found) != 1:
        return None
    # bound exactly once in the scope
    binds = [n for n in A.walk_local(scope) if isinstance(n, ast.Name) and isinstance(n.ctx, (ast.Store, ast.Del)) and n.id == found[0]]
    if rebinds is not None:
        # the caller looks at re-bindings `<data> = <expr>` itself
        for a in A.walk_local(scope):
            if isinstance(a, ast.Assign) and len(a.targets) == 1 and isinstance(a.targets[0], ast.Name) and a.targets[0].id == found[0]:
                rebinds.append(a)
        return found[0] if len(binds) == 1 + len(rebinds) else None
    return found[0] if len(binds) == 1 else None


def check_zero_guards(ctx):
    res = ctx.res
    n = 0
    for modname, qual in DIV_SITES:
        fn = ctx.tree.func(modname, qual)
        divs = [d for d in ast.walk(fn) if isinstance(d, ast.BinOp) and isinstance(d.op, (ast.Div, ast.FloorDiv))]
        if not ctx.require(divs, "C12-a", fn, "%s: no division found" % qual):
            continue
        seen = set()
        for d in divs:
            den = d.right
            dsrc = A.src(den)
            if dsrc in seen or not (isinstance(den, ast.Name) or A.is_self_attr(den)):
                continue
            seen.add(dsrc)
            dkey = stable_name(fn, den, len(seen))     # finding key: free of local variable names
            stmt = A.enclosing(d, (ast.stmt,))
            ok_all = True
            npaths = 0
            for p in P.paths_of(fn):
                idx = [k for k, e in enumerate(p.ev) if e[0] == "stmt" and e[1] is stmt]
                if not idx:
                    continue
                npaths += 1
                lits = [(A.norm_src(t), pol) for t, pol in P.Path(p.ev[:idx[0]]).literals()]
                ok = (dsrc, True) in lits or ("%s == 0" % dsrc, False) in lits or ("%s != 0" % dsrc, True) in lits
                if not ok:
                    ok_all = False
                    ctx.violation("C12-a", d, "%s divides by `%s` on path [%s] without having excluded a zero%s value: ZeroDivisionError / "
                                  "TypeError instead of LenaValueError" % (qual, dsrc, P.Path(p.ev[:idx[0]]).describe(4),
                                                                           " or unknown (None)" if "graph" in qual.lower() else ""),
                                  construct="unguarded-division:%s" % dkey, path=P.Path(p.ev[:idx[0] + 1]))
                    break
            if ok_all and npaths:
                n += 1
                ctx.ok("C12-a", d, "%s: `/ %s` dominated by a zero test on %d paths" % (qual, dsrc, npaths))
            # every path that finds the divisor zero (or falsy) leaves through LenaValueError -- read off the paths, so the
            # spelling of the test (`x == 0`, `0 == x`, `not x`, a negated if with swapped branches) does not matter
            n_zero = 0
            okr = True
            for p in P.paths_of(fn):
                zero = False
                for t, pol in p.literals():
                    ns = A.norm_src(t)
                    if (ns == dsrc and pol is False) or (ns == "%s == 0" % dsrc and pol is True) or (ns == "%s != 0" % dsrc and pol is False):
                        zero = True
                if not zero:
                    continue
                n_zero += 1
                rs = [x for x in p.stmts() if isinstance(x, ast.Raise)]
                good = p.end == "raise" and rs and rs[-1].exc is not None and \
                    res.canon(rs[-1].exc.func if isinstance(rs[-1].exc, ast.Call) else rs[-1].exc) == LVE
                okr = okr and bool(good)
            ctx.check("C12-a", okr and n_zero >= 1, fn, "%s: the zero test on `%s` does not raise LenaValueError" % (qual, dsrc),
                      detail="%s: zero %s raises LenaValueError" % (qual, dsrc), construct="zero-raise:%s" % dkey)
    ctx.instances_floor("C12-a", n, 4, "guarded divisions")


def check_add(ctx):
    res = ctx.res
    fn = ctx.tree.func(HIST, "histogram.add")
    other = A.func_params(fn)[1]
    eff = Effects(res)
    for n in A.walk_local(fn):
        for names, who in (({"self"}, "self"), ({other}, other)):
            m = eff.mutation_through(n, names)
            if m and not (isinstance(n, ast.Attribute) and A.root_name(n) not in names):
                ctx.violation("C12-b", n, "histogram.add modifies its operand %s (%s): a + w*b must not change a or b" % (who, m),
                              construct="add-mutates:%s" % who)
    ctx.ok("C12-b", fn, "histogram.add stores nothing through self or %s" % other)
    rets = [r for r in A.walk_local(fn) if isinstance(r, ast.Return)]
    ok = len(rets) == 1 and isinstance(rets[0].value, ast.Name)
    if ok:
        rn = rets[0].value.id
        a = [x for x in A.walk_local(fn) if isinstance(x, ast.Assign) and any(A.src(t) == rn for t in x.targets)]
        ok = len(a) == 1 and isinstance(a[0].value, ast.Call) and A.call_name(a[0].value) == "histogram"
        if ok:
            c = a[0].value
            e = A.kwarg(c, "edges") or (c.args[0] if c.args else None)
            b = A.kwarg(c, "bins") or (c.args[1] if len(c.args) > 1 else None)
            ok = e is not None and res.is_call_to(e, "copy.deepcopy") and A.src(e.args[0]) == "self.edges" and isinstance(b, ast.Name)
            if ok:
                ba = [x for x in A.walk_local(fn) if isinstance(x, ast.Assign) and any(A.src(t) == b.id for t in x.targets)]
                ok = len(ba) == 1 and isinstance(ba[0].value, ast.Call) and A.call_name(ba[0].value) == "md_map"
    ctx.check("C12-b", ok, fn, "histogram.add does not return a new histogram(copy.deepcopy(self.edges), md_map(...)): the result would "
              "share edges or bins with an operand", detail="result is a new histogram over copied edges and mapped bins", construct="add-result")
    # guards first
    raises = [r for r in A.walk_local(fn) if isinstance(r, ast.Raise)]
    kinds = [res.canon(r.exc.func if isinstance(r.exc, ast.Call) else r.exc) for r in raises if r.exc is not None]
    first_calc = min([c.lineno for c in A.walk_local(fn) if isinstance(c, ast.Call) and A.call_name(c) == "md_map"] or [10 ** 9])
    ok = "lena.core.exceptions.LenaTypeError" in kinds and LVE in kinds and all(r.lineno < first_calc for r in raises)
    ctx.check("C12-b", ok, fn, "histogram.add does not reject a non-histogram (LenaTypeError) and different edges (LenaValueError) before "
              "computing", detail="operand checks precede the computation", construct="add-guards")
    tests = [i for i in A.walk_local(fn) if isinstance(i, ast.If) and "isclose(self.edges, %s.edges" % other in A.src(i.test)]
    ctx.check("C12-b", len(tests) == 1 and A.src(tests[0].test).startswith("not "), fn, "histogram.add does not compare the edges of the operands",
              detail="edges compared with isclose", construct="add-edges")


def _is_none_on(p, name):
    """Does the path condition say `name is None` (however the test is spelled: `is None` taken, `is not None` refused)?"""
    for t, pol in p.literals():
        if isinstance(t, ast.Compare) and len(t.ops) == 1 and isinstance(t.left, ast.Name) and t.left.id == name \
                and isinstance(t.comparators[0], ast.Constant) and t.comparators[0].value is None \
                and isinstance(t.ops[0], (ast.Is, ast.IsNot, ast.Eq, ast.NotEq)):
            if isinstance(t.ops[0], (ast.Is, ast.Eq)) == bool(pol):
                return True
    return False


def stores_on_path(p, start=0):
    out = []
    for e in p.ev[start:]:
        if e[0] == "stmt":
            s = e[1]
            for t in A.assigned_targets(s):
                if A.is_self_attr(t):
                    out.append(t.attr)
    return out


def check_consistent(ctx):
    res = ctx.res
    fn = ctx.tree.func(HIST, "histogram.scale")
    n = 0
    other_param = ([q for q in A.func_params(fn) if q != "self"] or ["other"])[0]
    for p in P.paths_of(fn):
        if p.end == "raise" or _is_none_on(p, other_param):
            continue
        n += 1
        st = set(stores_on_path(p))
        ctx.check("C12-c", {"bins", "n_out_of_range", "_scale"} <= st, fn, "histogram.scale rescales without updating %s together [%s]"
                  % (sorted({"bins", "n_out_of_range", "_scale"} - st), p.describe()), detail="bins, n_out_of_range and _scale updated together",
                  construct="hist-scale-fields", path=p)
    ctx.instances_floor("C12-c/hist", n, 1, "rescale paths of histogram.scale")
    sn = ctx.tree.func(HIST, "histogram.set_nevents")
    for p in P.paths_of(sn):
        if p.end == "raise":
            continue
        st = set(stores_on_path(p))
        ctx.check("C12-c", {"bins", "n_out_of_range"} <= st, sn, "set_nevents rescales without updating %s" % sorted({"bins", "n_out_of_range"} - st),
                  detail="bins and n_out_of_range rescaled together", construct="set_nevents-fields", path=p)
    g = ctx.tree.func(GRAPH, "graph.scale")
    other = A.func_params(g)[1]
    loops = [l for l in A.walk_local(g) if isinstance(l, ast.For) and "self.coords" in A.src(l.iter)]
    if ctx.require(len(loops) == 1 and A.src(loops[0].iter) == "enumerate(self.coords)" and isinstance(loops[0].target, ast.Tuple)
                   and len(loops[0].target.elts) == 2 and all(isinstance(e, ast.Name) for e in loops[0].target.elts),
                   "C12-c", g, "graph.scale: loop `for <index>, <column> in enumerate(self.coords)` not found"):
        l = loops[0]
        ind, arr = [e.id for e in l.target.elts]
        # the selection `<index> in <columns>`: whatever the locals are called (or whether there are any), <columns> must
        # expand to [dim-1] + the error indices of the field named field_names[dim-1]
        WANT = "[self.dim - 1] + self._get_err_indices(self.field_names[self.dim - 1])"

        def selection(t):
            return isinstance(t, ast.Compare) and len(t.ops) == 1 and isinstance(t.ops[0], ast.In) \
                and isinstance(t.left, ast.Name) and t.left.id == ind

        sels = [t for t in A.walk_local(l) if selection(t)]
        good = [t for t in sels if expanded_src(g, t.comparators[0]) == WANT]
        ctx.check("C12-c", bool(sels) and len(good) == len(sels), g,
                  "graph.scale does not rescale exactly [dim-1] + error indices of the last coordinate",
                  detail="rescaled columns: the last coordinate and its errors", construct="graph-indices")
        eff = Effects(res)
        for p in P.loop_body_paths(l):
            sel = any(pol and any(t is s_ for s_ in good) for t, pol in p.literals())
            stores = [s_ for s_ in p.stmts() if isinstance(s_, ast.Assign) and any(A.src(t) == "self.coords[%s]" % ind for t in s_.targets)]
            inplace = [n for s_ in p.stmts() for n in A.walk_local(s_) if eff.mutation_through(n, {arr})]
            if inplace:
                ctx.violation("C12-c", inplace[0], "graph.scale changes the coordinate list `%s` in place (`%s`): if that list object is "
                              "shared with another column or another graph, columns that must stay untouched are rescaled too (or "
                              "rescaled twice)" % (arr, A.short(A.enclosing(inplace[0], (ast.stmt,)) or inplace[0], 60)),
                              construct="graph-inplace", path=p)
                continue
            if sel:
                ctx.check("C12-c", len(stores) == 1, l, "graph.scale does not rebind self.coords[%s] for a selected column" % ind,
                          detail="selected column rebound to a new list", construct="graph-selected", path=p)
            else:
                ctx.check("C12-c", not stores, l, "graph.scale replaces a coordinate list that is neither the last coordinate nor one of its "
                          "errors", detail="other columns untouched", construct="graph-unselected", path=p)
    for p in P.paths_of(g):
        if p.end == "raise" or "%s is None" % other in p.literal_srcs():
            continue
        sc = [s_ for s_ in p.stmts() if isinstance(s_, ast.Assign) and any(A.is_self_attr(t, "_scale") for t in s_.targets)]
        ctx.check("C12-c", len(sc) == 1 and A.src(sc[0].value) == other, g, "graph.scale does not store the new scale after rescaling",
                  detail="_scale = %s after the rescale" % other, construct="graph-scale-store", path=p)


def check_delegation(ctx):
    fn = ctx.tree.func("lena.flow.group_scale", "scale_to")
    params = A.func_params(fn)
    loops = [l for l in A.walk_local(fn) if isinstance(l, ast.For) and A.src(l.iter) == params[1]]
    if ctx.require(len(loops) == 1 and isinstance(loops[0].target, ast.Name), "C12-d", fn, "scale_to: loop `for <member> in %s` not found" % params[1]):
        l = loops[0]
        data = data_of(l, l.target.id)
        if ctx.require(data is not None, "C12-d", l, "scale_to: the data part of a group member (get_data_context(<member>)) not found"):
            bound_in_loop = {n.id for n in A.walk_local(l) if isinstance(n, ast.Name) and isinstance(n.ctx, (ast.Store, ast.Del))}

            def common_scale(arg):
                """The argument is one value for the whole group: a local computed before the loop, every definition of
                which is the number given (first parameter) or the scale read from a structure (`<x>.scale()`).
                True / False / None (cannot tell)."""
                if not isinstance(arg, ast.Name) or arg.id in bound_in_loop:
                    return False
                if arg.id in params:
                    return arg.id == params[0]
                defs = [a.value for a in A.walk_local(fn) if isinstance(a, ast.Assign) and any(isinstance(t, ast.Name) and t.id == arg.id for t in a.targets)]
                if not defs or len(defs) != sum(1 for n in A.walk_local(fn) if isinstance(n, ast.Name) and n.id == arg.id
                                                and isinstance(n.ctx, (ast.Store, ast.Del))):
                    return None
                for v in defs:
                    if isinstance(v, ast.Name) and v.id == params[0]:
                        continue
                    if isinstance(v, ast.Call) and isinstance(v.func, ast.Attribute) and v.func.attr == "scale" and not v.args and not v.keywords:
                        continue
                    return None
                return True

            for p in P.loop_body_paths(l):
                if p.end == "raise":
                    continue
                excs = [e for e in p.ev if e[0] == "exc"]
                calls = [c for e in p.ev if e[0] in ("stmt", "partial") for c in A.walk_local(e[1])
                         if isinstance(c, ast.Call) and isinstance(c.func, ast.Attribute) and c.func.attr == "scale" and c.args]
                ok = len(calls) == 1 and len(calls[0].args) == 1 and isinstance(calls[0].func.value, ast.Name) and calls[0].func.value.id == data
                cs = common_scale(calls[0].args[0]) if ok else False
                if ok and cs is None:
                    ctx.unknown("C12-d", calls[0], "scale_to: cannot tell where the scale `%s` passed to <data>.scale() comes from" % A.src(calls[0].args[0]))
                    continue
                ctx.check("C12-d", ok and cs, l, "scale_to does not call data.scale(scale) for a group member on path [%s]" % p.describe(),
                          detail="every member is rescaled with data.scale(scale)%s" % (" [tolerated failure]" if excs else ""),
                          construct="scale_to:%s" % p.describe(2), path=p)
    st = ctx.tree.func("lena.structures.elements", "ScaleTo.__call__")
    rebinds = []
    data = data_of(st, A.func_params(st)[1], rebinds)
    for a in rebinds:
        # the structure that is rescaled in place is the one from the flow or an independent (deep) copy of it; a shallow copy
        # shares its coordinate lists with the original, and scale() assigns into them
        v = a.value
        canon = ctx.res.call_canon(v) if isinstance(v, ast.Call) else None
        arg_ok = isinstance(v, ast.Call) and len(v.args) == 1 and isinstance(v.args[0], ast.Name) and v.args[0].id == data
        if canon == "copy.deepcopy" and arg_ok:
            ctx.ok("C12-d", a, "ScaleTo rescales a deep copy of the data")
        elif arg_ok and canon == "copy.copy":
            ctx.violation("C12-d", a, "ScaleTo.__call__ rescales `%s`, a shallow copy of the structure from the flow: the copy shares the "
                          "coordinate and error lists with the original, and graph.scale assigns the rescaled columns into them, so the "
                          "original (another branch of a Split without copy_buf, a value run twice) has its contents multiplied while "
                          "its own scale stays what it was -- its cells are no longer original * scale / old scale" % A.src(v),
                          construct="scaleto-shallow-copy")
        else:
            ctx.unknown("C12-d", a, "ScaleTo.__call__: the data is rebound to `%s` before it is rescaled" % A.short(v, 50))
    if ctx.require(data is not None, "C12-d", st, "ScaleTo.__call__: the data part of the value (get_data_context(<value>)) not found"):
        calls = [c for c in A.walk_local(st) if isinstance(c, ast.Call) and isinstance(c.func, ast.Attribute) and c.func.attr == "scale"]
        ok = len(calls) == 1 and isinstance(calls[0].func.value, ast.Name) and calls[0].func.value.id == data and len(calls[0].args) == 1 \
            and A.src(calls[0].args[0]) == "self._scale_to" and A.enclosing(calls[0], (ast.If, ast.Try, ast.For, ast.While)) is None
        ctx.check("C12-d", ok, st, "ScaleTo.__call__ does not call data.scale(self._scale_to) unconditionally", detail="ScaleTo delegates to data.scale",
                  construct="scaleto")


def check_tocsv_stateless(ctx):
    """What ToCSV writes for a histogram depends on that value and the element's settings only
    (rows per cell, duplicate_last_bin): no state carried over from earlier values of the flow."""
    from . import c10
    from .. import paths as P2
    fn = ctx.tree.func("lena.output.to_csv", "ToCSV.run")
    loop = c10.flow_loop(ctx, fn)
    if not ctx.require(loop is not None, "C12-e", fn, "ToCSV.run: per-value loop not found"):
        return

    class Proxy(object):
        """Report c10's statelessness findings under this property's rule id."""
        def __init__(self, c):
            self.c = c

        def __getattr__(self, k):
            return getattr(self.c, k)

        def violation(self, rule, node, message, construct=None, path=None):
            return self.c.violation("C12-e", node, message, construct=construct, path=path)

        def ok(self, rule, node, detail="", nontrivial=True):
            return self.c.ok("C12-e", node, detail, nontrivial)
    c10.check_stateless(Proxy(ctx), "lena.output.to_csv", "ToCSV.run", fn, loop, P2.loop_body_paths(loop))


def truth_operands(fn):
    """Expressions whose truth value decides something in fn: tests of if/while/conditional expressions/assert/comprehension
    filters, operands of `not` and of and/or (an and/or or `not` in such a position is looked into, not reported itself)."""
    out = []

    def add(e):
        if isinstance(e, ast.BoolOp):
            return      # its operands are collected when the walk reaches it
        if isinstance(e, ast.UnaryOp) and isinstance(e.op, ast.Not):
            return
        out.append(e)
    for n in A.walk_local(fn):
        if isinstance(n, (ast.If, ast.While, ast.IfExp, ast.Assert)):
            add(n.test)
        elif isinstance(n, ast.comprehension):
            for c in n.ifs:
                add(c)
        elif isinstance(n, ast.BoolOp):
            for v in n.values:
                add(v)
        elif isinstance(n, ast.UnaryOp) and isinstance(n.op, ast.Not):
            add(n.operand)
    return out


def check_index_limits(ctx):
    """iter_cells(hist, ranges): each element of *ranges* is (low, up), either of which is None (no limit) or an index;
    0 is a legitimate index (up == 0: an empty range), so absence must be decided by `is None`."""
    fn = ctx.tree.func("lena.structures.hist_functions", "iter_cells")
    ranges = A.func_params(fn)[1]

    def rebinds(loop):
        return any(isinstance(n, ast.Name) and isinstance(n.ctx, ast.Store) and n.id == ranges for n in A.walk_local(loop))
    loops = [l for l in A.walk_local(fn) if isinstance(l, ast.For) and ranges in A.names_in(l.iter) and not rebinds(l)]
    if not ctx.require(len(loops) == 1, "C12-f", fn, "iter_cells: the loop over the index ranges `%s` not found" % ranges):
        return
    l = loops[0]
    # the element of ranges: the loop target itself, or its second component under enumerate()
    if A.call_name(l.iter) == "enumerate" and isinstance(l.target, ast.Tuple) and len(l.target.elts) == 2:
        elem = l.target.elts[1]
    else:
        elem = l.target
    limits = set()
    if isinstance(elem, (ast.Tuple, ast.List)):
        limits.update(A.target_names(elem))
    elif isinstance(elem, ast.Name):
        for a in A.walk_local(l):
            if not isinstance(a, ast.Assign):
                continue
            v = a.value
            if isinstance(v, ast.Name) and v.id == elem.id:
                for t in a.targets:
                    if isinstance(t, (ast.Tuple, ast.List)):
                        limits.update(A.target_names(t))
            elif isinstance(v, ast.Subscript) and isinstance(v.value, ast.Name) and v.value.id == elem.id:
                for t in a.targets:
                    if isinstance(t, ast.Name):
                        limits.add(t.id)
    if not ctx.require(len(limits) >= 2, "C12-f", l, "iter_cells: the (low, up) limits taken from an element of `%s` not found" % ranges):
        return
    order = sorted(limits, key=lambda nm: min((n.lineno, n.col_offset) for n in A.walk_local(l) if isinstance(n, ast.Name) and n.id == nm))
    direct = {elem.id} if isinstance(elem, ast.Name) else set()
    n = 0
    bad = set()
    for e in truth_operands(fn):
        k = None
        if isinstance(e, ast.Name) and e.id in limits:
            k = order.index(e.id)
        elif isinstance(e, ast.Subscript) and isinstance(e.value, ast.Name) and e.value.id in direct:
            k = A.src(e.slice)
        if k is not None and k not in bad:
            bad.add(k)
            ctx.violation("C12-f", e, "iter_cells tests the index limit `%s` for truth: the limit 0 (an empty range) is taken for None "
                          "(no limit), so a range that selects no cell yields every cell of that axis" % A.src(e),
                          construct="limit-truth:%s" % k)
    for i, nm in enumerate(order):
        tests = [c for c in A.walk_local(l) if isinstance(c, ast.Compare) and isinstance(c.left, ast.Name) and c.left.id == nm
                 and len(c.ops) == 1 and isinstance(c.ops[0], (ast.Is, ast.IsNot)) and A.is_const(c.comparators[0], None)]
        if i in bad:
            continue
        if tests:
            n += 1
            ctx.ok("C12-f", tests[0], "iter_cells: limit #%d of a range is compared with None, never tested for truth" % i)
        else:
            ctx.unknown("C12-f", l, "iter_cells: no `is None` test of limit #%d of a range found" % i)
    if not bad:
        ctx.instances_floor("C12-f", n, 2, "index limits of iter_cells compared with None")


def check_agreements(ctx):
    res = ctx.res
    # (1) set_nevents: after it, get_nevents(include_out_of_range=flag) must equal nevents.  The factor must therefore be
    #     nevents / get_nevents(include_out_of_range=<the same flag>), and that count may not be adjusted afterwards.
    sn = ctx.tree.func(HIST, "histogram.set_nevents")
    ps = [p for p in A.func_params(sn) if p != "self"]
    if ctx.require(len(ps) == 2, "C12-g", sn, "set_nevents: parameters (nevents, include_out_of_range) expected"):
        nev, flag = ps
        calls = [c for c in A.walk_local(sn) if isinstance(c, ast.Call) and A.src(c.func) == "self.get_nevents"]
        ok = len(calls) == 1
        why = "%d calls of self.get_nevents" % len(calls)
        if ok:
            c = calls[0]
            target = ctx.tree.func(HIST, "histogram.get_nevents")
            formal = [p for p in A.func_params(target) if p != "self"]
            bound = {}
            for k, a in enumerate(c.args):
                if k < len(formal):
                    bound[formal[k]] = A.src(a)
            for kw in c.keywords:
                bound[kw.arg] = A.src(kw.value)
            ok = bound.get("include_out_of_range") == flag
            why = "get_nevents is asked with include_out_of_range=%s, not with the caller's `%s`" % (bound.get("include_out_of_range", "<default>"), flag)
            par = A.parent(c)
            if ok and isinstance(par, ast.Assign) and len(par.targets) == 1 and isinstance(par.targets[0], ast.Name):
                cnt = par.targets[0].id
                others = [x for x in A.walk_local(sn) if isinstance(x, (ast.Assign, ast.AugAssign)) and x is not par
                          and any(cnt in A.target_names(t) for t in A.assigned_targets(x))]
                ok = not others
                why = "the event count is adjusted after it was read (`%s`)" % (A.short(others[0], 50) if others else "")
                if ok:
                    divs = [d for d in A.walk_local(sn) if isinstance(d, ast.BinOp) and isinstance(d.op, ast.Div)]
                    ok = len(divs) == 1 and A.src(divs[0].left) == nev and A.src(divs[0].right) == cnt
                    why = "the factor is not %s / %s" % (nev, cnt)
        ctx.check("C12-g", ok, sn, "set_nevents: %s -- afterwards get_nevents(include_out_of_range=%s) is not the requested number "
                  "(e.g. with a negative n_out_of_range after a weighted subtraction)" % (why, flag if len(ps) == 2 else "?"),
                  detail="set_nevents: factor = nevents / get_nevents(include_out_of_range=flag)", construct="set_nevents-denominator")
    # (2) the position of a parsed error is its column: no reordering between the field names and the returned list
    pe = ctx.tree.func(GRAPH, "graph._parse_error_names")
    gi = ctx.tree.func(GRAPH, "graph._get_err_indices")
    positional = any(isinstance(l, ast.For) and A.call_name(l.iter) == "enumerate" and l.iter.args
                     and A.src(l.iter.args[0]) == "self._parsed_error_names" for l in A.walk_local(gi))
    prefix_tests = [c for c in A.walk_local(gi) if isinstance(c, ast.Call) and isinstance(c.func, ast.Attribute)
                    and c.func.attr in ("startswith", "find", "index", "count")] + [
        c for c in A.walk_local(gi) if isinstance(c, ast.Compare) and any(isinstance(o, (ast.In, ast.NotIn)) for o in c.ops)
        and any(isinstance(x, ast.Name) and x.id in A.func_params(gi) for x in ast.walk(c.left))]
    for c in prefix_tests[:1]:
        ctx.violation("C12-g", c, "_get_err_indices picks the error columns of a coordinate by a textual match on the field name (`%s`) "
                      "instead of comparing the parsed coordinate of the error with the coordinate's name: the errors of another "
                      "coordinate whose name merely begins with (or contains) this one -- 'error_Ereco' for 'E' -- are rescaled with it, "
                      "so scale() no longer leaves the other coordinates untouched" % A.short(c, 50), construct="err-columns-by-text-match")
    if prefix_tests:
        pass
    elif ctx.require(positional, "C12-g", gi, "_get_err_indices no longer derives the column from the position in _parsed_error_names"):
        rets = [r.value.id for r in A.walk_local(pe) if isinstance(r, ast.Return) and isinstance(r.value, ast.Name)]
        if ctx.require(len(set(rets)) == 1, "C12-g", pe, "_parse_error_names: expected one returned list"):
            R = rets[0]
            chain = {R}
            for l in A.walk_local(pe):
                if isinstance(l, ast.For) and any(isinstance(c, ast.Call) and isinstance(c.func, ast.Attribute) and c.func.attr == "append"
                                                   and A.src(c.func.value) in chain for c in A.walk_body(l.body)):
                    it = l.iter
                    while isinstance(it, ast.Call) and A.call_name(it) in ("enumerate", "sorted", "reversed", "list", "iter") and it.args:
                        it = it.args[0]
                    if isinstance(it, ast.Name) and it.id not in A.func_params(pe):
                        chain.add(it.id)
            # second pass: the list the first one is built from
            for l in A.walk_local(pe):
                if isinstance(l, ast.For) and any(isinstance(c, ast.Call) and isinstance(c.func, ast.Attribute) and c.func.attr == "append"
                                                   and A.src(c.func.value) in chain for c in A.walk_body(l.body)):
                    it = l.iter
                    while isinstance(it, ast.Call) and A.call_name(it) in ("enumerate", "sorted", "reversed", "list", "iter") and it.args:
                        it = it.args[0]
                    if isinstance(it, ast.Name) and it.id not in A.func_params(pe):
                        chain.add(it.id)
            bad = []
            for x in A.walk_local(pe):
                if isinstance(x, ast.Call) and isinstance(x.func, ast.Attribute) and x.func.attr in ("sort", "reverse", "insert", "pop", "remove") \
                        and A.src(x.func.value) in chain:
                    bad.append(x)
                elif isinstance(x, ast.Call) and A.call_name(x) in ("sorted", "reversed", "set", "frozenset") and x.args and A.src(x.args[0]) in chain \
                        and not (A.call_name(x) == "set" and A.src(x.args[0]) not in (R,)):
                    if A.src(x.args[0]) == R or isinstance(A.parent(x), (ast.For, ast.Return, ast.Assign)) and A.call_name(x) != "set":
                        bad.append(x)
                elif isinstance(x, ast.For) and isinstance(x.iter, ast.Call) and A.call_name(x.iter) in ("reversed", "sorted") and x.iter.args \
                        and A.src(x.iter.args[0]) in chain:
                    bad.append(x.iter)
            for b in bad:
                ctx.violation("C12-g", b, "_parse_error_names reorders the errors (`%s`), but _get_err_indices takes the k-th parsed error for "
                              "column dim + k: graph.scale then rescales the error columns of another coordinate and leaves its own "
                              "unscaled" % A.short(b, 50), construct="errors-reordered:%s" % A.call_name(b))
            if not bad:
                ctx.ok("C12-g", pe, "parsed errors keep the order of the field names (lists %s only appended to, iterated forwards)" % sorted(chain))


def check_pairing(ctx):
    """Conversions keep every cell once, with its own index and edges.  The structural part: wherever a cell's content is
    put together with an index or with edges, all of them come from the same index variable, the low edge is edges[axis][i]
    and the high edge edges[axis][i + 1], enumeration is forwards."""
    res = ctx.res
    HFm = "lena.structures.hist_functions"
    # iter_bins
    fn = ctx.tree.func(HFm, "iter_bins")
    bp = A.func_params(fn)[0]
    loops = [l for l in A.walk_local(fn) if isinstance(l, ast.For)]
    outer = [l for l in loops if A.call_name(l.iter) == "enumerate" and l.iter.args and A.src(l.iter.args[0]) == bp]
    ok = len(outer) == 1 and isinstance(outer[0].target, ast.Tuple) and isinstance(outer[0].target.elts[0], ast.Name)
    why = "no `for ind, _ in enumerate(bins)`"
    if ok:
        ind = outer[0].target.elts[0].id
        inner = [l for l in A.walk_body(outer[0].body) if isinstance(l, ast.For) and isinstance(l.iter, ast.Call)
                 and res.call_canon(l.iter) == HFm + ".iter_bins"]
        ok = len(inner) == 1 and [A.src(a) for a in inner[0].iter.args] == ["%s[%s]" % (bp, ind)] and isinstance(inner[0].target, ast.Tuple) \
            and len(inner[0].target.elts) == 2
        why = "the recursion is not into bins[ind] for the enumerated ind"
        if ok:
            sub, val = [A.src(e) for e in inner[0].target.elts]
            ys = [y for y in A.walk_body(inner[0].body) if isinstance(y, ast.Yield)]
            ok = len(ys) == 1 and A.src(ys[0].value).replace(" ", "") in ("((%s,)+%s,%s)" % (ind, sub, val), "(((%s,)+%s),%s)" % (ind, sub, val))
            why = "the yielded pair is `%s`, not ((ind,) + sub_index, value)" % (A.src(ys[0].value) if ys else None)
    ctx.check("C12-h", ok, fn, "iter_bins: %s -- a cell would be reported under another cell's index" % why,
              detail="iter_bins: index prefix and recursion use the same ind", construct="iter_bins-pairing")
    base = [y for y in A.walk_local(fn) if isinstance(y, ast.Yield) and A.src(y.value).replace(" ", "") == "((),%s)" % bp]
    ctx.check("C12-h", len(base) == 1, fn, "iter_bins does not yield ((), content) for a single cell", detail="iter_bins base case",
              construct="iter_bins-base")
    # iter_bins_with_edges and get_bin_edges: low = edges[axis][i], high = edges[axis][i + 1] for (axis, i) in enumerate(index)
    fn = ctx.tree.func(HFm, "iter_bins_with_edges")
    bp, ep = A.func_params(fn)[:2]
    prod = [l for l in A.walk_local(fn) if isinstance(l, ast.For) and isinstance(l.iter, ast.Call) and res.call_canon(l.iter) == "itertools.product"]
    ok = len(prod) == 1 and isinstance(prod[0].target, ast.Name)
    why = "no loop over itertools.product of the index ranges"
    if ok:
        index = prod[0].target.id
        gets = [st for st in A.walk_body(prod[0].body) if isinstance(st, ast.Assign) and isinstance(st.value, ast.Call)
                and res.call_canon(st.value) == HFm + ".get_bin_on_index"]
        ok = len(gets) == 1 and [A.src(a) for a in gets[0].value.args] == [index, bp]
        why = "the content is not get_bin_on_index(index, bins) for the index of this iteration"
        if ok:
            binv = A.src(gets[0].targets[0])
            en = [l for l in A.walk_body(prod[0].body) if isinstance(l, ast.For) and A.call_name(l.iter) == "enumerate"
                  and l.iter.args and A.src(l.iter.args[0]) == index and isinstance(l.target, ast.Tuple)]
            ok = len(en) == 1
            why = "no `for axis, i in enumerate(index)`"
            comps = [g for g in A.walk_body(prod[0].body) if isinstance(g, (ast.GeneratorExp, ast.ListComp)) and len(g.generators) == 1
                     and isinstance(g.generators[0].iter, ast.Call) and A.call_name(g.generators[0].iter) == "enumerate"
                     and g.generators[0].iter.args and A.src(g.generators[0].iter.args[0]) == index]
            if not en and len(comps) == 1 and isinstance(comps[0].generators[0].target, ast.Tuple) and not comps[0].generators[0].ifs:
                # the same pairing as one expression: tuple((edges[axis][i], edges[axis][i + 1]) for axis, i in enumerate(index))
                g = comps[0]
                ax, ii = [A.src(e) for e in g.generators[0].target.elts]
                el = g.elt
                okc = isinstance(el, ast.Tuple) and len(el.elts) == 2 and A.norm_src(el.elts[0]) == "%s[%s][%s]" % (ep, ax, ii) \
                    and A.norm_src(el.elts[1]) in ("%s[%s][%s + 1]" % (ep, ax, ii), "%s[%s][1 + %s]" % (ep, ax, ii))
                why = "the bounds per axis are `%s`, not (edges[axis][i], edges[axis][i + 1])" % A.short(el, 60)
                if okc:
                    holder = A.parent(g)
                    okc = isinstance(holder, ast.Call) and A.call_name(holder) == "tuple" and len(holder.args) == 1
                    why = "the per-axis bounds are not collected with tuple(...)"
                if okc:
                    ys = [y for y in A.walk_body(prod[0].body) if isinstance(y, ast.Yield)]
                    okc = len(ys) == 1 and isinstance(ys[0].value, ast.Tuple) and len(ys[0].value.elts) == 2 and A.src(ys[0].value.elts[0]) == binv
                    why = "the yielded pair is `%s`, not (content, bounds)" % (A.src(ys[0].value) if ys else None)
                    if okc:
                        second = ys[0].value.elts[1]
                        if isinstance(second, ast.Name):
                            defs = [a for a in A.walk_body(prod[0].body) if isinstance(a, ast.Assign) and any(A.src(t) == second.id for t in a.targets)]
                            okc = len(defs) == 1 and defs[0].value is holder
                        else:
                            okc = second is holder
                ctx.check("C12-h", okc, fn, "iter_bins_with_edges: %s -- a cell would be reported with other edges than its own (or with "
                          "its bounds swapped)" % why, detail="iter_bins_with_edges: content and (low, high) per axis from one index",
                          construct="iter_bins_with_edges-pairing")
                ok = None
            elif not en and comps:
                ctx.unknown("C12-h", fn, "iter_bins_with_edges pairs the bounds in a form the rule does not read: `%s`" % A.short(comps[0], 70))
                ok = None
            if ok:
                ax, ii = [A.src(e) for e in en[0].target.elts]
                apps = {}
                for c in A.walk_body(en[0].body):
                    if isinstance(c, ast.Call) and isinstance(c.func, ast.Attribute) and c.func.attr == "append" and len(c.args) == 1:
                        apps[A.src(c.func.value)] = A.norm_src(c.args[0])
                lows = [k for k, v in apps.items() if v == "%s[%s][%s]" % (ep, ax, ii)]
                highs = [k for k, v in apps.items() if v in ("%s[%s][%s + 1]" % (ep, ax, ii), "%s[%s][1 + %s]" % (ep, ax, ii))]
                ok = len(lows) == 1 and len(highs) == 1 and len(apps) == 2
                why = "the bounds appended per axis are %s, not edges[axis][i] and edges[axis][i + 1]" % sorted(apps.values())
                if ok:
                    ys = [y for y in A.walk_body(prod[0].body) if isinstance(y, ast.Yield)]
                    ok = len(ys) == 1 and A.src(ys[0].value).replace(" ", "") == "(%s,tuple(zip(%s,%s)))" % (binv, lows[0], highs[0])
                    why = "the yielded pair is `%s`, not (content, tuple(zip(lows, highs)))" % (A.src(ys[0].value) if ys else None)
    if ok is not None:
        ctx.check("C12-h", ok, fn, "iter_bins_with_edges: %s -- a cell would be reported with other edges than its own (or with its bounds "
                  "swapped)" % why, detail="iter_bins_with_edges: content and (low, high) per axis from one index", construct="iter_bins_with_edges-pairing")
    fn = ctx.tree.func(HFm, "get_bin_edges")
    ip, ep = A.func_params(fn)[:2]
    pairs = []
    for r in [r for r in A.walk_local(fn) if isinstance(r, ast.Return)]:
        v = r.value
        if isinstance(v, ast.Tuple) and len(v.elts) == 2:
            pairs.append((r, A.norm_src(v.elts[0]), A.norm_src(v.elts[1]), None))
        elif isinstance(v, ast.ListComp) and isinstance(v.elt, ast.Tuple) and len(v.elt.elts) == 2:
            pairs.append((r, A.norm_src(v.elt.elts[0]), A.norm_src(v.elt.elts[1]), v))
    okp = len(pairs) == 2
    for r, lo, hi, comp in pairs:
        if comp is None:
            okp = okp and lo == "%s[%s]" % (ep, ip) and hi in ("%s[%s + 1]" % (ep, ip), "%s[1 + %s]" % (ep, ip))
        else:
            g = comp.generators[0]
            okg = len(comp.generators) == 1 and A.call_name(g.iter) == "enumerate" and g.iter.args and A.src(g.iter.args[0]) == ip \
                and isinstance(g.target, ast.Tuple) and len(g.target.elts) == 2 and not g.ifs
            if okg:
                ax, ii = [A.src(e) for e in g.target.elts]
                okg = lo == "%s[%s][%s]" % (ep, ax, ii) and hi in ("%s[%s][%s + 1]" % (ep, ax, ii), "%s[%s][1 + %s]" % (ep, ax, ii))
            okp = okp and okg
    ctx.check("C12-h", okp, fn, "get_bin_edges does not return (edges[i], edges[i + 1]) -- per axis (edges[axis][i], edges[axis][i + 1]) -- "
              "for the given index", detail="get_bin_edges: (low, high) of the indexed cell", construct="get_bin_edges-pairing")
    # iter_cells: edges, content and index of one HistCell come from one index
    fn = ctx.tree.func(HFm, "iter_cells")
    cells = [c for c in A.walk_local(fn) if isinstance(c, ast.Call) and A.call_name(c) == "HistCell"]
    okc = len(cells) == 1 and len(cells[0].args) == 3
    if okc:
        e, b, i3 = cells[0].args
        okc = isinstance(i3, ast.Name) and isinstance(e, ast.Call) and res.call_canon(e) == HFm + ".get_bin_edges" and A.src(e.args[0]) == i3.id \
            and isinstance(b, ast.Call) and res.call_canon(b) == HFm + ".get_bin_on_index" and A.src(b.args[0]) == i3.id
        loop = A.enclosing(cells[0], ast.For)
        okc = okc and loop is not None and A.src(loop.target) == i3.id
    ctx.check("C12-h", okc, fn, "iter_cells does not build HistCell(get_bin_edges(ind, edges), get_bin_on_index(ind, bins), ind) from the "
              "loop's own index", detail="iter_cells: edges, content and index from one ind", construct="iter_cells-pairing")
    # hist_to_graph: left = member 0, right = member 1, middle = half the sum, of every axis' (low, high)
    fn = ctx.tree.func(HFm, "hist_to_graph")
    want = {"left": "coord[0]", "right": "coord[1]"}
    n = 0
    for st in A.walk_local(fn):
        if not (isinstance(st, ast.Assign) and isinstance(st.value, ast.Lambda)):
            continue
        iff = A.enclosing(st, ast.If)
        if iff is None:
            continue
        m = [c for c in ast.walk(iff.test) if isinstance(c, ast.Constant) and c.value in ("left", "right", "middle")]
        conds = [k for k in ("left", "right", "middle") if any(x.value == k for x in m)]
        if len(conds) != 1 or st not in iff.body:
            continue
        kind = conds[0]
        n += 1
        lam = st.value
        body = lam.body
        gen = body.args[0] if isinstance(body, ast.Call) and A.call_name(body) == "tuple" and body.args else None
        ok2 = isinstance(gen, (ast.GeneratorExp, ast.ListComp)) and len(gen.generators) == 1 and A.src(gen.generators[0].iter) == A.func_params(lam)[0]
        if ok2:
            c = A.src(gen.generators[0].target)
            e = A.norm_src(gen.elt).replace(c, "coord")
            if kind in want:
                ok2 = e == want[kind]
            else:
                ok2 = e in ("0.5 * (coord[0] + coord[1])", "(coord[0] + coord[1]) / 2", "(coord[0] + coord[1]) * 0.5", "(coord[0] + coord[1]) / 2.0")
        ctx.check("C12-h", ok2, st, "hist_to_graph takes `%s` for get_coordinate=%r: the point would not sit at the %s of its cell" % (
            A.short(lam, 60), kind, kind), detail="hist_to_graph: %s coordinate" % kind, construct="hist_to_graph-coord:%s" % kind)
    ctx.instances_floor("C12-h/coords", n, 3, "coordinate selectors of hist_to_graph")
    loops = [l for l in A.walk_local(fn) if isinstance(l, ast.For) and isinstance(l.iter, ast.Call) and res.call_canon(l.iter) == HFm + ".iter_bins_with_edges"]
    okl = len(loops) == 1 and [A.src(a) for a in loops[0].iter.args] == ["hist.bins", "hist.edges"]
    ctx.check("C12-h", okl, fn, "hist_to_graph does not enumerate iter_bins_with_edges(hist.bins, hist.edges)", detail="hist_to_graph: one point per cell",
              construct="hist_to_graph-cells")


def check_pass_through(ctx):
    res = ctx.res
    n = 0
    for modname in ("lena.math.utils", "lena.math.meshes", "lena.structures.hist_functions", "lena.context.functions"):
        mod = ctx.tree.module(modname)
        for fn in [d for d in mod.tree.body if isinstance(d, ast.FunctionDef)]:
            formal = A.func_params(fn)
            if fn.args.vararg or fn.args.kwarg:
                continue
            rebound = {x.id for x in A.walk_local(fn, include_self=False) if isinstance(x, ast.Name) and isinstance(x.ctx, ast.Store)}
            stable = [p for p in formal if p not in rebound]
            for c in A.walk_local(fn):
                if not (isinstance(c, ast.Call) and res.call_canon(c) == "%s.%s" % (modname, fn.name)):
                    continue
                n += 1
                bound = {}
                for k, a in enumerate(c.args):
                    if k < len(formal):
                        bound[formal[k]] = a
                for kw in c.keywords:
                    if kw.arg:
                        bound[kw.arg] = kw.value
                swapped = [(p, a.id) for p, a in bound.items() if isinstance(a, ast.Name) and a.id in stable and p in stable and a.id != p]
                ctx.check("C12-i", not swapped, c, "%s calls itself with %s: a parameter that the function never changes is handed on in the "
                          "place of another one (for isclose: the relative tolerance is used as the absolute one one level down, so "
                          "histogram.add accepts edges that differ and refuses edges that are equal up to rounding)" % (
                              fn.name, ", ".join("%s=%s" % sw for sw in swapped)),
                          detail="%s: recursion passes its parameters on in place" % fn.name, construct="recursion-swap:%s" % fn.name)
    ctx.instances_floor("C12-i", n, 4, "recursive calls in the numeric and dictionary helpers")
    # scale_to: a value that cannot be rescaled is skipped, the rest of the group is still rescaled
    fn = ctx.tree.func("lena.flow.group_scale", "scale_to")
    gp = A.func_params(fn)[1]
    loops = [l for l in A.walk_local(fn) if isinstance(l, ast.For) and A.src(l.iter) == gp]
    if ctx.require(len(loops) == 1, "C12-i", fn, "scale_to: the loop over the group was not found"):
        loop = loops[0]
        calls = [c for c in A.walk_body(loop.body) if isinstance(c, ast.Call) and isinstance(c.func, ast.Attribute) and c.func.attr == "scale"]
        ctx.instances_floor("C12-i/scale_to", len(calls), 1, "scale calls in the group loop")
        for c in calls:
            tries = []
            child = c
            for a in A.ancestors(c):
                if a is fn:
                    break
                if isinstance(a, ast.Try) and any(child is b or child in list(ast.walk(b)) for b in a.body):
                    tries.append(a)
                child = a
            for t in tries:
                for h in t.handlers:
                    tolerant = any(q.end != "raise" for q in P.paths_through(h.body))
                    inside = loop in list(A.ancestors(t))
                    ctx.check("C12-i", inside or not tolerant, h, "scale_to handles `%s` around the whole loop over the group, not per item: "
                              "the first value that cannot be rescaled ends the loop silently and every structure after it keeps its old "
                              "scale" % (A.src(h.type) if h.type is not None else "any exception"),
                              detail="scale_to: tolerated failure handled per item (%s)" % (A.src(h.type) if h.type is not None else "*"),
                              construct="handler-outside-loop:%s" % (A.src(h.type) if h.type is not None else "*"))


# (module, class) -> method -> fields it may store through self; any other method must store nothing
WRITERS = {
    (HIST, "histogram"): {"fill": {"n_out_of_range"}, "set_nevents": {"bins", "n_out_of_range"}, "scale": {"_scale", "bins", "n_out_of_range"}},
    (GRAPH, "graph"): {"scale": {"_scale", "coords"}},
}
_SELF_MUT = ("append", "extend", "insert", "pop", "remove", "clear", "update", "setdefault", "popitem", "sort", "reverse", "add", "discard")


def check_who_may_write(ctx):
    """histogram.fill changes a cell in place (self.bins stays the same list), scale/set_nevents rebind bins: no derived quantity
    can be cached on the object and stay valid, and none is.  The rule keeps it so: it tables the writers."""
    from ..loader import methods
    n = 0
    for (modname, cname), table in sorted(WRITERS.items()):
        cls = ctx.tree.cls(modname, cname)
        ms = methods(cls)
        init_fields = set()
        for name, fn in sorted(ms.items()):
            selfn = (A.func_params(fn) or ["self"])[0]
            written = {}
            for x in A.walk_local(fn):
                f = None
                if isinstance(x, (ast.Attribute, ast.Subscript)) and isinstance(x.ctx, (ast.Store, ast.Del)) and A.root_name(x) == selfn:
                    f = x
                elif isinstance(x, ast.Call) and isinstance(x.func, ast.Attribute) and x.func.attr in _SELF_MUT \
                        and A.root_name(x.func.value) == selfn and not (isinstance(x.func.value, ast.Name)):
                    f = x.func.value
                elif isinstance(x, ast.Call) and A.call_name(x) in ("setattr", "__setattr__") and x.args and A.src(x.args[0]) == selfn:
                    written.setdefault(A.const(x.args[1], "<computed>") if len(x.args) > 1 else "<computed>", x)
                elif isinstance(x, ast.Attribute) and x.attr == "__dict__" and A.src(x.value) == selfn:
                    written.setdefault("__dict__", x)
                if f is not None:
                    while isinstance(f, (ast.Attribute, ast.Subscript)) and not (isinstance(f, ast.Attribute) and A.src(f.value) == selfn):
                        f = f.value
                    if isinstance(f, ast.Attribute):
                        written.setdefault(f.attr, x)
            if name == "__init__":
                init_fields = set(written)
                continue
            n += 1
            allowed = table.get(name, set())
            extra = sorted(set(written) - allowed)
            ctx.check("C12-j", not extra, written[extra[0]] if extra else fn,
                      "%s.%s stores %s through self (`%s`); %s.  fill() changes cells in place and does not know about such a field, so a value "
                      "remembered here goes stale: get_nevents() after a further fill would report the old count and set_nevents(n) "
                      "would scale by it" % (cname, name, ", ".join(extra), A.short(written[extra[0]], 50) if extra else "",
                                              "it may only write " + ", ".join(sorted(allowed)) if allowed else "it is a query and must write nothing"),
                      detail="%s.%s writes %s" % (cname, name, ", ".join(sorted(written)) or "nothing"), construct="writes:%s.%s" % (cname, name))
        ctx.note("init_fields_%s" % cname, sorted(init_fields))
    ctx.instances_floor("C12-j", n, 14, "methods of histogram and graph")


def check(ctx):
    K.check_dimension_predicates(ctx, "C12-k", "iter_bins_with_edges (hence hist_to_graph and ToCSV) yields one bogus cell holding whole axes "
                                 "where iter_bins and iter_cells yield every cell")
    check_who_may_write(ctx)
    check_pass_through(ctx)
    check_pairing(ctx)
    check_agreements(ctx)
    check_tocsv_stateless(ctx)
    check_index_limits(ctx)
    check_zero_guards(ctx)
    check_add(ctx)
    check_consistent(ctx)
    check_delegation(ctx)


VARIANTS = [
    M("revert-fix-iter-bins-with-edges-dim", "lena/structures/hist_functions.py", "    if not hasattr(edges[0], '__iter__'):\n        edges = [edges]", "    if not isinstance(edges[0], list):\n        edges = [edges]", ["C12-k"]),
    M("unify-1-md-lists-only", "lena/structures/hist_functions.py", "    if hasattr(edges[0], '__iter__'):\n    # if isinstance(edges[0], (list, tuple)):", "    if isinstance(edges[0], list):", ["C12-k"]),
    M("get-nevents-memo", "lena/structures/histogram.py", "        bin_contents = (val[1] for val in hf.iter_bins(self.bins))\n        n_in_range = sum(bin_contents)\n",
      "        cached = getattr(self, \"_nevents\", None)\n        if cached is not None and cached[0] is self.bins:\n            n_in_range = cached[1]\n        else:\n            bin_contents = (val[1] for val in hf.iter_bins(self.bins))\n            n_in_range = sum(bin_contents)\n            self._nevents = (self.bins, n_in_range)\n", ["C12-j"]),
    M("graph-rows-cached", "lena/structures/graph.py", "    def _parse_error_names(self, field_names):", "    def cached_len(self):\n        self.__dict__.setdefault(\"_len\", len(self.coords[0]))\n        return self._len\n\n    def _parse_error_names(self, field_names):", ["C12-j"]),
    M("isclose-tolerances-swapped", "lena/math/utils.py", "            if not isclose(el, b[ind], rel_tol, abs_tol):", "            if not isclose(el, b[ind], abs_tol, rel_tol):", ["C12-i"]),
    M("edges-high-is-low", "lena/structures/hist_functions.py", "            edges_high.append(edges[var][var_ind+1])", "            edges_high.append(edges[var][var_ind])", ["C12-h"]),
    M("edges-swapped-zip", "lena/structures/hist_functions.py", "        yield (bin_, tuple(zip(edges_low, edges_high)))", "        yield (bin_, tuple(zip(edges_high, edges_low)))", ["C12-h"]),
    M("iter-bins-neighbour", "lena/structures/hist_functions.py", "            for sub_ind, val in iter_bins(bins[ind]):", "            for sub_ind, val in iter_bins(bins[ind-1]):", ["C12-h"]),
    M("get-bin-edges-wide", "lena/structures/hist_functions.py", "        return (edges[index], edges[index+1])", "        return (edges[index], edges[index+2])", ["C12-h"]),
    M("graph-right-is-left", "lena/structures/hist_functions.py", "        get_coord = lambda edges: tuple(coord[1] for coord in edges)", "        get_coord = lambda edges: tuple(coord[0] for coord in edges)", ["C12-h"]),
    M("graph-middle-quarter", "lena/structures/hist_functions.py", "        get_coord = lambda edges: tuple(0.5*(coord[0] + coord[1])", "        get_coord = lambda edges: tuple(0.25*(coord[0] + coord[1])", ["C12-h"]),
    M("cells-other-index", "lena/structures/hist_functions.py", "        yield HistCell(get_bin_edges(ind, edges),\n                       get_bin_on_index(ind, bins),\n                       ind)", "        yield HistCell(get_bin_edges(ind, edges),\n                       get_bin_on_index(ind[::-1], bins),\n                       ind)", ["C12-h"]),
    M("set-nevents-own-count", "lena/structures/histogram.py", "        old_nevents = self.get_nevents(\n            include_out_of_range=include_out_of_range\n        )", "        old_nevents = self.get_nevents()\n        if include_out_of_range and self.n_out_of_range > 0:\n            old_nevents += self.n_out_of_range", ["C12-g"]),
    M("set-nevents-flag-dropped", "lena/structures/histogram.py", "        old_nevents = self.get_nevents(\n            include_out_of_range=include_out_of_range\n        )", "        old_nevents = self.get_nevents()", ["C12-g"]),
    M("parsed-errors-sorted", "lena/structures/graph.py", "            parsed_errors.append((\"error\", err_coords[0], err_tail, ind))\n\n        return parsed_errors", "            parsed_errors.append((\"error\", err_coords[0], err_tail, ind))\n\n        parsed_errors.sort(key=lambda err: err[1])\n        return parsed_errors", ["C12-g"]),
    M("errors-iterated-sorted", "lena/structures/graph.py", "        for err, ind in errors:\n            err_coords = []", "        for err, ind in sorted(errors):\n            err_coords = []", ["C12-g"]),
    M("hist-scale-no-zero-test", "lena/structures/histogram.py", "            if scale == 0:\n                raise LenaValueError(\n                    \"can not rescale histogram with zero scale\"\n                )\n", "", ["C12-a"]),
    M("graph-scale-none-only", "lena/structures/graph.py", "        if not self._scale:\n            raise lena.core.LenaValueError(\n                \"can't rescale a graph with zero or unknown scale\"",
      "        if self._scale is None:\n            raise lena.core.LenaValueError(\n                \"can't rescale a graph with zero or unknown scale\"", ["C12-a"]),
    M("add-accumulates-into-self", "lena/structures/histogram.py", "        new_bins = md_map(add, self.bins, obins)\n", "        new_bins = md_map(add, self.bins, obins)\n        self.bins = new_bins\n", ["C12-b"]),
    M("add-shares-edges", "lena/structures/histogram.py", "new_hist = histogram(edges=copy.deepcopy(self.edges), bins=new_bins)", "new_hist = histogram(edges=self.edges, bins=new_bins)", ["C12-b"]),
    M("scale-forgets-oor", "lena/structures/histogram.py", "            self.n_out_of_range *= other/scale\n", "", ["C12-c"]),
    M("graph-inplace", "lena/structures/graph.py", "                mappedl = list(map(partial(mul, rescale), arr))\n                self.coords[ind] = mappedl", "                arr[:] = map(partial(mul, rescale), arr)", ["C12-c"]),
    M("graph-rescales-all", "lena/structures/graph.py", "            if ind in last_coord_indices:\n", "            if True:\n", ["C12-c"]),
    M("scaleto-shallow-copy", "lena/structures/elements.py", "        data.scale(self._scale_to)\n", "        data = copy.copy(data)\n        data.scale(self._scale_to)\n", ["C12-d"]),
    TW("scaleto-deep-copy", "lena/structures/elements.py", "        data.scale(self._scale_to)\n", "        data = copy.deepcopy(data)\n        data.scale(self._scale_to)\n"),
    M("scaleto-conditional", "lena/structures/elements.py", "        data.scale(self._scale_to)\n", "        if context:\n            data.scale(self._scale_to)\n", ["C12-d"]),
    M("iter-cells-not-up", "lena/structures/hist_functions.py", "        if up is None:\n            up = max_ind\n        else:\n            # huge indices should not be supported as well.\n            if up > max_ind:",
      "        if not up:\n            up = max_ind\n        else:\n            # huge indices should not be supported as well.\n            if up > max_ind:", ["C12-f"]),
    M("iter-cells-zero-up-dropped", "lena/structures/hist_functions.py", "        low, up = coord_range\n        if low is None:\n            low = 0\n        else:",
      "        low, up = coord_range\n        if up is not None and not up:\n            up = None\n        if low is None:\n            low = 0\n        else:", ["C12-f"]),
    TW("iter-cells-limits-by-index", "lena/structures/hist_functions.py", "        low, up = coord_range\n", "        low = coord_range[0]\n        up = coord_range[1]\n"),
    TW("graph-rename-local", "lena/structures/graph.py", "                mappedl = list(map(partial(mul, rescale), arr))\n                self.coords[ind] = mappedl", "                self.coords[ind] = list(map(partial(mul, rescale), arr))"),
]
