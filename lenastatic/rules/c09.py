"""C09 -- accumulators: reset() equals a fresh element (reset/write discipline)."""
import ast

from .. import astutil as A
from .. import paths as P
from ..loader import methods
from ..selftest.runner import M, TW, V
from . import common as K

PROPERTY = "C09"
EXPLANATION = (
    "Decides the reset clause and the write discipline, not the numerical aggregates: (a) AGREE/completeness -- for "
    "every framework accumulator with a reset method, every field written by fill/compute/request/run/fill_into "
    "(stores, augmented stores, mutator calls, delegated fill, through local and element aliases and same-class "
    "helpers) that is not derived (rewritten before every read) is re-initialised by reset (store, clear(), "
    "delegated reset(), element-wise aliases established in __init__ included); (b) AGREE/init vs reset -- the "
    "expression reset assigns to a field equals the one __init__ assigns after substituting constructor "
    "parameters by their defaults, modulo the accepted idioms; (c) RESOLVE -- every attribute reset reads is "
    "assigned in the class and every field reset writes is read elsewhere; (d) who-may-write DSum._total: only "
    "Decimal(<parameter|constant>) or self._dcontext.add(...), the context always traps Inexact, the retry "
    "loop raises the precision in the Inexact handler; (e) fill stores the context of the filled value; "
    "(f) every constructor parameter reaches state or a call; (g) a template field kept as a private deep copy "
    "is used by reset only through copy.deepcopy; (h) no parameter default of an accumulator's methods is a mutable "
    "object (a default is created once and shared by all instances built without that argument).  Does not decide that the aggregate is numerically the "
    "documented one."    " Added after the eighth round of seeded changes and the second round of behaviour-preserving changes: (j) Vectorize.compute combines the components' compute() results with zip_longest, never zip/map; (k) a generator method of Count never assigns a field after a yield from a read of that field made before the yield (updates made while suspended would be lost)."
)
RULES = {
    "C09-j": "COMPONENT-WISE: Vectorize.compute combines the results of its inner accumulators with zip_longest (all of them, padded), "
             "never with a truncating zip",
    "C09-k": "NO LOST COUNT: a generator method of an accumulator never overwrites a field with a value computed from a read of that "
             "field made before a yield (fills that happen while the generator is suspended would be lost)",
    "C09-i": "GUARD: compute() yields nothing under pass_on_empty only where the fill counter was seen to be zero",
    "C09-a": "AGREE: fields written while filling/computing (minus derived ones) are re-initialised by reset",
    "C09-b": "AGREE: reset assigns what __init__ assigns with parameters at their defaults",
    "C09-c": "RESOLVE: attributes read in reset exist; fields written in reset are read somewhere",
    "C09-d": "who-may-write: DSum._total comes only from the Inexact-trapping context or Decimal(param|const)",
    "C09-e": "fill keeps the context of the filled value in the context field",
    "C09-f": "every constructor parameter of an accumulator reaches state or a call",
    "C09-g": "a template kept as a private deep copy is used by reset only through copy.deepcopy",
    "C09-h": "no shared default state: a parameter default of an accumulator's methods is immutable (a default object is "
             "created once at import and shared by every instance constructed without that argument)",
}

MUTATORS = {"append", "extend", "update", "add", "insert", "pop", "remove", "setdefault", "appendleft", "sort", "popitem", "discard"}
# named exceptions: (class, field) -> reason
NOT_RESET = {
    ("DSum", "_dcontext"): "working precision only grows; the context traps Inexact, so results are exact whatever the starting precision",
    ("Vectorize", "_filled_once"): "written only in __init__ (never by fill)",
}
# accepted init-vs-reset differences: (class, field) -> reason
RESET_TO_ZERO = {
    ("Count", "count"): "documented: reset sets count to zero, not to the initial counter",
    ("Sum", "_total"): "documented: total is reset to 0 (not the starting number)",
    ("DSum", "_total"): "documented: the initial total is for copies of an object, reset gives Decimal(0)",
}


def accumulators(ctx):
    out = []
    for mod, cls in ctx.tree.classes():
        if mod.name.startswith("lena.core"):
            continue
        ms = methods(cls)
        if "fill" in ms and ("compute" in ms or "request" in ms) and ("reset" in ms or "_reset" in ms):
            if cls.name.startswith("_"):
                continue
            out.append((mod, cls))
    return out


def self_field(node):
    """self.<f>... -> f for an access path rooted in self."""
    ch = node
    while isinstance(ch, (ast.Subscript, ast.Attribute, ast.Starred)) and not A.is_self_attr(ch):
        ch = ch.value
    return ch.attr if A.is_self_attr(ch) else None


def local_aliases(fn):
    """name -> field for locals that alias a field or its elements:
    x = self.f ; for x in self.f ; for i, x in enumerate(self.f)."""
    out = {}
    for n in A.walk_local(fn):
        if isinstance(n, ast.Assign) and len(n.targets) == 1 and isinstance(n.targets[0], ast.Name):
            f = self_field(n.value) if isinstance(n.value, (ast.Attribute, ast.Subscript)) else None
            if f:
                out[n.targets[0].id] = f
        elif isinstance(n, ast.For):
            it = n.iter
            if isinstance(it, ast.Call) and A.call_name(it) in ("enumerate", "reversed", "iter", "list") and it.args:
                it = it.args[0]
            f = self_field(it) if isinstance(it, (ast.Attribute, ast.Subscript)) else None
            if f:
                names = A.target_names(n.target)
                for nm in (names[-1:] if isinstance(n.iter, ast.Call) and A.call_name(n.iter) == "enumerate" else names):
                    out[nm] = f
    return out


def effects_of(cls, fn, depth=1, seen=None):
    """(writes, resets): field -> set of kinds."""
    seen = seen or set()
    if fn in seen:
        return {}, {}
    seen = seen | {fn}
    writes, resets = {}, {}
    alias = local_aliases(fn)

    def fld(expr):
        if isinstance(expr, ast.Name):
            return alias.get(expr.id)
        return self_field(expr) if isinstance(expr, (ast.Attribute, ast.Subscript)) else None

    for n in A.walk_local(fn, include_self=False):
        if isinstance(n, (ast.Attribute, ast.Subscript)) and isinstance(n.ctx, (ast.Store, ast.Del)):
            f = self_field(n)
            if f is None and isinstance(n, ast.Subscript):
                f = fld(n.value) if isinstance(n.value, ast.Name) else None
            if f:
                kind = "store" if A.is_self_attr(n) else "item-store"
                writes.setdefault(f, set()).add(kind)
                if A.is_self_attr(n):
                    resets.setdefault(f, set()).add("store")
        elif isinstance(n, ast.AugAssign):
            f = self_field(n.target) if not isinstance(n.target, ast.Name) else None
            if f:
                writes.setdefault(f, set()).add("aug")
        elif isinstance(n, ast.Call) and isinstance(n.func, ast.Attribute):
            recv = n.func.value
            f = fld(recv)
            if f and not A.is_self_attr(n.func):
                if n.func.attr in MUTATORS:
                    writes.setdefault(f, set()).add("mutate")
                elif n.func.attr == "clear":
                    writes.setdefault(f, set()).add("mutate")
                    resets.setdefault(f, set()).add("clear")
                elif n.func.attr in ("fill", "fill_into"):
                    writes.setdefault(f, set()).add("delegated-fill")
                elif n.func.attr in ("reset", "_reset"):
                    writes.setdefault(f, set()).add("delegated-reset")
                    resets.setdefault(f, set()).add("delegated-reset")
            if A.is_self_attr(n.func) and depth > 0:
                h = methods(cls).get(n.func.attr)
                if h is not None:
                    w2, r2 = effects_of(cls, h, depth - 1, seen)
                    for k, v in w2.items():
                        writes.setdefault(k, set()).update(v)
                    for k, v in r2.items():
                        resets.setdefault(k, set()).update(v)
    return writes, resets


def derived_fields(cls):
    """Fields whose every read, in every method, is preceded in that method by a write
    (directly or through a same-class helper called earlier): Graph._context, Graph.dim."""
    ms = methods(cls)
    writers = {}
    for name, fn in ms.items():
        w, _ = effects_of(cls, fn, depth=0)
        for f, kinds in w.items():
            if "store" in kinds:
                writers.setdefault(f, set()).add(name)
    derived = set()
    for f in writers:
        ok = True
        any_read = False
        for name, fn in ms.items():
            if name == "__init__":
                continue
            reads = [n for n in A.walk_local(fn) if isinstance(n, ast.Attribute) and A.is_self_attr(n, f) and isinstance(n.ctx, ast.Load)]
            if not reads:
                continue
            any_read = True
            first_read = min(r.lineno for r in reads)
            # a store in this method, or a call of a helper that stores it, located before the first read
            pre = False
            for n in A.walk_local(fn):
                if getattr(n, "lineno", 10 ** 9) > first_read:
                    continue
                if isinstance(n, ast.Attribute) and A.is_self_attr(n, f) and isinstance(n.ctx, ast.Store) and n.lineno < first_read:
                    pre = True
                if isinstance(n, ast.Call) and A.is_self_attr(n.func) and n.func.attr in writers[f] and n.lineno <= first_read \
                        and n.func.attr != name:
                    pre = True
            if name in writers[f] and not pre:
                # the writer itself reads before writing?
                fn_stores = [n for n in A.walk_local(fn) if isinstance(n, ast.Attribute) and A.is_self_attr(n, f) and isinstance(n.ctx, ast.Store)]
                pre = bool(fn_stores) and min(s.lineno for s in fn_stores) <= first_read
            if not pre:
                ok = False
        if ok and any_read:
            derived.add(f)
    return derived


def element_aliases(cls):
    """F2 -> F1 when __init__ builds self.F2 from a local list filled inside
    `for y in self.F1` with y or an attribute of y (Vectorize._fc_els / _seqs)."""
    out = {}
    init = methods(cls).get("__init__")
    if init is None:
        return out
    for loop in A.walk_local(init):
        if not isinstance(loop, ast.For) or not A.is_self_attr(loop.iter):
            continue
        src_field = loop.iter.attr
        y = A.target_names(loop.target)
        derived = set(y)
        for n in A.walk_local(loop):
            if isinstance(n, ast.Assign) and len(n.targets) == 1 and isinstance(n.targets[0], ast.Name) \
                    and A.root_name(n.value) in derived:
                derived.add(n.targets[0].id)
        for n in A.walk_local(loop):
            if isinstance(n, ast.Call) and isinstance(n.func, ast.Attribute) and n.func.attr == "append" \
                    and isinstance(n.func.value, ast.Name) and n.args and A.root_name(n.args[0]) in derived:
                lst = n.func.value.id
                for a in A.walk_local(init):
                    if isinstance(a, ast.Assign) and isinstance(a.value, ast.Name) and a.value.id == lst:
                        for t in a.targets:
                            if A.is_self_attr(t):
                                out[t.attr] = src_field
    return out


def init_resets(cls):
    """__init__ ends by self.reset(): the initial state is the reset state by construction."""
    init = methods(cls).get("__init__")
    if init is None:
        return False
    return any(isinstance(n, ast.Call) and A.is_self_attr(n.func) and n.func.attr in ("reset", "_reset") for n in A.walk_local(init))


def norm(expr, subst=None):
    s = A.src(expr)
    s = s.replace("dict()", "{}").replace("list()", "[]")
    return s


def check_reset(ctx):
    res = ctx.res
    accs = accumulators(ctx)
    ctx.instances_floor("C09-a", len(accs), 11, "accumulators with a reset method")
    ctx.note("accumulators", [c.name for m, c in accs])
    for mod, cls in accs:
        ms = methods(cls)
        reset = ms.get("reset") or ms.get("_reset")
        W = {}
        for name in ("fill", "compute", "request", "run", "fill_into"):
            fn = ms.get(name)
            if fn is None:
                continue
            w, _ = effects_of(cls, fn)
            for f, kinds in w.items():
                W.setdefault(f, set()).update("%s in %s" % (k, name) for k in kinds)
        _, R = effects_of(cls, reset)
        ea = element_aliases(cls)
        Rfields = set(R)
        for f2, f1 in ea.items():
            if f2 in Rfields:
                Rfields.add(f1)
        D = derived_fields(cls)
        for f in sorted(W):
            if f in D:
                ctx.ok("C09-a", cls, "%s.%s is derived (rewritten before every read)" % (cls.name, f), nontrivial=False)
                continue
            if (cls.name, f) in NOT_RESET:
                ctx.ok("C09-a", cls, "%s.%s: named exception -- %s" % (cls.name, f, NOT_RESET[(cls.name, f)]), nontrivial=False)
                continue
            ctx.check("C09-a", f in Rfields, reset, "%s.%s does not re-initialise self.%s, which is written by %s: after reset() the "
                      "element is not equal to a newly constructed one" % (cls.name, reset.name, f, ", ".join(sorted(W[f]))),
                      detail="%s.%s is written (%s) and reset (%s)" % (cls.name, f, ", ".join(sorted(W[f]))[:60],
                                                                    ", ".join(sorted(R.get(f) or R.get(next((k for k, v in ea.items() if v == f), ""), ["alias"])))),
                      construct="unreset:%s.%s" % (cls.name, f))
        check_init_vs_reset(ctx, cls, reset, R)
        check_reset_names(ctx, cls, reset)
        check_templates(ctx, cls, reset)
        check_template_privacy(ctx, cls, reset)


def param_default_subst(init):
    d = A.param_defaults(init)
    return {k: A.src(v) for k, v in d.items()}


def check_init_vs_reset(ctx, cls, reset, R):
    ms = methods(cls)
    init = ms.get("__init__")
    if init is None or init_resets(cls):
        ctx.ok("C09-b", cls, "%s.__init__ establishes its state by calling reset(): equal by construction" % cls.name)
        return
    defaults = param_default_subst(init)
    init_assign = {}
    for n in A.walk_local(init):
        if isinstance(n, ast.Assign):
            for t in n.targets:
                if A.is_self_attr(t):
                    init_assign.setdefault(t.attr, []).append(n.value)
                elif isinstance(t, ast.Tuple):
                    for e in t.elts:
                        if A.is_self_attr(e):
                            init_assign.setdefault(e.attr, []).append(None)
    for n in A.walk_local(reset):
        if not isinstance(n, ast.Assign):
            continue
        for t in n.targets:
            if not A.is_self_attr(t):
                continue
            f = t.attr
            if f not in init_assign:
                ctx.violation("C09-b", n, "%s.%s assigns self.%s, which __init__ never sets: the reset state is not the initial state"
                              % (cls.name, reset.name, f), construct="reset-only:%s.%s" % (cls.name, f))
                continue
            rs = norm(n.value)
            cands = set()
            for v in init_assign[f]:
                if v is None:
                    continue
                s = norm(v)
                cands.add(s)
                # substitute parameters by defaults (whole-token replacement on Name nodes)
                sub = ast.parse(s, mode="eval").body
                for x in ast.walk(sub):
                    if isinstance(x, ast.Name) and x.id in defaults:
                        x.id = "(%s)" % defaults[x.id]
                s2 = A.src(sub).replace("(", "").replace(")", "") if False else A.src(sub)
                cands.add(s2.replace("((", "(").replace("))", ")"))
                cands.add(substitute(v, defaults))
            ok = rs in cands or equal_modulo(ctx, cls, f, n.value, init_assign[f], defaults)
            if not ok and (cls.name, f) in RESET_TO_ZERO:
                zero = {"0", "Decimal(0)"}
                ok = rs in zero
            ctx.check("C09-b", ok, n, "%s.%s sets self.%s = %s, while __init__ sets it to %s (parameters at their defaults): after "
                      "reset() the element differs from a newly constructed one" % (cls.name, reset.name, f, rs, " / ".join(sorted(c for c in cands if c))),
                      detail="%s.%s: reset value `%s` agrees with __init__" % (cls.name, f, rs), construct="init-vs-reset:%s.%s" % (cls.name, f))


def substitute(expr, defaults):
    tree = ast.parse(A.src(expr), mode="eval").body

    class Sub(ast.NodeTransformer):
        def visit_Name(self, n):
            if n.id in defaults:
                return ast.parse(defaults[n.id], mode="eval").body
            return n
    tree = Sub().visit(tree)

    class Fold(ast.NodeTransformer):
        def visit_IfExp(self, n):
            self.generic_visit(n)
            t = n.test
            if isinstance(t, ast.Compare) and len(t.ops) == 1 and isinstance(t.left, ast.Constant) \
                    and isinstance(t.comparators[0], ast.Constant):
                l, r = t.left.value, t.comparators[0].value
                op = t.ops[0]
                val = {ast.Is: l is r, ast.IsNot: l is not r, ast.Eq: l == r, ast.NotEq: l != r}.get(type(op))
                if val is not None:
                    return n.body if val else n.orelse
            if isinstance(t, ast.Constant):
                return n.body if t.value else n.orelse
            return n

        def visit_Call(self, n):
            self.generic_visit(n)
            if isinstance(n.func, ast.Name) and n.func.id == "bool" and len(n.args) == 1 and isinstance(n.args[0], ast.Constant):
                return ast.Constant(bool(n.args[0].value))
            return n
    tree = Fold().visit(tree)
    return A.src(tree)


def equal_modulo(ctx, cls, f, reset_value, init_values, defaults):
    """Accepted idioms: a rebuilt object of the same constructor; a field re-read from a template kept at
    construction (self._init_context['scale'] where __init__ built {'scale': scale} and set the field to scale)."""
    rs = A.src(reset_value)
    for v in init_values:
        if v is None:
            continue
        # same constructor call
        if isinstance(v, ast.Call) and isinstance(reset_value, ast.Call) and A.src(v.func) == A.src(reset_value.func):
            return True
        # template subscript: self.T["k"] with T = {"k": <init value of f>}
        if isinstance(reset_value, ast.Subscript) and A.is_self_attr(reset_value.value):
            tname = reset_value.value.attr
            key = A.const(reset_value.slice)
            init = methods(cls).get("__init__")
            for n in A.walk_local(init):
                if isinstance(n, ast.Assign) and any(A.is_self_attr(t, tname) for t in n.targets) and isinstance(n.value, ast.Dict):
                    for k, val in zip(n.value.keys, n.value.values):
                        if k is not None and A.const(k) == key and A.src(val) == A.src(v):
                            return True
    return False


def check_reset_names(ctx, cls, reset):
    ms = methods(cls)
    assigned = set()
    for fn in ms.values():
        for n in A.walk_local(fn):
            if isinstance(n, ast.Attribute) and A.is_self_attr(n) and isinstance(n.ctx, ast.Store):
                assigned.add(n.attr)
            if isinstance(n, ast.Call) and A.src(n.func) in ("object.__setattr__", "setattr") and len(n.args) >= 2 \
                    and isinstance(n.args[1], ast.Constant):
                assigned.add(n.args[1].value)
    class_attrs = set(ms)
    for st in cls.body:
        for t in A.assigned_targets(st):
            class_attrs.update(A.target_names(t))
    for n in A.walk_local(reset):
        if isinstance(n, ast.Attribute) and A.is_self_attr(n) and isinstance(n.ctx, ast.Load):
            ctx.check("C09-c", n.attr in assigned or n.attr in class_attrs, n,
                      "%s.%s reads self.%s, which the class never assigns: reset() raises AttributeError" % (cls.name, reset.name, n.attr),
                      detail="%s.%s reads existing attribute %s" % (cls.name, reset.name, n.attr), construct="reset-reads:%s.%s" % (cls.name, n.attr))
    for n in A.walk_local(reset):
        if isinstance(n, ast.Attribute) and A.is_self_attr(n) and isinstance(n.ctx, ast.Store):
            f = n.attr
            read = False
            for name, fn in ms.items():
                if fn is reset:
                    continue
                for x in A.walk_local(fn):
                    if isinstance(x, ast.Attribute) and A.is_self_attr(x, f) and isinstance(x.ctx, ast.Load):
                        read = True
            public = not f.startswith("_")
            ctx.check("C09-c", read or public, n, "%s.%s writes self.%s, which no other method reads: a dead store stands in for the real "
                      "reset" % (cls.name, reset.name, f), detail="%s.%s is read elsewhere" % (cls.name, f), construct="dead-reset:%s.%s" % (cls.name, f))


def check_templates(ctx, cls, reset):
    ms = methods(cls)
    init = ms.get("__init__")
    if init is None:
        return
    templates = set()
    for n in A.walk_local(init):
        if isinstance(n, ast.Assign) and ctx.res.is_call_to(n.value, "copy.deepcopy"):
            for t in n.targets:
                if A.is_self_attr(t):
                    templates.add(t.attr)
    written_in_reset = {n.attr for n in A.walk_local(reset) if isinstance(n, ast.Attribute) and A.is_self_attr(n) and isinstance(n.ctx, ast.Store)}
    for f in sorted(templates - written_in_reset):
        uses = [n for n in A.walk_local(reset) if isinstance(n, ast.Attribute) and A.is_self_attr(n, f) and isinstance(n.ctx, ast.Load)]
        for u in uses:
            par = A.parent(u)
            ok = isinstance(par, ast.Call) and ctx.res.canon(par.func) == "copy.deepcopy"
            ok = ok or isinstance(par, ast.Compare) or (isinstance(par, ast.UnaryOp))
            ctx.check("C09-g", ok, u, "%s.%s hands the template self.%s (a private deep copy made by __init__) to the live state without "
                      "copy.deepcopy: the next fills change the template, so the second reset() no longer restores the initial state"
                      % (cls.name, reset.name, f), detail="%s: template %s used through deepcopy" % (cls.name, f),
                      construct="template-alias:%s.%s" % (cls.name, f))


def check_template_privacy(ctx, cls, reset):
    """What reset() restores the initial state from (a field it reads under copy.deepcopy and never writes) must be private
    to the element from construction on: bound in __init__ to a deep copy (or to something immutable), not to the very
    object that __init__ also hands to the live state -- fills would change the template before reset() copies it."""
    res = ctx.res
    ms = methods(cls)
    init = ms.get("__init__")
    if init is None:
        return
    params = set(A.func_params(init))
    used_as_template = set()
    for c in A.walk_local(reset):
        if isinstance(c, ast.Call) and res.canon(c.func) == "copy.deepcopy" and c.args and A.is_self_attr(c.args[0]):
            used_as_template.add(c.args[0].attr)
    written_elsewhere = set()
    for name, fn in ms.items():
        if name in ("__init__",):
            continue
        for n in A.walk_local(fn):
            if isinstance(n, ast.Attribute) and A.is_self_attr(n) and isinstance(n.ctx, ast.Store):
                written_elsewhere.add(n.attr)
    for f in sorted(used_as_template - written_elsewhere):
        for st in A.walk_local(init):
            if not (isinstance(st, ast.Assign) and any(A.is_self_attr(t, f) for t in st.targets)):
                continue
            v = st.value
            if res.is_call_to(v, "copy.deepcopy") or isinstance(v, ast.Constant):
                ctx.ok("C09-g", st, "%s: template %s is private from construction on" % (cls.name, f))
                continue
            shared = False
            if isinstance(v, ast.Name) and v.id in params:
                for x in A.walk_local(init):
                    if isinstance(x, ast.Name) and x.id == v.id and isinstance(x.ctx, ast.Load) and A.parent(x) is not st:
                        par = A.parent(x)
                        if isinstance(par, ast.Call) and (x in par.args or any(k.value is x for k in par.keywords)) \
                                and res.canon(par.func) not in ("copy.deepcopy", "builtins.callable", "builtins.isinstance", "builtins.len"):
                            shared = True
                        elif isinstance(par, ast.Assign) and par.value is x:
                            shared = True
            ctx.check("C09-g", not shared, st, "%s.__init__ keeps `%s` as the template self.%s that %s() restores from, and hands the same "
                      "object to the live state: fills change the template in place, so %s() after a fill restores the filled state, "
                      "not the initial one" % (cls.name, A.src(v), f, reset.name, reset.name),
                      detail="%s: template %s not shared with the live state" % (cls.name, f), construct="template-shared:%s.%s" % (cls.name, f))


def check_dsum(ctx):
    res = ctx.res
    cls = ctx.tree.cls("lena.math.elements", "DSum")
    ms = methods(cls)
    n = 0
    for name, fn in ms.items():
        for a in A.walk_local(fn):
            if isinstance(a, ast.Assign) and any(A.is_self_attr(t, "_total") for t in a.targets):
                n += 1
                v = a.value
                ok = False
                al = K.func_aliases(fn)
                if isinstance(v, ast.Name) and v.id not in A.func_params(fn):
                    # the sum is carried in a local and stored back: on every path to the store the local holds
                    # <context>.add(<what _total held>, ..)
                    ok = True
                    n_p = 0
                    for p in P.paths_of(fn):
                        i = p.index(a)
                        if i < 0:
                            continue
                        n_p += 1
                        last = K.value_on_path(p, v, i)
                        okp = isinstance(last, ast.Call) and A.src(K.expand(last.func, al)) == "self._dcontext.add" and len(last.args) == 2
                        if okp:
                            j = max([k for k, e in enumerate(p.ev[:i]) if e[0] in ("stmt", "partial") and any(x is last for x in ast.walk(e[1]))] or [i])
                            first = K.value_on_path(p, last.args[0], j)
                            seen = 0
                            while isinstance(first, ast.Call) and A.src(K.expand(first.func, al)) == "self._dcontext.add" and seen < 3:
                                # the retry loop unrolled: the previous attempt's (failed) result is never the operand
                                seen += 1
                                break
                            okp = A.src(first) == "self._total"
                        ok = ok and okp
                    ok = ok and n_p > 0
                elif isinstance(v, ast.Call) and A.src(K.expand(v.func, al)) == "self._dcontext.add":
                    ok = len(v.args) == 2 and A.src(v.args[0]) == "self._total"
                elif isinstance(v, ast.Call) and res.canon(v.func) == "decimal.Decimal" and len(v.args) == 1:
                    arg = v.args[0]
                    ok = isinstance(arg, ast.Constant) or (isinstance(arg, ast.Name) and arg.id in A.func_params(fn))
                ctx.check("C09-d", ok, a, "DSum.%s assigns _total = %s: the exact sum may only come from the Inexact-trapping context's add "
                          "or from Decimal(<parameter or constant>)" % (name, A.src(v)), detail="DSum._total written by %s" % A.short(v, 40))
            if isinstance(a, ast.AugAssign) and A.is_self_attr(a.target, "_total"):
                ctx.violation("C09-d", a, "DSum.%s updates _total with `%s`: ordinary Decimal arithmetic rounds silently" % (name, A.src(a)))
            if isinstance(a, ast.Assign) and any(A.is_self_attr(t, "_dcontext") for t in a.targets):
                v = a.value
                traps = A.kwarg(v, "traps") if isinstance(v, ast.Call) else None
                ok = isinstance(v, ast.Call) and res.canon(v.func) == "decimal.Context" and traps is not None \
                    and any(res.canon(e) == "decimal.Inexact" for e in getattr(traps, "elts", []))
                ctx.check("C09-d", ok, a, "DSum.%s creates its decimal context as %s, without traps=[Inexact]: additions are silently "
                          "rounded to the context precision" % (name, A.src(v)), detail="context traps Inexact")
    ctx.instances_floor("C09-d", n, 3, "writes of DSum._total")
    fill = ms["fill"]
    loops = [l for l in A.walk_local(fill) if isinstance(l, ast.While)]
    ok = False
    for l in loops:
        tries = [t for t in l.body if isinstance(t, ast.Try)]
        if tries:
            t = tries[0]
            al = K.func_aliases(fill)
            has_add = any(isinstance(c, ast.Call) and A.src(K.expand(c.func, al)) == "self._dcontext.add" for s in t.body for c in ast.walk(s))
            has_break = any(isinstance(s, ast.Break) for s in t.body)
            h = [h for h in t.handlers if h.type is not None and res.canon(h.type) == "decimal.Inexact"]
            raises_prec = bool(h) and any(isinstance(s, ast.AugAssign) and A.src(K.expand(s.target, al)) == "self._dcontext.prec"
                                          and isinstance(s.op, ast.Add) for s in h[0].body)
            no_break_in_handler = bool(h) and not any(isinstance(s, (ast.Break, ast.Return)) for s in ast.walk(h[0]))
            ok = has_add and has_break and raises_prec and no_break_in_handler and A.is_const(l.test, True)
    ctx.check("C09-d", ok, fill, "DSum.fill is not `while True: try: total = ctx.add(...); break / except Inexact: prec += 1`",
              detail="retry loop raises precision until the addition is exact", construct="retry-loop")


def check_last_context(ctx):
    n = 0
    for mod, cls in accumulators(ctx):
        ms = methods(cls)
        fill = ms["fill"]
        ctx_fields = [f for f in ("_cur_context",) if any(
            isinstance(x, ast.Attribute) and A.is_self_attr(x, f) for m in ms.values() for x in A.walk_local(m))]
        if not ctx_fields:
            continue
        f = ctx_fields[0]
        n += 1
        # names bound to the context of the filled value
        cnames = set()
        direct = False
        for a in A.walk_local(fill):
            if isinstance(a, ast.Assign) and isinstance(a.value, ast.Call):
                cn = A.call_name(a.value)
                if cn == "get_data_context" and isinstance(a.targets[0], ast.Tuple) and len(a.targets[0].elts) == 2:
                    t = a.targets[0].elts[1]
                    if isinstance(t, ast.Name):
                        cnames.add(t.id)
                    elif A.is_self_attr(t, f):
                        direct = True
                elif cn == "get_context":
                    for t in a.targets:
                        if isinstance(t, ast.Name):
                            cnames.add(t.id)
                        elif A.is_self_attr(t, f):
                            direct = True
        changed = True
        while changed:
            changed = False
            for a in A.walk_local(fill):
                if isinstance(a, ast.Assign) and len(a.targets) == 1 and isinstance(a.targets[0], ast.Name) \
                        and isinstance(a.value, ast.Call) and ctx.res.canon(a.value.func) == "copy.deepcopy" \
                        and a.value.args and A.src(a.value.args[0]) in cnames and a.targets[0].id not in cnames:
                    cnames.add(a.targets[0].id)
                    changed = True
        for p in P.paths_of(fill):
            if p.end == "raise":
                continue
            stores = [s for s in p.stmts() if isinstance(s, ast.Assign) and any(A.is_self_attr(t, f) for t in s.targets)]
            tup = [s for s in p.stmts() if isinstance(s, ast.Assign) and isinstance(s.targets[0], ast.Tuple)
                   and any(A.is_self_attr(e, f) for e in s.targets[0].elts)]
            accounted = any(isinstance(c, ast.Call) and isinstance(c.func, ast.Attribute) and c.func.attr in ("fill", "append")
                            for s in p.stmts() for c in A.walk_local(s)) or any(isinstance(s, ast.AugAssign) for s in p.stmts())
            if not accounted and p.end == "return":
                continue   # value ignored (out of range)
            ok = bool(tup) or any(isinstance(s.value, ast.Name) and s.value.id in cnames for s in stores) or any(
                isinstance(s.value, ast.Call) and A.call_name(s.value) == "get_context" for s in stores)
            ctx.check("C09-e", ok, fill, "%s.fill accounts a value on path [%s] without storing its context in self.%s: the aggregate would "
                      "be yielded with the context of an earlier value" % (cls.name, p.describe(), f),
                      detail="%s.fill stores the filled value's context" % cls.name, construct="last-context:%s" % cls.name, path=p)
    ctx.instances_floor("C09-e", n, 8, "accumulators keeping the last context")


def check_ctor_params(ctx):
    for mod, cls in accumulators(ctx):
        init = methods(cls).get("__init__")
        if init is None:
            continue
        for p in A.func_params(init):
            if p == "self":
                continue
            used = any(isinstance(n, ast.Name) and n.id == p and isinstance(n.ctx, ast.Load) for n in A.walk_local(init))
            ctx.check("C09-f", used, init, "%s.__init__ ignores its parameter %s" % (cls.name, p),
                      detail="%s.__init__ uses %s" % (cls.name, p), construct="unused-param:%s.%s" % (cls.name, p))
        # a result computed from a parameter and dropped: `x = param()` never used afterwards
        for n in A.walk_local(init):
            if isinstance(n, ast.Assign) and len(n.targets) == 1 and isinstance(n.targets[0], ast.Name) and isinstance(n.value, ast.Call):
                name = n.targets[0].id
                later = [x for x in A.walk_local(init) if isinstance(x, ast.Name) and x.id == name and isinstance(x.ctx, ast.Load)
                         and x.lineno > n.lineno]
                if name in A.func_params(init) and not later:
                    ctx.violation("C09-f", n, "%s.__init__ computes `%s` and never uses the result" % (cls.name, A.src(n)),
                                  construct="dropped-result:%s.%s" % (cls.name, name))


IMMUTABLE_CTORS = {"builtins.tuple", "builtins.frozenset", "builtins.int", "builtins.float", "builtins.str", "builtins.bool",
                   "builtins.bytes", "builtins.complex", "decimal.Decimal", "fractions.Fraction", "builtins.object"}


def default_kind(res, d):
    """'immutable' | 'mutable' | 'unknown' for a parameter default expression."""
    if isinstance(d, (ast.Constant, ast.Lambda)):
        return "immutable"
    if isinstance(d, ast.UnaryOp):
        return default_kind(res, d.operand)
    if isinstance(d, ast.BinOp):
        a, b = default_kind(res, d.left), default_kind(res, d.right)
        return "immutable" if a == b == "immutable" else "unknown"
    if isinstance(d, ast.Tuple):
        ks = [default_kind(res, e) for e in d.elts]
        return "mutable" if "mutable" in ks else ("unknown" if "unknown" in ks else "immutable")
    if isinstance(d, (ast.List, ast.Dict, ast.Set, ast.ListComp, ast.DictComp, ast.SetComp)):
        return "mutable"
    if isinstance(d, (ast.Name, ast.Attribute)):
        # a reference to a module-level object: sentinel, function, class -- not created per default
        return "immutable"
    if isinstance(d, ast.Call):
        canon = res.call_canon(d)
        if canon in IMMUTABLE_CTORS:
            return "immutable"
        t = res.resolve(d.func)
        if t is not None and t.is_class:
            return "mutable"
        if canon in ("builtins.list", "builtins.dict", "builtins.set", "builtins.bytearray", "collections.deque",
                     "collections.OrderedDict", "collections.defaultdict"):
            return "mutable"
        return "unknown"
    return "unknown"


def check_shared_defaults(ctx):
    """C09-h: defaults are evaluated once; an accumulator (or other stateful object) given as a default is shared by all
    instances built without that argument, so a freshly constructed element does not start empty."""
    n = 0
    for mod, cls in accumulators(ctx):
        for name, fn in methods(cls).items():
            for par, d in A.param_defaults(fn).items():
                n += 1
                k = default_kind(ctx.res, d)
                if k == "unknown":
                    ctx.unknown("C09-h", d, "%s.%s: default `%s=%s` not classified" % (cls.name, name, par, A.src(d)))
                    continue
                ctx.check("C09-h", k == "immutable", d, "%s.%s has the default `%s=%s`: the object is created once when the class is "
                          "defined and shared by every %s constructed without %s -- a second fresh element starts with what the "
                          "first one was filled with (and reset of one resets the other)" % (cls.name, name, par, A.src(d), cls.name, par),
                          detail="%s.%s: default of %s is immutable" % (cls.name, name, par), construct="shared-default:%s.%s.%s" % (cls.name, name, par))
    ctx.instances_floor("C09-h", n, 15, "parameter defaults of accumulator methods")


def check_empty_means_empty(ctx):
    """pass_on_empty lets compute() of Mean / VarianceMeanCount yield nothing *when nothing was filled* -- and only then
    (the documentation: with one value and corrected=True `LenaZeroDivisionError is always raised`).  Every path of a
    compute() that ends without a yield and without raising under `_pass_on_empty` has established that the fill counter is
    zero: `not self._count`, `self._count == 0` (or `< 1`, `<= 0`) -- a comparison with anything but a constant
    zero widens 'empty' to samples that were filled."""
    n = 0
    for mod, cls in accumulators(ctx):
        ms = methods(cls)
        comp = ms.get("compute")
        if comp is None or not any(A.is_self_attr(x, "_pass_on_empty") for x in A.walk_local(comp) if isinstance(x, ast.Attribute)):
            continue
        seen = set()
        for p in P.paths_of(comp):
            if p.end == "raise" or p.yields():
                continue
            lits = p.literals()
            if not any(A.is_self_attr(t, "_pass_on_empty") and pol for t, pol in lits if isinstance(t, ast.Attribute)):
                continue
            empty = False
            for t, pol in lits:
                if isinstance(t, ast.Attribute) and A.is_self_attr(t) and t.attr != "_pass_on_empty" and pol is False:
                    empty = True      # `not self._count`
                lc = K.linear_cmp(t) if isinstance(t, ast.Compare) else None
                if lc is not None and len(lc[0]) == 1 and list(lc[0])[0].startswith("self."):
                    coef, const_, op = lc
                    if not pol:
                        coef, const_, op = K.negate_linear(lc)
                    a = list(coef.values())[0]
                    # a*x + c op 0 over integers x >= 0: does it pin x to 0?
                    if op == "==" and const_ == 0:
                        empty = True
                    elif op in ("<", "<=") and a > 0:
                        bound = (-const_) / float(a)
                        if (op == "<" and bound <= 1) or (op == "<=" and bound < 1):
                            empty = True
            key = p.describe(3)
            if key in seen:
                continue
            seen.add(key)
            n += 1
            ctx.check("C09-i", empty, comp, "%s.compute ends silently under pass_on_empty on path [%s], which does not establish that "
                      "nothing was filled (the counter is zero): a filled sample would yield nothing instead of its aggregate or the "
                      "documented error" % (cls.name, p.describe()),
                      detail="%s.compute: silent exit only for an empty sample [%s]" % (cls.name, p.describe(2)),
                      construct="silent-nonempty:%s" % cls.name, path=p)
    ctx.instances_floor("C09-i", n, 2, "silent pass_on_empty exits of compute()")


def check_vectorize_combine(ctx):
    """C09-j.  Vectorize yields the component-wise result of its inner accumulators: every result of every component, shorter
    components padded (documented).  zip() would silently stop at the shortest component."""
    fn = ctx.tree.func("lena.math.elements", "Vectorize.compute")
    combos = []
    for c in A.walk_local(fn):
        if isinstance(c, ast.Call) and any(isinstance(x, ast.Call) and isinstance(x.func, ast.Attribute) and x.func.attr == "compute"
                                           for a in c.args for x in ast.walk(a)):
            canon = ctx.res.call_canon(c) or ""
            if canon in ("builtins.zip", "builtins.map") or canon.startswith("itertools."):
                combos.append((c, canon))
    if not ctx.require(combos, "C09-j", fn, "Vectorize.compute: the call that combines the components' compute() results was not found"):
        return
    for c, canon in combos:
        ctx.check("C09-j", canon in ("itertools.zip_longest", "itertools.izip_longest"), c, "Vectorize.compute combines the results of its "
                  "components with `%s` (%s): it stops at the shortest component, so results of accumulators that yield more values "
                  "than their neighbours are silently dropped instead of being padded with None as documented" % (A.short(c, 60), canon),
                  detail="components combined with zip_longest", construct="vectorize-combine")


def check_no_lost_count(ctx):
    """C09-k.  Count.run documents that it does not overwrite the count field, in case of a simultaneous filling in another place:
    run is a generator, and between two of its yields the same element may be filled (or run) elsewhere.  A field of the
    element that is assigned, after a yield, a value computed from a read of the same field made before that yield loses every
    update made in between.  (`self.x += local` reads at the time of the write and is fine.)"""
    n = 0
    bad = 0
    for modname, cname in ACCUMULATOR_RUNS:
        cls = ctx.tree.cls(modname, cname)
        for name, fn in sorted(methods(cls).items()):
            if not A.is_generator(fn):
                continue
            for p in P.paths_of(fn):
                n += 1
                ys = [i for i, _ in p.yields()]
                if not ys:
                    continue
                taint = {}       # local -> (field, event index of the read)
                for i, e in enumerate(p.ev):
                    if e[0] != "stmt":
                        continue
                    st = e[1]
                    if isinstance(st, (ast.Assign, ast.AugAssign)):
                        tg = st.targets if isinstance(st, ast.Assign) else [st.target]
                        reads = [(x.attr, i) for x in ast.walk(st.value) if A.is_self_attr(x) and isinstance(x.ctx, ast.Load)]
                        via = [taint[x.id] for x in ast.walk(st.value) if isinstance(x, ast.Name) and x.id in taint]
                        for t in tg:
                            if isinstance(t, ast.Name):
                                src = reads + via
                                if isinstance(st, ast.AugAssign) and t.id in taint:
                                    src = src + [taint[t.id]]
                                if src:
                                    taint[t.id] = min(src, key=lambda z: z[1])
                                elif isinstance(st, ast.Assign):
                                    taint.pop(t.id, None)
                            elif A.is_self_attr(t) and isinstance(st, ast.Assign):
                                for fld, at in via:
                                    if fld == t.attr and any(at < y < i for y in ys):
                                        key = (A.qualname(fn), fld)
                                        if key not in SEEN_LOST:
                                            SEEN_LOST.add(key)
                                            bad += 1
                                            ctx.violation("C09-k", st, "%s.%s assigns `%s` after a yield from a value that goes back to a read "
                                                          "of self.%s made before that yield [%s]: whatever was added to the field while the "
                                                          "generator was suspended (a fill of the same element in another place, a second "
                                                          "run) is overwritten, so the element no longer yields the number of values it has "
                                                          "seen" % (cname, name, A.short(st, 50), fld, p.describe(3)),
                                                          construct="stale-overwrite:%s.%s:%s" % (cname, name, fld), path=p)
    SEEN_LOST.clear()
    ctx.instances_floor("C09-k", n, 3, "paths of generator methods of the accumulators that can also be run")
    if not bad:
        ctx.ok("C09-k", ctx.tree.func("lena.flow.elements", "Count.run"), "%d paths: no field overwritten from a read older than a yield" % n)


ACCUMULATOR_RUNS = (("lena.flow.elements", "Count"),)
SEEN_LOST = set()


def check(ctx):
    check_vectorize_combine(ctx)
    check_no_lost_count(ctx)
    check_empty_means_empty(ctx)
    check_reset(ctx)
    check_shared_defaults(ctx)
    check_dsum(ctx)
    check_last_context(ctx)
    check_ctor_params(ctx)


VARIANTS = [
    M("vectorize-zip", "lena/math/elements.py", "        it = _zip_longest(*(seq.compute() for seq in self._seqs))", "        it = zip(*(seq.compute() for seq in self._seqs))", ["C09-j"]),
    V("mutant", "count-run-snapshot", None, None, None, ["C09-k"], edits=[
        ("lena/flow/elements.py", "        count = 1\n        for val in flow:", "        count = self.count + 1\n        for val in flow:", 0),
        ("lena/flow/elements.py", "        self.count += count\n", "        self.count = count\n", 0)]),
    M("vmc-empty-includes-one", "lena/math/elements.py", "        if not self._count:\n            if self._pass_on_empty:\n                return\n            raise LenaZeroDivisionError(\n                \"can't calculate average. No values were filled\"",
      "        if self._count < 2:\n            if self._pass_on_empty:\n                return\n            raise LenaZeroDivisionError(\n                \"can't calculate average. No values were filled\"", ["C09-i"]),
    M("histogram-template-not-copied", "lena/structures/histogram.py", "        self._initial_bins = copy.deepcopy(bins)", "        self._initial_bins = bins", ["C09-g"]),
    M("vmc-shared-default-sums", "lena/math/elements.py", "    def __init__(self, sum_sq=None, sum_=None, corrected=True,", "    def __init__(self, sum_sq=Sum(), sum_=Sum(), corrected=True,", ["C09-h"]),
    M("storefilled-shared-list", "lena/flow/elements.py", "class StoreFilled(object):", "class StoreFilled(object):\n    def unused(self, acc=[]):\n        return acc\n", ["C09-h"]),
    M("revert-fix-graph-scale", "lena/structures/graph.py", "        # the scale could be set from context during fill\n        self._scale = self._init_context[\"scale\"]\n", "", ["C09-a"]),
    V("mutant", "revert-fix-histogram-reset", None, None, None, ["C09-a", "C09-c"], edits=[
        ("lena/structures/histogram.py", "        self._hist = histogram(self._hist.edges, bins, self._initial_value)\n", "        self.bins = bins\n", 0)]),
    M("mean-forgets-count", "lena/math/elements.py", "            self._sum = 0\n        self._count = 0\n        self._cur_context = {}", "            self._sum = 0\n        self._cur_context = {}", ["C09-a"]),
    M("sum-resets-to-one", "lena/math/elements.py", "        self._total = 0\n        self._cur_context = {}", "        self._total = 1\n        self._cur_context = {}", ["C09-b"]),
    M("dsum-context-no-trap", "lena/math/elements.py", "        self._total = Decimal(0)\n        self._cur_context = {}", "        self._total = Decimal(0)\n        self._dcontext = decimal.Context()\n        self._cur_context = {}", ["C09-d", "C09-b"]),
    M("dsum-plain-add", "lena/math/elements.py", "self._total = self._dcontext.add(self._total, Decimal(data))", "self._total = self._total + Decimal(data)", ["C09-d"]),
    M("histogram-template-alias", "lena/structures/histogram.py", "            bins = copy.deepcopy(self._initial_bins)", "            bins = self._initial_bins", ["C09-g"]),
    M("sum-keeps-old-context", "lena/math/elements.py", "        self._total += data\n        self._cur_context = context\n", "        self._total += data\n", ["C09-e"]),
    M("storefilled-reset-noop", "lena/flow/elements.py", "        \"\"\"Clear the group.\"\"\"\n        self.group = []", "        \"\"\"Clear the group.\"\"\"\n        self._group = []", ["C09-a", "C09-c"]),
    TW("reset-dict-call", "lena/math/elements.py", "        self._total = 0\n        self._cur_context = {}", "        self._total = 0\n        self._cur_context = dict()"),
]
