"""C18 -- Cache replays exactly the stored flow and never serves a truncated one."""
import ast

from .. import astutil as A
from .. import paths as P
from ..loader import methods
from . import common as K
from ..selftest.runner import M, TW, V

PROPERTY = "C18"
EXPLANATION = (
    "Decides the publication/ordering shape: (a) PUBLISH -- P is the path expression the readers test "
    "(cache_exists: os.access(P), _load_flow: open(P,'rb')); in the writer every event that makes P name the "
    "dumped stream (open(P,'w..'), os.rename/replace(tmp,P)) lies after the normal termination of the "
    "`for val in flow` loop on every enumerated path, outside except/finally unless dominated by a completion "
    "flag that is set only after the loop, and the file written inside the loop is a different name; (b) inside "
    "the loop the value is dumped before it is yielded on every path; (c) on the cache-exists path of Cache.run "
    "the incoming flow is not used at all and the loader takes no upstream object, reads P, yields in file order "
    "and stops only on EOFError; (d) the string-named loader exists and alter_sequence builds the Source from the "
    "last filled Cache and only the elements after it; (e) cache_exists is False whenever recompute is set and "
    "drop_cache attempts to remove P on every path (a path may leave without it only after a test of the file "
    "itself found it absent -- not through cache_exists(), which pretends absence under recompute); without recompute, cache_exists "
    "answers by tests for the file P itself only (a zero-length file is the complete store of an empty flow).  Trusts pickle round-trip equality and atomicity of rename within a directory."    " Added after the eighth round of seeded changes and the second round of behaviour-preserving changes: cache_exists is evaluated as a boolean function of `recompute` and `the file is there` over every valuation a path allows and must equal `not recompute and there`."
)
RULES = {
    "C18-f": "CURRENT NAME: every file Cache opens, renames, removes or tests is named from self._filename in the same function",
    "C18-a": "PUBLISH: the final cache name appears only after the flow loop terminated normally",
    "C18-b": "order: each value is dumped before it is yielded",
    "C18-c": "reload isolation: the cached path ignores the incoming flow; the loader reads P in order until EOFError",
    "C18-d": "alter_sequence: last filled Cache, loader named by an existing method, only later elements kept",
    "C18-e": "cache_exists is False under recompute; drop_cache removes P",
}
MOD = "lena.flow.cache"
WRITE_MODES = ("w", "a", "x", "+")


def reader_path_exprs(ctx):
    res = ctx.res
    exprs = {}
    ce = ctx.tree.func(MOD, "Cache.cache_exists")
    for c in A.walk_local(ce):
        if isinstance(c, ast.Call) and res.canon(c.func) in ("os.access", "os.path.exists", "os.path.isfile") and c.args:
            exprs["cache_exists"] = A.src(c.args[0])
    lf = ctx.tree.func(MOD, "Cache._load_flow")
    for c in A.walk_local(lf):
        if isinstance(c, ast.Call) and res.canon(c.func) in ("builtins.open", "io.open") and c.args:
            mode = open_mode(c)
            if not any(m in mode for m in WRITE_MODES):
                exprs["_load_flow"] = A.src(c.args[0])
    return exprs


def open_mode(call):
    m = call.args[1] if len(call.args) > 1 else A.kwarg(call, "mode")
    if m is None:
        return "r"
    return m.value if isinstance(m, ast.Constant) and isinstance(m.value, str) else "?"


def local_value(fn, name):
    """Sources of all assignments `name = <expr>` in fn."""
    return [A.src(n.value) for n in A.walk_local(fn) if isinstance(n, ast.Assign)
            and any(isinstance(t, ast.Name) and t.id == name for t in n.targets)]


def names_p(fn, expr, P_src):
    """Does expression (source) denote the published path P, directly or through a local alias?"""
    s = A.src(expr)
    if s == P_src:
        return True
    if isinstance(expr, ast.Name):
        vals = local_value(fn, expr.id)
        return bool(vals) and any(v == P_src for v in vals)
    return False


def deref_on_path(p, expr, upto):
    """(value, clean): a local Name is replaced by the value of its last definition on the path before event *upto*
    (`_ret = f(); return _ret` reads `return f()`), transitively.  clean is False when the name is read between that
    definition and *upto* (the object could have been used/advanced in between: the two spellings are then not
    known to be equivalent) or when the last binding is not a plain single-target assignment."""
    clean = True
    for _ in range(6):
        if not isinstance(expr, ast.Name):
            break
        defs = [(i, e[1]) for i, e in enumerate(p.ev[:upto]) if e[0] in ("stmt", "partial", "iter", "with")
                and expr.id in [n for t in A.assigned_targets(e[1]) for n in A.target_names(t)]]
        if not defs:
            break
        i, st = defs[-1]
        if not (p.ev[i][0] == "stmt" and isinstance(st, ast.Assign) and len(st.targets) == 1 and isinstance(st.targets[0], ast.Name)):
            return expr, False
        for k, n in p.exprs():
            if i < k < upto and any(isinstance(x, ast.Name) and x.id == expr.id for x in A.walk_local(n)):
                clean = False
        for e in p.ev[i + 1:upto]:
            if e[0] == "partial" and any(isinstance(x, ast.Name) and x.id == expr.id for x in A.walk_local(e[1])):
                clean = False
        upto, expr = i, st.value
    return expr, clean


def flag_guards(iff, node):
    """(name, True) when *node* sits in the branch of *iff* that runs when the local flag `name` is true:
    `if flag: <node>` or `if not flag: ... else: <node>`; else None."""
    t, pol = A.strip_not(iff.test)
    if not isinstance(t, ast.Name):
        return None
    branch = iff.body if pol else iff.orelse
    if any(node in list(ast.walk(x)) for x in branch):
        return t.id
    return None


def check_publish(ctx):
    res = ctx.res
    rp = reader_path_exprs(ctx)
    if not ctx.require(set(rp) == {"cache_exists", "_load_flow"}, "C18-a", ctx.tree.func(MOD, "Cache.cache_exists"),
                       "readers' path expression not found (cache_exists / _load_flow)"):
        return None
    ctx.check("C18-a", rp["cache_exists"] == rp["_load_flow"], ctx.tree.func(MOD, "Cache.cache_exists"),
              "cache_exists tests `%s` but _load_flow opens `%s`: the existence test and the load disagree on the file"
              % (rp["cache_exists"], rp["_load_flow"]), detail="readers agree on the path expression %s" % rp["cache_exists"],
              construct="reader-path")
    P_src = rp["_load_flow"]
    fn = ctx.tree.func(MOD, "Cache._dump_flow_and_yield")
    flow = [p for p in A.func_params(fn) if p != "self"][0]
    loops = [n for n in A.walk_local(fn) if isinstance(n, ast.For) and isinstance(n.iter, ast.Name) and n.iter.id == flow]
    if not ctx.require(len(loops) == 1, "C18-a", fn, "writer: expected one `for val in flow` loop"):
        return None
    loop = loops[0]
    # publication events
    pubs = []
    writes_inside = []
    for c in A.walk_local(fn):
        if not isinstance(c, ast.Call):
            continue
        canon = res.canon(c.func)
        if canon in ("builtins.open", "io.open") and c.args:
            mode = open_mode(c)
            if any(m in mode for m in WRITE_MODES) or mode == "?":
                if names_p(fn, c.args[0], P_src):
                    pubs.append((c, "open(%s, %r)" % (A.src(c.args[0]), mode)))
                else:
                    writes_inside.append(c)
        elif canon in ("os.rename", "os.replace", "shutil.move", "shutil.copy", "shutil.copyfile", "os.link", "os.symlink") \
                and len(c.args) >= 2:
            if names_p(fn, c.args[1], P_src):
                pubs.append((c, "%s(%s, %s)" % (canon, A.src(c.args[0]), A.src(c.args[1]))))
    if not ctx.require(pubs, "C18-a", fn, "writer: no event that publishes the cache under `%s` found" % P_src):
        return None
    allpaths = P.paths_of(fn)
    for node, desc in pubs:
        stmt = A.enclosing(node, (ast.stmt,))
        # position relative to the loop, syntactically
        in_loop = loop in list(A.ancestors(node))
        encl_with = [a for a in A.ancestors(node) if isinstance(a, (ast.With,))]
        wraps_loop = any(loop in list(ast.walk(w)) and any(node in list(ast.walk(i.context_expr)) for i in w.items) for w in encl_with)
        handler = A.enclosing(node, (ast.ExceptHandler,))
        in_finally = any(isinstance(a, ast.Try) and any(node in list(ast.walk(s)) for s in a.finalbody) for a in A.ancestors(node))
        if in_loop or wraps_loop:
            ctx.violation("C18-a", node, "the writer makes `%s` name the cache file by %s %s the flow loop: a run that stops early "
                          "(downstream stops consuming, or any element raises) leaves a prefix that cache_exists() and _load_flow "
                          "present as the complete flow" % (P_src, desc, "inside" if in_loop else "before"))
            continue
        if handler is not None:
            ctx.violation("C18-a", node, "the writer publishes the cache (%s) in an except handler: it runs when the flow failed" % desc)
            continue
        ok_all = True
        n_paths = 0
        for p in allpaths:
            i = p.index(stmt) if stmt is not None else -1
            if i < 0:
                # statement inside a with-header etc.
                idxs = [k for k, e in enumerate(p.ev) if e[0] in ("stmt", "with") and node in list(ast.walk(e[1] if e[0] == "stmt" else e[1].items[0].context_expr))]
                if not idxs:
                    continue
                i = idxs[0]
            n_paths += 1
            before = p.ev[:i]
            finished = any(e[0] in ("backedge", "loop0") and e[1] is loop for e in before)
            broke = any(e[0] == "break" and e[1] is loop for e in before)
            excs = [e for e in before if e[0] == "exc"]
            if not finished or broke or excs:
                ok_all = False
                ctx.violation("C18-a", node, "the writer publishes the cache (%s) on a path where the flow loop has not terminated "
                              "normally [%s]" % (desc, p.describe()), path=p)
                break
        if in_finally and ok_all:
            # finally also runs on GeneratorExit / errors, which the path enumeration does not produce:
            # accept only under a completion flag set after the loop
            flag_ok = False
            for a in A.ancestors(node):
                flag = flag_guards(a, node) if isinstance(a, ast.If) else None
                if flag is not None:
                    sets = [s for s in A.walk_local(fn) if isinstance(s, ast.Assign) and any(
                        isinstance(t, ast.Name) and t.id == flag for t in s.targets)]
                    trues = [s for s in sets if not A.is_const(s.value, False)]
                    if trues and all(A.is_const(s.value, True) and s.lineno > loop.end_lineno
                                     and A.enclosing(s, (ast.ExceptHandler,)) is None
                                     and loop not in list(A.ancestors(s)) for s in trues):
                        flag_ok = True
            if not flag_ok:
                ok_all = False
                ctx.violation("C18-a", node, "the writer publishes the cache (%s) in a finally block without a completion flag: finally "
                              "also runs when the consumer stops early (GeneratorExit) or an element raises" % desc)
        if ok_all:
            ctx.ok("C18-a", node, "%s happens only after the flow loop terminated normally (%d paths)" % (desc, n_paths))
    # the file written during the loop is not P
    for c in writes_inside:
        ctx.ok("C18-a", c, "values are written to `%s`, which is not the published name" % A.src(c.args[0]))
    if not writes_inside:
        ctx.note("writes_inside", "no separate temporary file: publication is the open itself")
    # the published file is the one that was written
    for node, desc in pubs:
        if res.canon(node.func) in ("os.rename", "os.replace", "shutil.move") and writes_inside:
            ctx.check("C18-a", any(A.src(node.args[0]) == A.src(w.args[0]) for w in writes_inside), node,
                      "%s renames `%s`, which is not the file the values were dumped to" % (desc, A.src(node.args[0])),
                      detail="the renamed file is the dumped one")
    return loop


def stateless_dump_field(ctx, cls, field):
    """self.<field> is only ever assigned a module-level dump function (pickle.dump ...)."""
    exprs = []
    for m in methods(cls).values():
        for n in A.walk_local(m):
            if isinstance(n, ast.Assign) and any(A.is_self_attr(t, field) for t in n.targets):
                exprs.append(n.value)
    if not exprs:
        return None
    return all(ctx.res.canon(e) in ("pickle.dump", "cPickle.dump", "_pickle.dump", "pickle.load", "cPickle.load")
               or (isinstance(e, ast.Attribute) and A.src(e) in ("cPickle.dump", "cPickle.load")) for e in exprs)


def check_order(ctx, loop):
    fn = ctx.tree.func(MOD, "Cache._dump_flow_and_yield")
    cls = ctx.tree.cls(MOD, "Cache")
    var = loop.target.id if isinstance(loop.target, ast.Name) else None
    if not ctx.require(var is not None, "C18-b", loop, "loop target is not a name"):
        return
    n_paths = 0
    dump_calls = []
    for p in P.loop_body_paths(loop):
        ys = [(i, y) for i, y in p.yields() if isinstance(y, ast.Yield) and isinstance(y.value, ast.Name) and y.value.id == var]
        if not ys:
            if p.end in ("fall", "continue"):
                ctx.violation("C18-b", loop, "a path through the writer's loop does not yield the value [%s]: the first run would not "
                              "pass the flow on unaltered" % p.describe(), construct="no-yield:" + p.describe(), path=p)
            continue
        n_paths += 1
        yi = ys[0][0]
        dumped = None
        for e in p.ev[:yi]:
            if e[0] == "stmt":
                for c in A.walk_local(e[1]):
                    if isinstance(c, ast.Call) and any(A.src(a) == var for a in c.args):
                        dumped = c
        if dumped is not None:
            dump_calls.append(dumped)
        ctx.check("C18-b", dumped is not None, ys[0][1], "the writer yields the value before storing it [%s]: if a downstream element "
                  "fails on this value, or the consumer stops here, it is missing from the stored flow" % p.describe(),
                  detail="a call storing `%s` precedes `yield %s`" % (var, var), path=p)
    ctx.instances_floor("C18-b", n_paths, 1, "paths through the writer's loop")
    # each value is serialised on its own: the dump callee is a stateless function, not a method of a serialiser
    # object that lives across the loop (a Pickler memoises objects by identity: a value object that is mutated
    # and yielded again would be stored as a reference to its first state)
    for c in dump_calls[:1]:
        f = c.func
        verdict = None
        if A.is_self_attr(f):
            verdict = stateless_dump_field(ctx, cls, f.attr)
        elif isinstance(f, ast.Name):
            lam = [n.value for n in A.walk_local(fn) if isinstance(n, ast.Assign) and isinstance(n.value, ast.Lambda)
                   and any(isinstance(t, ast.Name) and t.id == f.id for t in n.targets)]
            if len(lam) == 1 and isinstance(lam[0].body, ast.Call) and A.is_self_attr(lam[0].body.func):
                verdict = stateless_dump_field(ctx, cls, lam[0].body.func.attr)
            bound = [n for n in A.walk_local(fn) if isinstance(n, ast.Assign) and isinstance(n.value, ast.Attribute)
                     and isinstance(n.value.value, ast.Call) and any(isinstance(t, ast.Name) and t.id == f.id for t in n.targets)]
            if bound and all(loop not in list(A.ancestors(n)) for n in bound):
                ctx.violation("C18-b", c, "values are stored through `%s`, a bound method of the object `%s` created once outside "
                              "the loop: a stateful serialiser (pickle.Pickler memo) records a value object that is yielded again "
                              "after being changed as a reference to its first state, so later runs replay different values"
                              % (f.id, A.short(bound[0].value.value, 50)), construct="stateful-serialiser:%s" % A.src(bound[0].value))
                continue
        elif isinstance(f, ast.Attribute) and isinstance(f.value, ast.Name):
            # method of a local object: where is the object created?
            creates = [n for n in A.walk_local(fn) if isinstance(n, ast.Assign) and isinstance(n.value, ast.Call)
                       and any(isinstance(t, ast.Name) and t.id == f.value.id for t in n.targets)]
            if creates and all(loop not in list(A.ancestors(n)) for n in creates):
                ctx.violation("C18-b", c, "values are stored through `%s`, a method of the object `%s` created once outside the "
                              "loop: a stateful serialiser (pickle.Pickler memo) records a value object that is yielded again after "
                              "being changed as a reference to its first state, so later runs replay different values"
                              % (A.src(f), f.value.id), construct="stateful-serialiser:%s" % A.src(f))
                continue
        if verdict is True:
            ctx.ok("C18-b", c, "each value is stored by a stateless dump function (%s)" % A.src(c.func))
        elif verdict is False:
            ctx.violation("C18-b", c, "self.%s is not (only) a module-level pickle dump function" % A.src(c.func),
                          construct="dump-field")
        else:
            ctx.unknown("C18-b", c, "cannot classify the callee `%s` that stores the value" % A.src(f))


def check_reload(ctx):
    res = ctx.res
    run = ctx.tree.func(MOD, "Cache.run")
    flow = [p for p in A.func_params(run) if p != "self"][0]
    n_cached = 0
    def returned(p):
        """(the only Return on the path or None, its value with a local result name dereferenced, clean)"""
        rets = [(i, e[1]) for i, e in enumerate(p.ev) if e[0] == "stmt" and isinstance(e[1], ast.Return)]
        if len(rets) != 1:
            return None, None, True
        i, r = rets[0]
        v, clean = deref_on_path(p, r.value, i)
        return r, v, clean

    def is_self_call(v, meth, args):
        return isinstance(v, ast.Call) and A.is_self_attr(v.func, meth) and not v.keywords \
            and [A.src(a) for a in v.args] == args

    for p in P.paths_of(run):
        exists = [pol for t, pol in p.literals() if isinstance(t, ast.Call) and A.is_self_attr(t.func, "cache_exists")
                  and not t.args and not t.keywords]
        if not exists:
            continue
        ret, val, clean = returned(p)
        n_cached += 1 if exists[-1] else 0
        if not clean:
            ctx.unknown("C18-c", ret, "Cache.run returns the local `%s`, which is read between its definition and the return: "
                        "cannot tell whether the returned object is still the fresh generator" % A.src(ret.value))
            continue
        if exists[-1]:
            uses = [n for e in p.ev if e[0] == "stmt" for n in A.walk_local(e[1]) if isinstance(n, ast.Name) and n.id == flow]
            ctx.check("C18-c", not uses, run, "Cache.run uses the incoming flow on the cache-exists path (`%s`): the upstream would be "
                      "pulled/run although the cache is replayed" % (A.short(A.enclosing(uses[0], (ast.stmt,)), 60) if uses else ""),
                      detail="cached path does not touch the incoming flow", construct="cached-path-uses-flow", path=p)
            ctx.check("C18-c", is_self_call(val, "_load_flow", []), run, "Cache.run does not return self._load_flow() on the cache-exists path",
                      detail="cached path returns self._load_flow()", construct="cached-path-return", path=p)
        else:
            ctx.check("C18-c", is_self_call(val, "_dump_flow_and_yield", [flow]), run,
                      "Cache.run does not return self._dump_flow_and_yield(flow) when there is no cache",
                      detail="uncached path returns the writer over the flow", construct="uncached-path-return", path=p)
    ctx.instances_floor("C18-c", n_cached, 1, "cache-exists paths of Cache.run")
    lf = ctx.tree.func(MOD, "Cache._load_flow")
    ctx.check("C18-c", [p for p in A.func_params(lf) if p != "self"] == [], lf, "_load_flow takes parameters: the replay could depend "
              "on an upstream object", detail="_load_flow takes no upstream object", construct="loader-params")
    # loader: yields the loaded value, loop ends only in the EOFError handler
    load_names = {t.id for n in A.walk_local(lf) if isinstance(n, ast.Assign) and isinstance(n.value, ast.Attribute)
                  and n.value.attr in ("load", "_load") for t in n.targets if isinstance(t, ast.Name)}

    def is_load(c):
        if not isinstance(c, ast.Call):
            return False
        if isinstance(c.func, ast.Attribute) and c.func.attr in ("_load", "load"):
            return True
        return isinstance(c.func, ast.Name) and c.func.id in load_names
    loads = [c for c in A.walk_local(lf) if is_load(c)]
    ctx.require(len(loads) >= 1, "C18-c", lf, "_load_flow: no load call recognised")
    handlers = [h for h in A.walk_local(lf) if isinstance(h, ast.ExceptHandler)]
    for h in handlers:
        canon = res.canon(h.type) if h.type is not None and not isinstance(h.type, ast.Tuple) else None
        ctx.check("C18-c", canon == "builtins.EOFError", h, "_load_flow stops silently on `%s`: a corrupted or truncated cache file would "
                  "be presented as a complete (shorter) flow" % (A.src(h.type) if h.type is not None else "any exception"),
                  detail="loader stops only on EOFError")
    ctx.check("C18-c", len(handlers) >= 1, lf, "_load_flow has no EOFError handler", detail="EOFError ends the replay", construct="loader-eof")
    for p in P.paths_of(lf):
        ys = p.yields()
        for i, y in ys:
            v = y.value if isinstance(y, ast.Yield) else None
            ok = False
            if is_load(v):
                ok = True
            elif isinstance(v, ast.Name):
                for e in reversed(p.ev[:i]):
                    if e[0] == "stmt" and isinstance(e[1], ast.Assign) and any(A.src(t) == v.id for t in e[1].targets):
                        ok = is_load(e[1].value)
                        break
            ctx.check("C18-c", ok, y, "_load_flow yields `%s`, which is not the value just loaded" % (A.src(v) if v is not None else ""),
                      detail="loader yields each loaded value", path=p)


def tail_after(expr, seqn, idx):
    """expr is `seqn[idx+1:]` (the lower bound in any linear spelling: idx + 1, 1 + idx)."""
    if not (isinstance(expr, ast.Subscript) and A.src(expr.value) == seqn and isinstance(expr.slice, ast.Slice)):
        return False
    sl = expr.slice
    if sl.upper is not None or not (sl.step is None or A.is_const(sl.step, 1)) or sl.lower is None:
        return False
    return K.linear(sl.lower) == ({idx: 1}, 1)


def check_alter(ctx):
    res = ctx.res
    fn = ctx.tree.func(MOD, "Cache.alter_sequence")
    calls = [c for c in A.walk_local(fn) if isinstance(c, ast.Call) and res.canon(c.func) == "lena.core.source.Source"]
    if not ctx.require(len(calls) >= 1, "C18-d", fn, "alter_sequence: no Source(...) construction found"):
        return
    cls = ctx.tree.cls(MOD, "Cache")
    for c in calls:
        first = c.args[0] if c.args else None
        ok_first = isinstance(first, ast.Call) and res.canon(first.func) == "lena.core.adapters.SourceEl"
        ctx.check("C18-d", ok_first, c, "Source is not built from SourceEl(<cache>, call=...)", detail="Source starts with SourceEl(cache)")
        if not ok_first:
            continue
        kw = A.kwarg(first, "call")
        name = kw.value if isinstance(kw, ast.Constant) else None
        ctx.check("C18-d", isinstance(name, str) and name in methods(cls) and name == "_load_flow", first,
                  "SourceEl names the method %r, which is not the loader of Cache" % (name,), detail="call names Cache._load_flow")
        rest = c.args[1:]
        obj = first.args[0] if first.args else None
        if isinstance(obj, ast.Subscript):
            idx = A.src(obj.slice)
            seqn = A.src(obj.value)
            ok = len(rest) == 1 and isinstance(rest[0], ast.Starred) and tail_after(rest[0].value, seqn, idx)
            ctx.check("C18-d", ok, c, "the Source keeps `%s` after the cache element: it must keep exactly the elements after the filled "
                      "cache (%s[%s+1:]), otherwise upstream elements are run again or downstream ones are lost"
                      % (", ".join(A.src(r) for r in rest), seqn, idx), detail="Source keeps exactly the elements after the cache")
            # the index is the LAST filled cache: reversed scan, first hit, break
            loops = [l for l in A.walk_local(fn) if isinstance(l, ast.For)]
            okscan = False
            for l in loops:
                s = A.src(l.iter).replace(" ", "")
                if s == "reversed(range(len(%s)))" % seqn:
                    assigns = [a for a in A.walk_local(l) if isinstance(a, ast.Assign) and any(A.src(t) == idx for t in a.targets)]
                    brk = [b for b in A.walk_local(l) if isinstance(b, ast.Break)]
                    okscan = len(assigns) == 1 and A.src(assigns[0].value) == A.src(l.target) and bool(brk) \
                        and any("cache_exists()" in A.src(i.test) for i in A.walk_local(l) if isinstance(i, ast.If))
            if not okscan and not any("range(len(%s))" % seqn in A.src(l.iter).replace(" ", "") for l in loops):
                # no index scan by a loop at all: the index is found in another way (a generator expression, a helper) that
                # this rule does not read -- undecided, not a violation
                ctx.unknown("C18-d", fn, "alter_sequence finds the index of the filled Cache without the reversed index loop: the rule cannot "
                            "tell whether it is the last filled one")
                continue
            ctx.check("C18-d", okscan, fn, "alter_sequence does not pick the last filled Cache (reversed scan, first hit with "
                      "cache_exists(), break)", detail="last filled cache is chosen", construct="scan")
        else:
            ctx.check("C18-d", not rest, c, "a single Cache element is turned into a Source with extra elements",
                      detail="single cache: Source(SourceEl(cache))")


def check_exists_drop(ctx):
    res = ctx.res
    ce = ctx.tree.func(MOD, "Cache.cache_exists")
    n = 0
    for p in P.paths_of(ce):
        if any(pol and A.is_self_attr(t, "_recompute") for t, pol in p.literals()):
            n += 1
            rets = [(i, e[1]) for i, e in enumerate(p.ev) if e[0] == "stmt" and isinstance(e[1], ast.Return)]
            ctx.check("C18-e", len(rets) == 1 and A.is_const(deref_on_path(p, rets[0][1].value, rets[0][0])[0], False), ce,
                      "cache_exists does not return False when recompute is set [%s]" % p.describe(),
                      detail="recompute => cache_exists() is False", construct="recompute-path", path=p)
    # a stored flow is found whenever its file is there: nothing but the absence (unreadability) of the file itself -- and
    # recompute -- may make cache_exists answer False (an empty flow is a complete flow too: its file has zero length)
    rp0 = reader_path_exprs(ctx).get("_load_flow")
    EXIST = ("os.access", "os.path.exists", "os.path.isfile", "os.path.lexists")

    def exist_test(t):
        return isinstance(t, ast.Call) and res.canon(t.func) in EXIST and t.args and A.src(t.args[0]) == rp0
    def truth(e, env):
        """Value of a boolean expression over the atoms R (self._recompute) and E (the file is there); None if something else."""
        if isinstance(e, ast.Constant) and isinstance(e.value, bool):
            return e.value
        if A.is_self_attr(e, "_recompute"):
            return env["R"]
        if exist_test(e):
            return env["E"]
        if isinstance(e, ast.UnaryOp) and isinstance(e.op, ast.Not):
            v = truth(e.operand, env)
            return None if v is None else (not v)
        if isinstance(e, ast.BoolOp):
            vs = [truth(x, env) for x in e.values]
            if any(v is None for v in vs):
                return None
            return all(vs) if isinstance(e.op, ast.And) else any(vs)
        return None

    def decided_by_formula(p, v):
        """The returned expression, on this path, as a function of R and E: True when it equals `not R and E` for every
        valuation the path condition allows, False when it differs for one, None when the expression has other atoms."""
        fixed = {}
        for t, pol in p.literals():
            if A.is_self_attr(t, "_recompute"):
                fixed["R"] = pol
            elif exist_test(t):
                fixed["E"] = pol
            else:
                return None
        verdict = True
        for R in (True, False):
            for E in (True, False):
                env = {"R": R, "E": E}
                if any(env[k] != b for k, b in fixed.items()):
                    continue
                got = truth(v, env)
                if got is None:
                    return None
                if got != ((not R) and E):
                    verdict = False
        return verdict
    n_plain = 0
    for p in P.paths_of(ce):
        if p.end != "return":
            continue
        r0 = [x for x in p.stmts() if isinstance(x, ast.Return)][-1]
        if isinstance(r0.value, ast.BoolOp) or (isinstance(r0.value, ast.UnaryOp)):
            d = decided_by_formula(p, r0.value)
            if d is not None:
                n_plain += 1
                n += 1
                ctx.check("C18-e", d, r0, "cache_exists answers `%s` on the path [%s], which is not `the file %s is there and recompute is "
                          "not set`: a complete stored flow would be taken for missing (or recompute ignored)" % (
                              A.short(r0.value, 60), p.describe(3), rp0),
                          detail="cache_exists = not recompute and the file is there [%s]" % p.describe(2),
                          construct="exists-formula:%s" % A.short(r0.value, 40), path=p)
                continue
        if any(A.is_self_attr(t, "_recompute") and pol for t, pol in p.literals()):
            continue
        n_plain += 1
        r = [x for x in p.stmts() if isinstance(x, ast.Return)][-1]
        v = r.value
        if isinstance(v, ast.Name):
            ds = [x for x in p.stmts() if isinstance(x, ast.Assign) and any(isinstance(t, ast.Name) and t.id == v.id for t in x.targets)]
            v = ds[-1].value if ds else v
        lits = p.literals()
        absent = any(exist_test(t) and pol is False for t, pol in lits)
        present = any(exist_test(t) and pol is True for t, pol in lits)
        if isinstance(v, ast.Constant) and v.value is False:
            ok = absent
            why = "answers False on a path [%s] that has not found the file absent" % p.describe(3)
        elif isinstance(v, ast.Constant) and v.value is True:
            ok = present
            why = "answers True on a path [%s] that has not found the file" % p.describe(3)
        else:
            ok = exist_test(v) or (isinstance(v, ast.BoolOp) and isinstance(v.op, ast.And) and all(exist_test(x) for x in v.values))
            why = "answers `%s`, which is not a test for the file %s itself" % (A.short(v, 60), rp0)
        ctx.check("C18-e", ok, r, "cache_exists %s: a complete stored flow (for an empty flow: a zero-length file) would be taken for "
                  "missing, upstream pulled again and the stored flow overwritten" % why,
                  detail="cache_exists = the file is there [%s]" % p.describe(2), construct="exists-condition:%s" % A.short(v, 40), path=p)
    ctx.instances_floor("C18-e/plain", n_plain, 1, "paths of cache_exists without recompute")
    reads = [x for x in A.walk_local(ce) if isinstance(x, ast.Attribute) and A.is_self_attr(x, "_recompute")]
    if not reads:
        ctx.violation("C18-e", ce, "cache_exists never looks at self._recompute: recompute=True would replay the stored flow "
                      "instead of restoring the first-run behaviour", construct="recompute-unread")
    else:
        ctx.instances_floor("C18-e", n, 1, "paths of cache_exists with recompute set")
    dc = ctx.tree.func(MOD, "Cache.drop_cache")
    rm = [c for c in A.walk_local(dc) if isinstance(c, ast.Call) and res.canon(c.func) in ("os.remove", "os.unlink")]
    rp = reader_path_exprs(ctx).get("_load_flow")
    ctx.check("C18-e", len(rm) >= 1 and all(A.src(c.args[0]) == rp for c in rm), dc, "drop_cache does not remove `%s`" % rp,
              detail="drop_cache removes %s" % rp, construct="drop")
    # the removal is attempted on every path: cache_exists() pretends absence under recompute, so it must not decide
    # whether the file is removed (a dropped cache that stays on disk is replayed by the next ordinary Cache)
    n_dp = 0
    for p in P.paths_of(dc):
        attempted = any(e[0] in ("stmt", "partial") and any(c in rm for c in A.walk_local(e[1]) if isinstance(c, ast.Call)) for e in p.ev)
        n_dp += 1
        if attempted:
            ctx.ok("C18-e", dc, "drop_cache attempts the removal on path [%s]" % p.describe(3))
            continue
        absent = False
        for t, pol in p.literals():
            if isinstance(t, ast.Call) and res.canon(t.func) in ("os.path.exists", "os.path.isfile", "os.access", "os.path.lexists") \
                    and t.args and A.src(t.args[0]) == rp and pol is False:
                absent = True
        ctx.check("C18-e", absent, dc, "drop_cache leaves without trying to remove `%s` on the path [%s]: the decision depends on "
                  "cache_exists()/_recompute, which pretends that the cache is absent when recompute is set, so the file of a "
                  "recomputing Cache survives drop_cache() and is replayed by the next run" % (rp, p.describe(4)),
                  detail="no removal only when the file itself was found absent", construct="drop-skipped", path=p)
    ctx.instances_floor("C18-e/drop", n_dp, 2, "paths of drop_cache")
    # _recompute is written only in __init__
    cls = ctx.tree.cls(MOD, "Cache")
    for name, m in methods(cls).items():
        for x in A.walk_local(m):
            if isinstance(x, ast.Attribute) and A.is_self_attr(x, "_recompute") and isinstance(x.ctx, ast.Store):
                ctx.check("C18-e", name == "__init__", x, "Cache.%s rewrites _recompute" % name, detail="_recompute set in __init__ only")


def check_file_names_current(ctx):
    """Cache._set_context renames the cache (`self._filename` is re-formatted from the static context): every file that a
    method of Cache opens, renames, removes or tests is named by `self._filename` as it is *now* -- the attribute itself or a
    local computed from it in the same function.  A path kept in another attribute (a temporary name computed in __init__ from
    the unformatted template) is stale after _set_context: Caches made from one template then share one file."""
    res = ctx.res
    cls = ctx.tree.cls(MOD, "Cache")
    FS = {"builtins.open": [0], "os.rename": [0, 1], "os.replace": [0, 1], "os.remove": [0], "os.unlink": [0], "os.path.exists": [0],
          "os.path.isfile": [0], "os.path.getsize": [0], "os.stat": [0], "os.path.getmtime": [0]}
    n = 0
    for name, fn in methods(cls).items():
        if name == "__init__":
            continue
        for c in A.walk_local(fn):
            if not isinstance(c, ast.Call):
                continue
            canon = res.call_canon(c)
            if canon not in FS:
                continue
            for i in FS[canon]:
                if i >= len(c.args):
                    continue
                a = c.args[i]
                n += 1
                roots = set()
                todo, seen = [a], set()
                ok = True
                while todo:
                    e = todo.pop()
                    for x in ast.walk(e):
                        if isinstance(x, ast.Attribute) and A.is_self_attr(x):
                            roots.add(x.attr)
                        elif isinstance(x, ast.Name) and isinstance(x.ctx, ast.Load) and x.id not in seen and x.id != "self":
                            seen.add(x.id)
                            ds = [d.value for d in A.walk_local(fn) if isinstance(d, ast.Assign) and any(x.id in A.target_names(t) for t in d.targets)]
                            if x.id in A.func_params(fn):
                                ok = False
                            todo.extend(ds)
                bad = sorted(r for r in roots if r not in ("_filename",))
                ctx.check("C18-f", ok and not bad and "_filename" in roots, c, "Cache.%s: `%s` is handed the path `%s`, which is not "
                          "computed from the current self._filename%s: after _set_context has formatted the file name, another file "
                          "is written, tested or removed than the one the cache is read from"
                          % (name, A.short(c.func, 30), A.short(a, 40), " (it reads self.%s)" % ", self.".join(bad) if bad else ""),
                          detail="Cache.%s: %s on a path derived from self._filename" % (name, A.short(c.func, 30)),
                          construct="stale-path:%s:%s" % (name, A.short(a, 40)))
    ctx.instances_floor("C18-f", n, 5, "file-system calls in the methods of Cache")


def check(ctx):
    check_file_names_current(ctx)
    loop = check_publish(ctx)
    if loop is not None:
        check_order(ctx, loop)
    check_reload(ctx)
    check_alter(ctx)
    check_exists_drop(ctx)


_OLD_WRITER = '''        with open(self._filename, "wb") as f:
            dump = lambda val: self._dump(val, f, self.protocol)
            for val in flow:
                dump(val)
                yield val
'''

VARIANTS = [
    M("tmp-name-from-template", "lena/flow/cache.py", "        tmp_filename = self._filename + \".tmp\"", "        tmp_filename = self._orig_filename + \".tmp\"", ["C18-f"]),
    M("exists-needs-nonempty-file", "lena/flow/cache.py", "        return os.access(self._filename, os.R_OK)", "        if not os.access(self._filename, os.R_OK):\n            return False\n        return os.path.getsize(self._filename) > 0", ["C18-e"]),
    TW("exists-two-steps", "lena/flow/cache.py", "        return os.access(self._filename, os.R_OK)", "        if not os.access(self._filename, os.R_OK):\n            return False\n        return True"),
    M("drop-guarded-by-cache-exists", "lena/flow/cache.py", "        try:\n            os.remove(self._filename)\n        except OSError as err:", "        if not self.cache_exists():\n            return\n        try:\n            os.remove(self._filename)\n        except OSError as err:", ["C18-e"]),
    TW("drop-guarded-by-file-test", "lena/flow/cache.py", "        try:\n            os.remove(self._filename)\n        except OSError as err:", "        if not os.path.exists(self._filename):\n            return\n        try:\n            os.remove(self._filename)\n        except OSError as err:"),
    V("mutant", "revert-fix-open-final-name", None, None, None, ["C18-a"], edits=[
        ("lena/flow/cache.py", 'with open(tmp_filename, "wb") as f:', 'with open(self._filename, "wb") as f:', 0),
        ("lena/flow/cache.py", "        os.rename(tmp_filename, self._filename)\n", "", 0)]),
    M("rename-in-finally", "lena/flow/cache.py",
      "            if not complete:\n                try:\n                    os.remove(tmp_filename)\n                except OSError:\n                    pass\n        os.rename(tmp_filename, self._filename)\n",
      "            os.rename(tmp_filename, self._filename)\n", ["C18-a"]),
    M("rename-before-loop", "lena/flow/cache.py", "                for val in flow:\n                    # if there were",
      "                os.rename(tmp_filename, self._filename)\n                for val in flow:\n                    # if there were", ["C18-a"]),
    M("tmp-is-final", "lena/flow/cache.py", 'tmp_filename = self._filename + ".tmp"', "tmp_filename = self._filename", ["C18-a"]),
    M("yield-before-dump", "lena/flow/cache.py", "                    dump(val)\n                    yield val", "                    yield val\n                    dump(val)", ["C18-b"]),
    V("mutant", "shared-pickler", None, None, None, ["C18-b"], edits=[
        ("lena/flow/cache.py", "dump = lambda val: self._dump(val, f, self.protocol)", "dump = pickle.Pickler(f, self.protocol).dump", 0)]),
    M("cached-path-peeks-flow", "lena/flow/cache.py", "            return self._load_flow()", "            next(iter(flow), None)\n            return self._load_flow()", ["C18-c"]),
    M("loader-swallows", "lena/flow/cache.py", "                except EOFError:\n                    break", "                except Exception:\n                    break", ["C18-c"]),
    M("alter-keeps-all", "lena/flow/cache.py", "*seq[last_cache_filled_ind+1:]", "*seq[last_cache_filled_ind:]", ["C18-d"]),
    M("alter-first-cache", "lena/flow/cache.py", "for ind in reversed(range(len(seq))):", "for ind in range(len(seq)):", ["C18-d"]),
    M("recompute-ignored", "lena/flow/cache.py", "        if self._recompute:\n            return False\n", "", ["C18-e"]),
    TW("rename-to-replace", "lena/flow/cache.py", "os.rename(tmp_filename, self._filename)", "os.replace(tmp_filename, self._filename)"),
    TW("flag-in-finally", "lena/flow/cache.py",
       "            if not complete:\n                try:\n                    os.remove(tmp_filename)\n                except OSError:\n                    pass\n        os.rename(tmp_filename, self._filename)\n",
       "            if not complete:\n                try:\n                    os.remove(tmp_filename)\n                except OSError:\n                    pass\n            if complete:\n                os.rename(tmp_filename, self._filename)\n"),
]
