"""C15 -- selectors evaluate compositionally; GroupBy partitions by the selected context."""
import ast

from .. import astutil as A
from .. import paths as P
from ..loader import methods
from ..selftest.runner import M, TW, V
from . import common as K

PROPERTY = "C15"
EXPLANATION = (
    "Decides the dispatch, containment and routing shape of selectors and of the include/exclude tree behind GroupBy.  "
    "(a) DISPATCH: on every normal exit of Selector.__init__ the wrapped selector is bound, and what is bound agrees with the "
    "type test that guards it -- class: isinstance(get_data(value), <the class>) and the class test precedes the callable test; "
    "callable: the object itself; str: contains(get_context(value), <the string>); list and tuple: the container classes, "
    "given the raise_on_error parameter -- every other specification leaves through LenaTypeError; the container constructed "
    "for a list reduces with any(), the one for a tuple with all(), both over self._selectors forwards applying every item to "
    "the value, lazily (a generator, so that evaluation is short-circuit); their constructors keep a ready Selector item and convert every other item with the raise_on_error they were "
    "given, in order, one append per item; Not.__call__ negates the result of Selector.__call__.  "
    "(b) CONTAINMENT: every call of the wrapped selector / predicate in Selector.__call__ and SelectContext.__call__ lies in a "
    "try whose handler catches Exception; on the handler's paths the exception leaves only when _raise_on_error is set and "
    "the constant False is returned otherwise; _raise_on_error is only ever bound to bool(<the parameter>); SelectContext "
    "looks the key up with get_recursively without a default inside a handler of LenaKeyError that returns False, and the "
    "predicate receives exactly that sub-context.  "
    "(c) Filter keeps the selector it is given (converting non-selectors), run and fill_into test it un-negated on the value "
    "and forward the value object itself.  "
    "(d) ROUTING: on every path of the item loops of IncludeExcludeTree.get the store into the result agrees with the table "
    "(listed key: excluded in an including tree, kept as it is in an excluding one; subtree key: recursion into the subtree of "
    "the same key only under isinstance(value, dict); any other key: kept iff the tree includes by default); GroupBy.fill puts "
    "the filled object itself at the end of exactly one group on every normal path, the group key being "
    "to_string(self._iet.get(get_context(val))), creates a group only when the key is new, and GroupBy.__init__ passes "
    "group_by as includes and merge as excludes.  "
    "(e) ORDER-FREE KEY SETS: the lists of keys handled while the tree is built are used only through order-insensitive "
    "operations (no positional subscript, pop or next on a list of keys).  "
    "(f) PROVENANCE: in _make_include_exclude_tree and make_include_exclude_tree the `includes` argument of the (recursive) "
    "construction derives only from includes and `excludes` only from excludes, the default flips exactly under the test for "
    "an empty tail and is otherwise inherited, the tree is built with the default it was asked for, the root default is the "
    "presence of '' in includes and a root listed in both or neither is rejected with LenaValueError.  "
    "The helper SelectContext relies on, get_recursively, raises LenaKeyError -- the only class SelectContext turns into False -- on "
    "every raising path inside or after the key traversal (a missing key as well as a scalar met on the way).  "
    "Does not decide the truth table of a concrete nested specification nor the longest-prefix partition for concrete key sets."    " Added after the eighth round of seeded changes and the second round of behaviour-preserving changes: Every recursion of IncludeExcludeTree.get into a subtree is made with a value found isinstance(., dict) on that path; the defaults of GroupBy are recognised by == '' and never by truth value; GroupBy.fill may use the setdefault form; a Selector subclass does not hand a predicate it requires to be callable to Selector.__init__ (type dispatch)."
)
RULES = {
    "C15-a": "TYPESTATE/AGREE: Selector.__init__ dispatch binds what its type test promises; list->any, tuple->all; Not negates",
    "C15-b": "GUARD: leaf invocations contained by except Exception; raise iff _raise_on_error else return False; missing key -> False",
    "C15-c": "Filter keeps exactly the selected value object (run and fill_into agree)",
    "C15-d": "ROUTING: IncludeExcludeTree.get store table; GroupBy.fill appends the value to exactly one group keyed by the selected sub-context",
    "C15-e": "ORDER-FREE: lists of keys are never used positionally while the include/exclude tree is built",
    "C15-f": "PROVENANCE: includes/excludes are not crossed in the tree construction; default flips only at a listed prefix",
    "C15-g": "TYPESTATE/subclasses: a Selector subclass whose constructor does not run Selector.__init__ binds every attribute "
             "that the methods it inherits read (otherwise repr/==/composition with Not, lists and tuples raise AttributeError)",
}
SEL = "lena.flow.selectors"
IET = "lena.context.include_exclude_tree"
GB = "lena.flow.group_by"
EXC = "lena.core.exceptions."
CATCH_ALL = ("builtins.Exception", "builtins.BaseException")


# -- helpers ---------------------------------------------------------------------------------
def _lit_before(p, idx):
    """Literals (src, polarity) established on path p before event idx."""
    out = []
    for e in p.ev[:idx]:
        if e[0] == "cond":
            for t, pol in A.literals(e[1], e[2]):
                out.append((t, pol))
    return out


def _has_lit(lits, pred, pol):
    return any(pl == pol and pred(t) for t, pl in lits)


def _straight_return(fn):
    """Body expression of a lambda, or the expression a straight-line def returns: its body (docstring and no-ops aside)
    is one return, possibly preceded by assignments to temporaries each of which is read exactly once, namely as the
    returned value or as the operand of a returned `not` (`_ret = f(x); return _ret` reads `return f(x)`).
    None when the body has any other shape."""
    if isinstance(fn, ast.Lambda):
        return fn.body
    body = A.body_wo_doc(fn)
    rets = [r for r in A.walk_local(fn, include_self=False) if isinstance(r, ast.Return)]
    if len(rets) != 1 or not body or body[-1] is not rets[0]:
        return None
    params = set(A.func_params(fn))
    env = {}
    for st in body[:-1]:
        if not (isinstance(st, ast.Assign) and len(st.targets) == 1 and isinstance(st.targets[0], ast.Name)):
            return None
        nm = st.targets[0].id
        if nm in env or nm in params:
            return None
        env[nm] = st.value
    for nm in env:
        loads = [n for n in A.walk_local(fn, include_self=False) if isinstance(n, ast.Name) and n.id == nm and isinstance(n.ctx, ast.Load)]
        if len(loads) != 1:
            return None
    used = set()

    def deref(e):
        while isinstance(e, ast.Name) and e.id in env and e.id not in used:
            used.add(e.id)
            e = env[e.id]
        return e
    v = deref(rets[0].value)
    if isinstance(v, ast.UnaryOp) and isinstance(v.op, ast.Not):
        inner = deref(v.operand)
        if inner is not v.operand:
            v = ast.UnaryOp(op=ast.Not(), operand=inner)
    if used != set(env):
        return None
    return v


def _single_return_expr(fn):
    """Body expression of a lambda, or the returned expression of a def with one return."""
    return _straight_return(fn)


def _value_at(p, expr, upto=None):
    """What *expr* evaluates at event *upto* of path p (default: its end): a local Name is read through its last plain
    assignment on the path (`_ret = f(x); return _ret`), unless the name is also bound in another way before that point."""
    seen = set()
    while isinstance(expr, ast.Name) and expr.id not in seen:
        seen.add(expr.id)
        last = None
        for i, e in enumerate(p.ev if upto is None else p.ev[:upto]):
            node = e[1]
            if e[0] == "stmt" and isinstance(node, ast.Assign) and len(node.targets) == 1 and isinstance(node.targets[0], ast.Name) \
                    and node.targets[0].id == expr.id:
                last = (i, node)
                continue
            bound = []
            if e[0] in ("stmt", "partial", "iter", "with"):
                bound = [nm for t in A.assigned_targets(node) for nm in A.target_names(t)]
            elif e[0] == "def":
                bound = [node.name]
            elif e[0] == "exc":
                bound = [node.name]
            if expr.id in bound:
                last = None
        if last is None:
            return expr
        expr, upto = last[1].value, last[0]
    return expr


def _one_armed_if(stmts):
    """(test, arm) when the statement list is (no-ops aside) one `if` that does something in one arm only: `if T: A`
    gives (T, A); `if not T: pass else: A` gives (T, A) as well; `if T: pass else: A` gives (not T, A).  Else None."""
    real = [st for st in stmts if not A.is_noop_stmt(st)]
    if len(real) != 1 or not isinstance(real[0], ast.If):
        return None
    iff = real[0]
    idle = lambda arm: all(A.is_noop_stmt(st) for st in arm)
    if idle(iff.orelse) and not idle(iff.body):
        return iff.test, iff.body
    if idle(iff.body) and not idle(iff.orelse):
        if isinstance(iff.test, ast.UnaryOp) and isinstance(iff.test.op, ast.Not):
            return iff.test.operand, iff.orelse
        return ast.UnaryOp(op=ast.Not(), operand=iff.test), iff.orelse
    return None


def _last_return(p):
    return [s for s in p.stmts() if isinstance(s, ast.Return)][-1]


def _canon(expr):
    """The expression re-parsed from its canonical spelling (A.norm_src): for *shape* tests only -- the copy has no
    links into the module, names in it cannot be resolved."""
    try:
        return ast.parse(A.norm_src(expr), mode="eval").body
    except SyntaxError:   # pragma: no cover
        return expr


def _callable_value(init, value):
    """A Lambda, or the nested def a Name refers to."""
    if isinstance(value, ast.Lambda):
        return value
    if isinstance(value, ast.Name):
        for n in A.walk_local(init, include_self=False):
            if isinstance(n, ast.FunctionDef) and n.name == value.id:
                return n
    return None


def _isinstance_of(test, obj_src, res):
    """-> class expression when test is isinstance(<obj_src>, C)."""
    if isinstance(test, ast.Call) and res.call_canon(test) == "builtins.isinstance" and len(test.args) == 2 \
            and A.src(test.args[0]) == obj_src:
        return test.args[1]
    return None


def _handler_catches(res, h, canons):
    if h.type is None:
        return True
    types = h.type.elts if isinstance(h.type, ast.Tuple) else [h.type]
    return any(res.canon(t) in canons for t in types)


def _enclosing_try_handlers(node, fn):
    """Handlers of every try whose *body* contains node (inside fn), innermost first."""
    out = []
    child = node
    for a in A.ancestors(node):
        if a is fn:
            break
        if isinstance(a, ast.Try) and any(child is s for s in a.body):
            out.append(a)
        child = a
    return out


# -- C15-a -----------------------------------------------------------------------------------
KIND_OF_TYPE = {"builtins.str": "str", "builtins.list": "list", "builtins.tuple": "tuple"}


def classify_binding(ctx, init, value, sel, roe):
    """What `self._selector = value` binds: (kind, detail-or-class-canon, ok, why)."""
    res = ctx.res
    if isinstance(value, ast.Name) and value.id == sel:
        return "callable", None, True, ""
    fn = _callable_value(init, value)
    if fn is not None:
        ps = A.func_params(fn)
        body = _single_return_expr(fn)
        if len(ps) == 1 and isinstance(body, ast.Call):
            v = ps[0]
            canon = res.call_canon(body)
            if canon == "builtins.isinstance" and len(body.args) == 2:
                a0 = body.args[0]
                ok = isinstance(a0, ast.Call) and res.call_canon(a0) == "lena.flow.functions.get_data" \
                    and len(a0.args) == 1 and A.src(a0.args[0]) == v and A.src(body.args[1]) == sel
                return "class", None, ok, "a class must test isinstance(get_data(value), <the class>), found `%s`" % A.short(body, 80)
            if canon == "lena.context.functions.contains" and len(body.args) == 2:
                a0 = body.args[0]
                ok = isinstance(a0, ast.Call) and res.call_canon(a0) == "lena.flow.functions.get_context" \
                    and len(a0.args) == 1 and A.src(a0.args[0]) == v and A.src(body.args[1]) == sel
                return "str", None, ok, "a string must test contains(get_context(value), <the string>), found `%s`" % A.short(body, 80)
        return None, None, False, "unrecognised selector function `%s`" % A.short(value, 80)
    if isinstance(value, ast.Call):
        t = res.resolve(value.func)
        if t is not None and t.is_class and t.module == SEL:
            args = list(value.args)
            kw = {k.arg: k.value for k in value.keywords}
            first = args[0] if args else kw.get("selectors", kw.get("selector"))
            second = args[1] if len(args) > 1 else kw.get("raise_on_error")
            ok = first is not None and A.src(first) == sel and second is not None and A.src(second) == roe
            return "container", t, ok, ("a container must be built from the specification and the raise_on_error it was given "
                                        "(`%s`): otherwise the items of a nested list/tuple raise although the enclosing "
                                        "selector was told not to" % A.short(value, 80))
    return None, None, False, "unrecognised binding `%s`" % A.short(value, 80)


def _loop_reduction(ctx, call, cname, vpar):
    """any/all written as an explicit short-circuit loop over self._selectors.  Returns "any"/"all" (decided by the truth value on
    which the loop is left early) after checking the neutral element: what the function returns when the loop body never runs
    must be all(()) == True resp. any(()) == False -- an empty tuple selects everything, an empty list nothing."""
    loops = [l for l in A.walk_local(call) if isinstance(l, ast.For) and K.iter_order(l.iter, "self._selectors") == "forward"
             and isinstance(l.target, ast.Name)]
    if len(loops) != 1:
        return None
    loop = loops[0]
    item = loop.target.id

    def applies(e, q, upto):
        """Is e (possibly through bool() and one local) the loop item applied to the value?"""
        if isinstance(e, ast.Name):
            defs = [ev[1].value for ev in q.ev[:upto] if ev[0] == "stmt" and isinstance(ev[1], ast.Assign) and len(ev[1].targets) == 1
                    and isinstance(ev[1].targets[0], ast.Name) and ev[1].targets[0].id == e.id]
            return bool(defs) and applies(defs[-1], q, upto)
        if isinstance(e, ast.Call) and A.call_name(e) == "bool" and len(e.args) == 1:
            return applies(e.args[0], q, upto)
        return isinstance(e, ast.Call) and A.src(e.func) == item and len(e.args) == 1 and A.src(e.args[0]) == vpar and not e.keywords

    exits = set()
    for q in P.loop_body_paths(loop):
        if q.end not in ("break", "return"):
            continue
        conds = [(i, ev) for i, ev in enumerate(q.ev) if ev[0] == "cond"]
        if not conds:
            return None
        i, ev = conds[-1]
        lits = A.literals(ev[1], ev[2])
        if len(lits) != 1 or not applies(lits[0][0], q, i):
            return None
        exits.add(lits[0][1])
    if len(exits) != 1:
        return None
    red = "any" if exits.pop() else "all"
    neutral = (red == "all")
    # the value returned when the loop body never runs
    for p in P.paths_of(call):
        if p.end != "return" or not any(ev[0] == "loop0" and ev[1] is loop for ev in p.ev):
            continue
        rets = [ev[1] for ev in p.ev if ev[0] == "stmt" and isinstance(ev[1], ast.Return)]
        v = rets[-1].value if rets else None
        if isinstance(v, ast.Name):
            defs = [ev[1].value for ev in p.ev if ev[0] == "stmt" and isinstance(ev[1], ast.Assign) and len(ev[1].targets) == 1
                    and isinstance(ev[1].targets[0], ast.Name) and ev[1].targets[0].id == v.id]
            v = defs[-1] if defs else v
        if not (isinstance(v, ast.Constant) and isinstance(v.value, bool)):
            return None
        ctx.check("C15-a", v.value is neutral, rets[-1], "%s.__call__ leaves its loop at the first %s item (a short-circuit %s()) but returns %s "
                  "when there is no item at all: %s(()) is %s -- an empty %s must select %s, and Not, nesting and Filter built on it are "
                  "all inverted for the empty specification" % (cname, "true" if red == "any" else "false", red, v.value, red, neutral,
                                                                "tuple" if red == "all" else "list", "every value" if neutral else "nothing"),
                  detail="%s.__call__: explicit short-circuit %s() with neutral element %s" % (cname, red, neutral),
                  construct="%s-neutral" % cname, path=p)
    return red


def reducer_of(ctx, cls_target):
    """Name of the builtin (any/all) that <class>.__call__ reduces self._selectors with; checks the shape."""
    res = ctx.res
    cname = cls_target.name.rsplit(".", 1)[-1]
    call = ctx.tree.maybe(cls_target.module, cname + ".__call__")
    if call is None:
        return None, None
    ps = [p for p in A.func_params(call) if p != "self"]
    # evaluation is short-circuit (documented for Or; And relies on it the same way): a comprehension that applies all
    # items before any()/all() looks at them evaluates leaves that must not be evaluated -- a raising leaf after the
    # deciding item then propagates
    for x in A.walk_local(call):
        if isinstance(x, (ast.ListComp, ast.SetComp)) and any(A.src(g.iter) == "self._selectors" for g in x.generators):
            ctx.violation("C15-a", x, "%s.__call__ applies every item of self._selectors in the list `%s` before reducing: evaluation "
                          "is no longer short-circuit, so an item that raises on a value already decided by an earlier item propagates "
                          "its exception (Selector([true_for_v, raising])(v) raises instead of being True)" % (cname, A.short(x, 50)),
                          construct="%s-eager" % cname)
            return (None, call) if False else ("any" if cname == "Or" else "all", call)
    c = _straight_return(call)
    if len(ps) == 1 and not isinstance(c, ast.Call):
        red = _loop_reduction(ctx, call, cname, ps[0])
        if red is not None:
            return red, call
    if len(ps) != 1 or not isinstance(c, ast.Call):
        return None, call
    canon = res.call_canon(c)
    if canon not in ("builtins.any", "builtins.all") or len(c.args) != 1 or not isinstance(c.args[0], (ast.GeneratorExp, ast.ListComp)):
        return None, call
    g = c.args[0]
    if len(g.generators) != 1:
        return None, call
    gen = g.generators[0]
    order = K.iter_order(gen.iter, "self._selectors")
    elt_ok = isinstance(g.elt, ast.Call) and A.src(g.elt.func) == A.src(gen.target) and len(g.elt.args) == 1 \
        and A.src(g.elt.args[0]) == ps[0] and not g.elt.keywords
    ctx.check("C15-a", order == "forward" and not gen.ifs and elt_ok, call,
              "%s.__call__ does not apply every item of self._selectors to the value (`%s`)" % (cname, A.short(c, 80)),
              detail="%s.__call__ applies every item to the value, in order" % cname,
              construct="%s-reduce-shape" % cname)
    return canon.split(".")[-1], call


def check_container_init(ctx, cls_target):
    res = ctx.res
    name = cls_target.name.rsplit(".", 1)[-1]
    init = ctx.tree.maybe(SEL, name + ".__init__")
    if not ctx.require(init is not None, "C15-a", cls_target.node, "%s has no __init__" % name):
        return
    ps = [p for p in A.func_params(init) if p != "self"]
    if not ctx.require(len(ps) == 2, "C15-a", init, "%s.__init__: expected (selectors, raise_on_error)" % name):
        return
    items, roe = ps
    loops = [n for n in A.walk_local(init) if isinstance(n, ast.For)]
    if not ctx.require(len(loops) == 1 and isinstance(loops[0].target, ast.Name), "C15-a", init, "%s.__init__: expected one item loop" % name):
        return
    loop = loops[0]
    var = loop.target.id
    order = K.iter_order(loop.iter, items)
    if order == "unknown":
        ctx.unknown("C15-a", loop, "%s.__init__ iterates `%s`" % (name, A.src(loop.iter)))
    else:
        ctx.check("C15-a", order == "forward", loop, "%s.__init__ iterates `%s`, not its items in the given order" % (name, A.src(loop.iter)),
                  detail="%s.__init__ iterates the items in order" % name, construct="%s-init-order" % name)
    n = 0
    for p in P.loop_body_paths(loop):
        if p.end == "raise":
            continue
        n += 1
        apps = [c for _, c in p.calls() if isinstance(c.func, ast.Attribute) and c.func.attr in ("append", "insert", "extend", "appendleft")
                and A.src(c.func.value) == "self._selectors"]
        ok = len(apps) == 1 and apps[0].func.attr == "append" and len(apps[0].args) == 1 and p.end in ("fall", "continue")
        why = "%d store(s) into self._selectors" % len(apps)
        if ok:
            a = apps[0].args[0]
            idx = [i for i, c in p.calls() if c is apps[0]][0]
            lits = _lit_before(p, idx)
            is_sel = lambda t: (lambda c: c is not None and res.canon(c) == SEL + ".Selector")(_isinstance_of(t, var, res))
            if isinstance(a, ast.Name) and a.id == var:
                ok = _has_lit(lits, is_sel, True)
                why = "an item is kept as it is without the test isinstance(item, Selector)"
            elif isinstance(a, ast.Call) and res.call_canon(a) == SEL + ".Selector":
                kw = {k.arg: k.value for k in a.keywords}
                first = a.args[0] if a.args else kw.get("selector")
                second = a.args[1] if len(a.args) > 1 else kw.get("raise_on_error")
                ok = first is not None and A.src(first) == var and second is not None and A.src(second) == roe
                why = "an item is converted as `%s`, not Selector(item, raise_on_error=<the container's setting>)" % A.short(a, 70)
            else:
                ok = False
                why = "`%s` is stored" % A.short(a, 60)
        ctx.check("C15-a", ok, loop, "%s.__init__ [%s]: %s" % (name, p.describe(3), why),
                  detail="%s.__init__ [%s]: item kept or converted with the given raise_on_error, appended once" % (name, p.describe(3)),
                  construct="%s-init-item:%s" % (name, p.describe(3)), path=p)
    ctx.instances_floor("C15-a/%s-items" % name, n, 2, "normal paths through the item loop of %s.__init__" % name)
    # raise_on_error reaches the base constructor (which binds _raise_on_error)
    sup = [c for c in A.walk_local(init) if isinstance(c, ast.Call) and isinstance(c.func, ast.Attribute) and c.func.attr == "__init__"
           and isinstance(c.func.value, ast.Call) and A.call_name(c.func.value) == "super"]
    ok = len(sup) == 1 and A.enclosing(sup[0], (ast.For, ast.While, ast.If)) is None and \
        (len(sup[0].args) >= 2 and A.src(sup[0].args[1]) == roe or A.kwarg(sup[0], "raise_on_error") is not None
         and A.src(A.kwarg(sup[0], "raise_on_error")) == roe)
    ctx.check("C15-a", ok, init, "%s.__init__ does not hand its raise_on_error to Selector.__init__ unconditionally" % name,
              detail="%s.__init__ passes raise_on_error to the base constructor" % name, construct="%s-init-super" % name)


def check_dispatch(ctx):
    res = ctx.res
    init = ctx.tree.func(SEL, "Selector.__init__")
    ps = [p for p in A.func_params(init) if p != "self"]
    if not ctx.require(len(ps) == 2, "C15-a", init, "Selector.__init__: expected (selector, raise_on_error)"):
        return
    sel, roe = ps
    is_isclass = lambda t: isinstance(t, ast.Call) and (res.call_canon(t) or "").endswith("inspect.isclass") \
        and len(t.args) == 1 and A.src(t.args[0]) == sel
    is_callable = lambda t: isinstance(t, ast.Call) and res.call_canon(t) == "builtins.callable" and len(t.args) == 1 \
        and A.src(t.args[0]) == sel

    def is_type(t, kind):
        c = _isinstance_of(t, sel, res)
        return c is not None and KIND_OF_TYPE.get(res.canon(c)) == kind

    kinds_seen = {}
    containers = {}
    n_normal = 0
    for p in P.paths_of(init):
        if p.end == "raise":
            r = [s for s in p.stmts() if isinstance(s, ast.Raise)][-1]
            ok = False
            if r.exc is None:
                ok = any(e[0] == "exc" and _handler_catches(res, e[1], (EXC + "LenaTypeError",)) for e in p.ev)
            else:
                ex = r.exc.func if isinstance(r.exc, ast.Call) else r.exc
                canon = res.canon(ex)
                if canon == EXC + "LenaTypeError":
                    ok = True
                elif isinstance(ex, ast.Name):
                    hs = [e[1] for e in p.ev if e[0] == "exc" and e[1].name == ex.id]
                    ok = bool(hs) and _handler_catches(res, hs[-1], (EXC + "LenaTypeError",)) and hs[-1].type is not None
            ctx.check("C15-a", ok, r, "Selector.__init__ leaves through `%s`, not LenaTypeError" % A.short(r, 60),
                      detail="a rejected specification raises LenaTypeError", construct="init-raise:" + A.short(r, 60), path=p)
            continue
        n_normal += 1
        binds = [(i, e[1]) for i, e in enumerate(p.ev) if e[0] == "stmt" and isinstance(e[1], ast.Assign)
                 and any(A.is_self_attr(t, "_selector") for t in e[1].targets)]
        if not ctx.check("C15-a", len(binds) == 1, init, "Selector.__init__ [%s] binds _selector %d time(s): a specification of "
                         "this type is accepted without a selector" % (p.describe(4), len(binds)),
                         detail="_selector bound once [%s]" % p.describe(3), construct="init-bind:" + p.describe(4), path=p):
            continue
        idx, st = binds[0]
        kind, extra, ok, why = classify_binding(ctx, init, st.value, sel, roe)
        if kind is None:
            ctx.unknown("C15-a", st, why)
            continue
        lits = _lit_before(p, idx)
        if kind == "class":
            guard = _has_lit(lits, is_isclass, True)
            gwhy = "the isinstance test is bound without the guard inspect.isclass(specification)"
        elif kind == "callable":
            guard = _has_lit(lits, is_callable, True) and _has_lit(lits, is_isclass, False)
            gwhy = ("a callable is used as it is only after the class test failed: classes are callable, a class must test the "
                    "type of the data, not be called")
        elif kind == "str":
            guard = _has_lit(lits, lambda t: is_type(t, "str"), True)
            gwhy = "the context test is bound without the guard isinstance(specification, str)"
        else:
            which = [k for k in ("list", "tuple") if _has_lit(lits, (lambda t, k=k: is_type(t, k)), True)]
            guard = len(which) == 1
            gwhy = "a container selector is built without the guard isinstance(specification, list|tuple)"
            if guard:
                kind = which[0]
                containers[kind] = extra
        ctx.check("C15-a", ok and guard, st, "Selector.__init__ [%s]: %s" % (p.describe(4), why if not ok else gwhy),
                  detail="%s specification -> %s" % (kind, A.short(st.value, 60)), construct="init-dispatch:%s" % kind, path=p)
        kinds_seen[kind] = kinds_seen.get(kind, 0) + 1
        # raise_on_error recorded on this exit
        roes = [s for s in p.stmts() if isinstance(s, ast.Assign) and any(A.is_self_attr(t, "_raise_on_error") for t in s.targets)]
        ctx.check("C15-a", len(roes) >= 1, init, "Selector.__init__ [%s] leaves _raise_on_error unbound" % p.describe(4),
                  detail="_raise_on_error bound [%s]" % p.describe(3), construct="init-roe:" + p.describe(4), path=p)
    missing = [k for k in ("class", "callable", "str", "list", "tuple") if k not in kinds_seen]
    ctx.check("C15-a", not missing, init, "Selector.__init__ has no branch for a %s specification" % "/".join(missing),
              detail="all five kinds of specification are dispatched", construct="init-kinds")
    ctx.instances_floor("C15-a/exits", n_normal, 5, "normal exits of Selector.__init__")
    # list -> any, tuple -> all
    for kind, want in (("list", "any"), ("tuple", "all")):
        t = containers.get(kind)
        if t is None:
            continue
        red, call = reducer_of(ctx, t)
        if red is None:
            ctx.unknown("C15-a", call if call is not None else t.node, "%s.__call__: reduction not recognised" % t.name.rsplit(".", 1)[-1])
            continue
        ctx.check("C15-a", red == want, call, "a %s specification is evaluated by %s.__call__ with %s(): a %s is %s of its items"
                  % (kind, t.name.rsplit(".", 1)[-1], red, kind, "OR" if kind == "list" else "AND"),
                  detail="%s -> %s -> %s()" % (kind, t.name.rsplit(".", 1)[-1], red), construct="reduce:%s" % kind)
        check_container_init(ctx, t)
    # Not
    ncall = ctx.tree.func(SEL, "Not.__call__")
    nps = [p for p in A.func_params(ncall) if p != "self"]
    nret = _straight_return(ncall)
    ok = False
    if isinstance(nret, ast.UnaryOp) and isinstance(nret.op, ast.Not):
        c = nret.operand
        ok = isinstance(c, ast.Call) and isinstance(c.func, ast.Attribute) and c.func.attr == "__call__" \
            and isinstance(c.func.value, ast.Call) and A.call_name(c.func.value) == "super" \
            and len(c.args) == 1 and A.src(c.args[0]) == nps[0]
    ctx.check("C15-a", ok, ncall, "Not.__call__ is not `not Selector.__call__(value)`", detail="Not negates the contained evaluation",
              construct="not-call")
    nbases = res.bases(res.class_target(SEL, "Not"))
    ctx.check("C15-a", any(b is not None and b.name == SEL + ".Selector" for b in nbases), ncall, "Not does not derive from Selector",
              detail="Not evaluates through Selector.__call__", construct="not-base")
    ninit = ctx.tree.func(SEL, "Not.__init__")
    nip = [p for p in A.func_params(ninit) if p != "self"]
    sup = [c for c in A.walk_local(ninit) if isinstance(c, ast.Call) and isinstance(c.func, ast.Attribute) and c.func.attr == "__init__"]
    ok = len(sup) == 1 and len(nip) == 2 and [A.src(a) for a in sup[0].args] == nip
    ctx.check("C15-a", ok, ninit, "Not.__init__ does not pass (selector, raise_on_error) to Selector.__init__",
              detail="Not converts its argument like Selector", construct="not-init")


# -- C15-b -----------------------------------------------------------------------------------
def check_contained_call(ctx, qual, callee_src, what):
    """Every call of `callee_src` in the method is inside a try catching Exception; handler discipline on paths."""
    res = ctx.res
    fn = ctx.tree.func(SEL, qual)
    calls = [c for c in A.walk_local(fn) if isinstance(c, ast.Call) and A.src(c.func) == callee_src]
    ctx.instances_floor("C15-b/%s" % qual, len(calls), 1, "invocations of %s in %s" % (callee_src, qual))
    tries = set()
    for c in calls:
        encl = [t for t in _enclosing_try_handlers(c, fn) if any(_handler_catches(res, h, CATCH_ALL) for h in t.handlers)]
        ctx.check("C15-b", bool(encl), c, "%s invokes %s outside any `except Exception`: an exception inside this leaf "
                  "propagates although raise_on_error is False" % (qual, what),
                  detail="%s: %s invoked inside try/except Exception" % (qual, what), construct="uncontained:" + A.short(c, 60))
        for t in encl[:1]:
            tries.add(t)
    flag = lambda t: A.src(t) == "self._raise_on_error"
    n = 0
    for p in P.paths_of(fn):
        hs = [(i, e[1]) for i, e in enumerate(p.ev) if e[0] == "exc" and A.enclosing(e[1], ast.Try) in tries
              and _handler_catches(res, e[1], CATCH_ALL)]
        if not hs:
            continue
        n += 1
        i, h = hs[-1]
        lits = []
        for e in p.ev[i:]:
            if e[0] == "cond":
                lits.extend(A.literals(e[1], e[2]))
        if p.end == "raise":
            ok = _has_lit(lits, flag, True)
            why = "the exception is re-raised on a path that does not test _raise_on_error"
        elif p.end == "return":
            r = _last_return(p)
            rv = _value_at(p, r.value) if r.value is not None else None
            ok = _has_lit(lits, flag, False) and rv is not None and A.is_const(rv, False)
            why = ("the handler returns `%s` %s: with raise_on_error=False an exception in a leaf must count as not selected "
                   "(False), and with raise_on_error=True it must propagate"
                   % (A.src(r.value) if r.value is not None else "None",
                      "although _raise_on_error is not known to be false there" if not _has_lit(lits, flag, False) else ""))
        else:
            ok = False
            why = "the handler falls through without a result"
        ctx.check("C15-b", ok, h, "%s [%s]: %s" % (qual, p.describe(4), why),
                  detail="%s handler [%s]: raise iff _raise_on_error, else False" % (qual, p.describe(3)),
                  construct="handler:%s:%s" % (p.end, ",".join(sorted("%s=%s" % (A.src(t), pl) for t, pl in lits))), path=p)
    ctx.instances_floor("C15-b/%s-handler" % qual, n, 2, "paths through the containing handler of %s" % qual)
    return fn, calls


def check_containment(ctx):
    res = ctx.res
    fn, calls = check_contained_call(ctx, "Selector.__call__", "self._selector", "the wrapped selector")
    # the normal result is the leaf's own result
    ps = [p for p in A.func_params(fn) if p != "self"]
    for c in calls:
        ctx.check("C15-b", len(c.args) == 1 and A.src(c.args[0]) == ps[0] and not c.keywords, c,
                  "Selector.__call__ applies the selector to `%s`, not to the value" % ", ".join(A.src(a) for a in c.args),
                  detail="the selector is applied to the value", construct="leaf-arg")
    for p in P.paths_of(fn):
        if p.end != "return" or any(e[0] == "exc" for e in p.ev):
            continue
        r = _last_return(p)
        v = _value_at(p, r.value) if r.value is not None else None
        if isinstance(v, ast.Call) and res.call_canon(v) == "builtins.bool" and len(v.args) == 1:
            v = _value_at(p, v.args[0])
        ok = isinstance(v, ast.Call) and v in calls
        ctx.check("C15-b", ok, r, "Selector.__call__ returns `%s`, not the result of the wrapped selector" % A.short(r, 60),
                  detail="the normal result is the selector's result", construct="leaf-result:" + A.short(r, 50), path=p)
    # SelectContext
    fn, calls = check_contained_call(ctx, "SelectContext.__call__", "self._predicate", "the predicate")
    ps = [p for p in A.func_params(fn) if p != "self"]
    lookups = [c for c in A.walk_local(fn) if isinstance(c, ast.Call) and res.call_canon(c) == "lena.context.functions.get_recursively"]
    if ctx.require(len(lookups) == 1, "C15-b", fn, "SelectContext.__call__: expected one get_recursively lookup"):
        lk = lookups[0]
        ctx.check("C15-b", len(lk.args) == 2 and not lk.keywords and A.src(lk.args[1]) == "self._key", lk,
                  "SelectContext looks up `%s`: with a default the predicate is applied to the default when the sub-context is "
                  "absent (the property demands False), and the key must be the configured one" % A.short(lk, 70),
                  detail="get_recursively(context, self._key) without default", construct="lookup-shape")
        # first argument derives from get_context(value)
        a0 = lk.args[0] if lk.args else None
        src_ok = False
        if isinstance(a0, ast.Name):
            defs = [s for s in A.walk_local(fn) if isinstance(s, ast.Assign) and any(isinstance(t, ast.Name) and t.id == a0.id for t in s.targets)]
            src_ok = len(defs) == 1 and isinstance(defs[0].value, ast.Call) and res.call_canon(defs[0].value) == "lena.flow.functions.get_context" \
                and [A.src(a) for a in defs[0].value.args] == ps
        elif isinstance(a0, ast.Call):
            src_ok = res.call_canon(a0) == "lena.flow.functions.get_context" and [A.src(a) for a in a0.args] == ps
        ctx.check("C15-b", src_ok, lk, "SelectContext does not look the key up in get_context(value)", detail="lookup in the value's context",
                  construct="lookup-context")
        encl = _enclosing_try_handlers(lk, fn)
        hs = [h for t in encl for h in t.handlers if h.type is not None and _handler_catches(res, h, (EXC + "LenaKeyError",))]
        if ctx.check("C15-b", bool(hs), lk, "the lookup of the sub-context is not enclosed by `except LenaKeyError`: an absent "
                     "sub-context raises instead of giving False", detail="lookup enclosed by except LenaKeyError", construct="lookup-handler"):
            for h in hs[:1]:
                hp = P.paths_through(h.body)
                ok = bool(hp) and all(q.end == "return" and _last_return(q).value is not None
                                      and A.is_const(_value_at(q, _last_return(q).value), False) for q in hp)
                ctx.check("C15-b", ok, h, "the handler of the missing sub-context does not return False on every path",
                          detail="absent sub-context -> False", construct="lookup-absent")
        # the predicate receives the looked-up object
        tgt = None
        par = A.parent(lk)
        if isinstance(par, ast.Assign) and len(par.targets) == 1 and isinstance(par.targets[0], ast.Name):
            tgt = par.targets[0].id
        for c in calls:
            ok = len(c.args) == 1 and not c.keywords and (A.src(c.args[0]) == tgt or c.args[0] is lk)
            if ok and tgt is not None:
                rebinds = [s for s in A.walk_local(fn) if isinstance(s, (ast.Assign, ast.AugAssign)) and s is not par
                           and any(tgt in A.target_names(t) for t in A.assigned_targets(s))]
                ok = not rebinds
            ctx.check("C15-b", ok, c, "the predicate is applied to `%s`, not to the addressed sub-context"
                      % ", ".join(A.src(a) for a in c.args), detail="predicate(sub-context)", construct="predicate-arg")
    # contract between SelectContext and the helper it relies on: whatever makes the addressed item *absent* -- a missing key
    # or a scalar met on the way -- leaves get_recursively (called without default) as LenaKeyError, the only class
    # SelectContext turns into False; the argument checks that precede the traversal may raise other Lena classes
    gr = ctx.tree.func("lena.context.functions", "get_recursively")
    keysp = A.func_params(gr)[1]
    trav = [l for l in gr.body if isinstance(l, ast.For) and A.root_name(l.iter) == keysp]
    if ctx.require(len(trav) == 1, "C15-b", gr, "get_recursively: the traversal loop over the keys was not found"):
        n_abs = 0
        for p in P.paths_of(gr):
            if p.end != "raise":
                continue
            started = any(e[0] in ("iter", "loop0") and e[1] is trav[0] for e in p.ev)
            if not started:
                continue
            r = [x for x in p.stmts() if isinstance(x, ast.Raise)][-1]
            ex = r.exc.func if isinstance(r.exc, ast.Call) else r.exc
            n_abs += 1
            ctx.check("C15-b", ex is not None and res.canon(ex) == EXC + "LenaKeyError", r, "get_recursively raises `%s` for an item that is "
                      "absent on the path [%s]: SelectContext only takes LenaKeyError for 'absent' and answers False; any other class "
                      "propagates through the selector (also with raise_on_error=False) and through Filter" % (A.short(ex, 40), p.describe(4)),
                      detail="absent item -> LenaKeyError [%s]" % p.describe(2), construct="absent-raises:%s" % A.short(ex, 40), path=p)
        ctx.instances_floor("C15-b/absent", n_abs, 2, "raising paths of get_recursively inside or after the key traversal")
    # who may write _raise_on_error
    n = 0
    mod = ctx.tree.module(SEL)
    for st in ast.walk(mod.tree):
        if isinstance(st, (ast.Assign, ast.AugAssign)):
            for t in A.assigned_targets(st):
                if isinstance(t, ast.Attribute) and t.attr == "_raise_on_error":
                    n += 1
                    f = A.enclosing_func(st)
                    params = A.func_params(f) if f is not None else []
                    v = st.value
                    if isinstance(v, ast.Call) and res.call_canon(v) == "builtins.bool" and len(v.args) == 1:
                        v = v.args[0]
                    ctx.check("C15-b", isinstance(st, ast.Assign) and isinstance(v, ast.Name) and v.id in params
                              and v.id == "raise_on_error" and f.name == "__init__", st,
                              "_raise_on_error is bound to `%s`, not to the constructor's raise_on_error" % A.short(st.value, 50),
                              detail="_raise_on_error = bool(raise_on_error)", construct="roe-store:" + A.short(st, 60))
    ctx.instances_floor("C15-b/roe", n, 2, "stores to _raise_on_error")


# -- C15-c -----------------------------------------------------------------------------------
def check_filter(ctx):
    res = ctx.res
    F = "lena.flow.filter"
    init = ctx.tree.func(F, "Filter.__init__")
    ps = [p for p in A.func_params(init) if p != "self"]
    n = 0
    for p in P.paths_of(init):
        if p.end == "raise":
            continue
        n += 1
        binds = [(i, e[1]) for i, e in enumerate(p.ev) if e[0] == "stmt" and isinstance(e[1], ast.Assign)
                 and any(A.is_self_attr(t, "_selector") for t in e[1].targets)]
        ok = len(binds) == 1
        why = "%d bindings of _selector" % len(binds)
        if ok:
            i, st = binds[0]
            v = st.value
            convs = [s for s in p.stmts() if isinstance(s, ast.Assign) and any(isinstance(t, ast.Name) and t.id == ps[0] for t in s.targets)]
            if isinstance(v, ast.Call):
                convs, v = [st], ast.Name(id=ps[0], ctx=ast.Load())
            is_sel = lambda t: (lambda c: c is not None and res.canon(c) == SEL + ".Selector")(_isinstance_of(t, ps[0], res))
            lits = _lit_before(p, i)
            if not (isinstance(v, ast.Name) and v.id == ps[0]):
                ok, why = False, "_selector is bound to `%s`" % A.short(st.value, 50)
            elif convs:
                c = convs[-1].value
                ok = len(convs) == 1 and isinstance(c, ast.Call) and res.call_canon(c) == SEL + ".Selector" and len(c.args) == 1 \
                    and A.src(c.args[0]) == ps[0] and not c.keywords and not _has_lit(lits, is_sel, True)
                why = "the specification is converted as `%s`" % A.short(c, 60)
            else:
                ok = _has_lit(lits, is_sel, True)
                why = "a non-selector is kept without conversion"
        ctx.check("C15-c", ok, init, "Filter.__init__ [%s]: %s" % (p.describe(3), why),
                  detail="Filter keeps a Selector and converts anything else [%s]" % p.describe(3), construct="filter-init:" + p.describe(3), path=p)
    ctx.instances_floor("C15-c/init", n, 2, "normal exits of Filter.__init__")
    run = ctx.tree.func(F, "Filter.run")
    fi = ctx.tree.func(F, "Filter.fill_into")
    test_run = fwd = var = None
    g = _straight_return(run) if not A.is_generator(run) else None
    flow = [p for p in A.func_params(run) if p != "self"][0]
    if isinstance(g, ast.GeneratorExp):
        if len(g.generators) == 1 and len(g.generators[0].ifs) == 1 and isinstance(g.generators[0].target, ast.Name) \
                and A.src(g.generators[0].iter) == flow:
            var, test_run, fwd = g.generators[0].target.id, g.generators[0].ifs[0], g.elt
    else:
        loops = [l for l in A.body_wo_doc(run) if isinstance(l, ast.For) and A.src(l.iter) == flow and isinstance(l.target, ast.Name)]
        if len(loops) == 1 and len(A.body_wo_doc(run)) == 1 and not loops[0].orelse:
            br = _one_armed_if(loops[0].body)
            ys = [y for y in A.walk_body(loops[0].body) if isinstance(y, ast.Yield)]
            if br is not None and len(ys) == 1 and any(isinstance(st, ast.Expr) and st.value is ys[0] for st in br[1]):
                var, test_run, fwd = loops[0].target.id, br[0], ys[0].value
    if ctx.require(test_run is not None, "C15-c", run, "Filter.run: unrecognised shape"):
        ctx.check("C15-c", A.src(test_run) == "self._selector(%s)" % var, run, "Filter.run keeps a value when `%s`, not when the "
                  "selector selects it" % A.src(test_run), detail="Filter.run tests self._selector(value)", construct="filter-run-test")
        ctx.check("C15-c", isinstance(fwd, ast.Name) and fwd.id == var, run, "Filter.run yields `%s`, not the selected value itself"
                  % A.src(fwd), detail="Filter.run forwards the value itself", construct="filter-run-forward")
    fps = [p for p in A.func_params(fi) if p != "self"]
    body = A.body_wo_doc(fi)
    if ctx.require(len(fps) == 2 and len(body) == 1 and isinstance(body[0], ast.If), "C15-c", fi, "Filter.fill_into: unrecognised shape"):
        iff = body[0]
        # `if T: A` and `if not T: pass else: A` are the same statement: read the test with its polarity
        br = _one_armed_if(body)
        test, arm = br if br is not None else (iff.test, iff.body)
        ctx.check("C15-c", A.src(test) == "self._selector(%s)" % fps[1] and br is not None, iff,
                  "Filter.fill_into fills when `%s`, not when the selector selects the value" % A.src(iff.test),
                  detail="Filter.fill_into tests self._selector(value)", construct="filter-fill-test")
        fills = [c for s in arm for c in ast.walk(s) if isinstance(c, ast.Call) and isinstance(c.func, ast.Attribute) and c.func.attr == "fill"]
        ctx.check("C15-c", len(fills) == 1 and A.src(fills[0]) == "%s.fill(%s)" % (fps[0], fps[1]), iff,
                  "Filter.fill_into does not fill exactly the selected value itself (%s)" % "; ".join(A.src(c) for c in fills),
                  detail="Filter.fill_into fills the value itself", construct="filter-fill-forward")


# -- C15-d -----------------------------------------------------------------------------------
def check_iet_get(ctx):
    res = ctx.res
    get = ctx.tree.func(IET, "IncludeExcludeTree.get")
    ps = [p for p in A.func_params(get) if p != "self"]
    loops = [n for n in A.walk_local(get) if isinstance(n, ast.For)]
    # whatever shape the selection has: the recursion into a subtree is made only with a value found to be a dictionary -- a listed
    # prefix whose value in this context is a scalar selects nothing there (get of a subtree iterates value.items())
    sub_names = set()
    for l in loops:
        if "self.subtrees" in A.src(l.iter) and isinstance(l.target, ast.Tuple) and len(l.target.elts) == 2 and A.src(l.iter).endswith(".items()"):
            sub_names.add(A.src(l.target.elts[1]))
    for a in A.walk_local(get):
        if isinstance(a, ast.Assign) and len(a.targets) == 1 and isinstance(a.targets[0], ast.Name) and isinstance(a.value, ast.Subscript) \
                and A.src(a.value.value) == "self.subtrees":
            sub_names.add(a.targets[0].id)
    nrec = 0
    seen_bad = set()
    for p in P.paths_of(get):
        for i, c in p.calls():
            if not (isinstance(c.func, ast.Attribute) and c.func.attr == "get" and len(c.args) == 1):
                continue
            recv = c.func.value
            if not ((isinstance(recv, ast.Subscript) and A.src(recv.value) == "self.subtrees") or A.src(recv) in sub_names):
                continue
            nrec += 1
            arg = c.args[0]
            if isinstance(arg, ast.Name):
                d = A.single_def(get, arg.id)
                forms = {arg.id} | ({A.src(d)} if d is not None else set())
            else:
                forms = {A.src(arg)} | {n for n in A.names_in(get) if A.single_def(get, n) is not None and A.src(A.single_def(get, n)) == A.src(arg)}
            guarded = False
            for j, e in enumerate(p.ev[:i + 1]):
                if e[0] != "cond":
                    continue
                for t, pol in A.literals(p._explained(e[1], j), e[2]):
                    for f in forms:
                        cls = _isinstance_of(t, f, res)
                        if cls is not None and pol and (res.canon(cls) or "").rsplit(".", 1)[-1] in ("dict", "Mapping", "MutableMapping"):
                            guarded = True
            if not guarded and c not in seen_bad:
                seen_bad.add(c)
                ctx.violation("C15-d", c, "IncludeExcludeTree.get recurses into a subtree with `%s` on a path [%s] that has not found it to "
                              "be a dictionary: where a listed prefix holds a scalar in this context the subtree's get iterates "
                              "`.items()` of it and raises, instead of selecting nothing there -- GroupBy/SelectContext keys taken from "
                              "such a context fail for one value of the flow only" % (A.src(c), p.describe(4)),
                              construct="get-recursion-unguarded", path=p)
    ctx.instances_floor("C15-d/recursion", nrec, 1, "recursive get calls on enumerated paths")
    if not seen_bad:
        ctx.ok("C15-d", get, "every recursion into a subtree is made with a value tested isinstance(., dict)")
    if not ctx.require(len(ps) == 1 and loops and all(A.src(l.iter) == "%s.items()" % ps[0] and isinstance(l.target, ast.Tuple)
                                                       and len(l.target.elts) == 2 for l in loops), "C15-d", get,
                       "IncludeExcludeTree.get: expected loops `for key, value in context.items()`"):
        return
    # local aliases of self.keys
    alias = {"self.keys"}
    for s in A.walk_local(get):
        if isinstance(s, ast.Assign) and A.src(s.value) == "self.keys":
            for t in s.targets:
                if isinstance(t, ast.Name):
                    alias.add(t.id)
    # result variable
    rets = [r for r in A.walk_local(get) if isinstance(r, ast.Return)]
    resvar = A.src(rets[0].value) if len(rets) == 1 and rets[0].value is not None else None
    inits = [s for s in get.body if isinstance(s, ast.Assign) and any(A.src(t) == resvar for t in s.targets)]
    ctx.check("C15-d", resvar is not None and len(inits) == 1 and A.src(inits[0].value) in ("{}", "dict()"), get,
              "IncludeExcludeTree.get does not return a dictionary it has created empty", detail="result starts as a fresh {}",
              construct="get-result")
    n = 0
    rows = set()
    for p in P.paths_of(get):
        its = [(i, e[1]) for i, e in enumerate(p.ev) if e[0] == "iter"]
        if not its:
            continue
        i0, loop = its[0]
        key, val = A.src(loop.target.elts[0]), A.src(loop.target.elts[1])
        mode = None
        inc_names = {"self.include"} | {k for k, v in K.func_aliases(get).items() if A.src(v) == "self.include"}
        # the default is tested before the loop (two loops) or inside it (one loop); a path that never tests it holds for both
        for t, pol in p.literals():
            if A.src(t) in inc_names:
                mode = pol
        lits = []
        for e in p.ev[i0:]:
            if e[0] == "cond":
                lits.extend(A.literals(e[1], e[2]))

        def member(t, where):
            return isinstance(t, ast.Compare) and len(t.ops) == 1 and isinstance(t.ops[0], (ast.In, ast.NotIn)) \
                and A.src(t.left) == key and A.src(t.comparators[0]) in where

        def truth(where):
            for t, pol in lits:
                if member(t, where):
                    return pol if isinstance(t.ops[0], ast.In) else (not pol)
            return None
        listed = truth(alias)
        sub = truth({"self.subtrees"})
        isd = None
        for t, pol in lits:
            c = _isinstance_of(t, val, res)
            if c is not None and res.canon(c) == "builtins.dict":
                isd = pol
        stores = [s for s in p.stmts()[:] if isinstance(s, ast.Assign) and any(
            isinstance(t, ast.Subscript) and A.src(t.value) == resvar for t in s.targets)]
        stores = [s for s in stores if p.index(s) > i0]
        others = [c for i, c in p.calls() if i > i0 and isinstance(c.func, ast.Attribute) and A.src(c.func.value) == resvar
                  and c.func.attr in ("update", "setdefault", "pop", "clear", "popitem")]
        dels = [s for s in p.stmts() if isinstance(s, ast.Delete) and p.index(s) > i0]
        n += 1

        def expected(mode):
            if listed:
                return "none" if mode else "value"
            if sub:
                return "rec" if isd else ("none" if isd is False else "unguarded")
            if listed is False and sub is False:
                return "value" if mode else "none"
            return None
        if mode is None:
            if expected(True) != expected(False):
                ctx.unknown("C15-d", loop, "path [%s] stores or skips an item without testing self.include" % p.describe(4))
                continue
            rows.add((True, listed, sub, isd))
            rows.add((False, listed, sub, isd))
            mode = True
        row = (mode, listed, sub, isd)
        rows.add(row)
        # expected outcome
        want = expected(mode)
        if want is None:
            ctx.unknown("C15-d", loop, "path [%s] decides neither key membership nor subtree membership" % p.describe(4))
            continue
        got = "none"
        ok_shape = not others and not dels and len(stores) <= 1
        if len(stores) == 1:
            s = stores[0]
            tgt = [t for t in s.targets if isinstance(t, ast.Subscript)][0]
            if A.src(tgt.slice) != key:
                got = "other-key"
            elif A.src(s.value) == val:
                got = "value"
            elif A.src(s.value) == "self.subtrees[%s].get(%s)" % (key, val):
                got = "rec"
            else:
                got = "other:" + A.short(s.value, 50)
        elif len(stores) > 1:
            got = "many"
        if want == "unguarded":
            ok = got == "none"   # recursion without the isinstance guard: only allowed not to happen
            if got == "rec":
                ok = False
        else:
            ok = got == want
        desc = "%s tree, key %s, %s" % ("including" if mode else "excluding",
                                       "listed" if listed else ("a subtree" if sub else "not mentioned"),
                                       "" if not sub or listed else ("value is a dict" if isd else ("value is not a dict" if isd is False else "value of unknown type")))
        ctx.check("C15-d", ok and ok_shape, loop, "IncludeExcludeTree.get [%s]: result gets %s, expected %s" % (
                  desc.strip(", "), got, {"none": "nothing", "value": "the value as it is", "rec": "the subtree's selection of the value",
                                          "unguarded": "no recursion into a non-dictionary"}[want]),
                  detail="get [%s] -> %s" % (desc.strip(", "), got), construct="get-row:%s:%s:%s:%s" % row, path=p)
    ctx.instances_floor("C15-d/get", n, 4, "paths through the item loops of IncludeExcludeTree.get")   # completeness is the row table below
    need = {(m, l, s) for m in (True, False) for (l, s) in ((True, None), (False, True), (False, False))}
    have = {(m, bool(l) if l is not None else None, s if not l else None) for m, l, s, d in rows}
    miss = [r for r in need if r not in have]
    ctx.check("C15-d", not miss, get, "IncludeExcludeTree.get has no path for %s" % miss, detail="both modes decide listed/subtree/other",
              construct="get-rows")


def check_group_by(ctx):
    res = ctx.res
    fill = ctx.tree.func(GB, "GroupBy.fill")
    ps = [p for p in A.func_params(fill) if p != "self"]
    val = ps[0]
    n = 0
    setdefault_form = []
    for p in P.paths_of(fill):
        if p.end == "raise":
            r = [s for s in p.stmts() if isinstance(s, ast.Raise)][-1]
            ex = r.exc.func if isinstance(r.exc, ast.Call) else r.exc
            ctx.check("C15-d", ex is not None and res.canon(ex) == EXC + "LenaValueError", r,
                      "GroupBy.fill leaves through `%s`, not LenaValueError" % A.short(r, 50), detail="unformattable key -> LenaValueError",
                      construct="fill-raise", path=p)
            continue
        n += 1
        apps = [c for _, c in p.calls() if isinstance(c.func, ast.Attribute) and c.func.attr in ("append", "insert", "extend", "appendleft")
                and isinstance(c.func.value, ast.Subscript) and A.src(c.func.value.value) == "self.groups"]
        news = [s for s in p.stmts() if isinstance(s, ast.Assign) and any(isinstance(t, ast.Subscript) and A.src(t.value) == "self.groups"
                                                                             for t in s.targets)]
        lits = p.literals()
        keyvar = None
        present = None
        for t, pol in lits:
            if isinstance(t, ast.Compare) and len(t.ops) == 1 and isinstance(t.ops[0], (ast.In, ast.NotIn)) \
                    and A.src(t.comparators[0]) == "self.groups":
                keyvar = A.src(t.left)
                present = pol if isinstance(t.ops[0], ast.In) else (not pol)
        ok = len(apps) + len(news) == 1
        why = "%d append(s) and %d group creation(s)" % (len(apps), len(news))
        # the same as one statement: self.groups.setdefault(key, []).append(val) (the result possibly bound to a local first)
        sd = [c for _, c in p.calls() if isinstance(c.func, ast.Attribute) and c.func.attr == "setdefault" and A.src(c.func.value) == "self.groups"
              and len(c.args) == 2 and isinstance(c.args[1], ast.List) and not c.args[1].elts]
        if not apps and not news and len(sd) == 1:
            holders = {A.src(sd[0])}
            for st in p.stmts():
                if isinstance(st, ast.Assign) and st.value is sd[0] and len(st.targets) == 1 and isinstance(st.targets[0], ast.Name):
                    holders.add(st.targets[0].id)
            adds = [c for _, c in p.calls() if isinstance(c.func, ast.Attribute) and c.func.attr in ("append", "insert", "extend", "appendleft")
                    and A.src(c.func.value) in holders]
            keyvar = A.src(sd[0].args[0])
            setdefault_form.append(p)
            okf = len(adds) == 1 and adds[0].func.attr == "append" and len(adds[0].args) == 1 and A.src(adds[0].args[0]) == val
            ctx.check("C15-d", okf, fill, "GroupBy.fill [%s]: the value itself must be appended once to self.groups.setdefault(key, []) (%s)" % (
                p.describe(3), "; ".join(A.short(c, 40) for c in adds) or "nothing appended"),
                detail="GroupBy.fill [%s]: value joins exactly one group (setdefault form)" % p.describe(3),
                construct="fill-path:" + p.describe(3), path=p)
            ok = None
        if ok is None:
            pass
        elif ok and apps:
            a = apps[0]
            ok = a.func.attr == "append" and len(a.args) == 1 and A.src(a.args[0]) == val and present is True \
                and A.src(a.func.value.slice) == keyvar
            why = "`%s` under key-present=%s: the value itself must be appended at the end of the existing group of its key" % (A.short(a, 60), present)
        elif ok:
            s = news[0]
            tgt = [t for t in s.targets if isinstance(t, ast.Subscript)][0]
            ok = isinstance(s.value, ast.List) and len(s.value.elts) == 1 and A.src(s.value.elts[0]) == val and present is False \
                and A.src(tgt.slice) == keyvar
            why = "`%s` under key-present=%s: a group may only be created, holding the value itself, when its key is new " \
                  "(otherwise the values filled before are lost)" % (A.short(s, 60), present)
        if ok is not None:
            ctx.check("C15-d", ok, fill, "GroupBy.fill [%s]: %s" % (p.describe(3), why),
                      detail="GroupBy.fill [%s]: value joins exactly one group" % p.describe(3), construct="fill-path:" + p.describe(3), path=p)
        # key derivation
        if keyvar:
            chain_ok = False
            d1 = [s for s in p.stmts() if isinstance(s, ast.Assign) and any(A.src(t) == keyvar for t in s.targets)]
            if len(d1) == 1 and isinstance(d1[0].value, ast.Call) and res.call_canon(d1[0].value) == "lena.context.functions.to_string" \
                    and len(d1[0].value.args) == 1:
                a = d1[0].value.args[0]
                a = _deref(p, a)
                if isinstance(a, ast.Call) and A.src(a.func) == "self._iet.get" and len(a.args) == 1:
                    b = _deref(p, a.args[0])
                    chain_ok = isinstance(b, ast.Call) and res.call_canon(b) == "lena.flow.functions.get_context" \
                        and len(b.args) == 1 and A.src(b.args[0]) == val
            ctx.check("C15-d", chain_ok, fill, "GroupBy.fill does not compute the group key as to_string(self._iet.get(get_context(value)))",
                      detail="group key = to_string(selected sub-context)", construct="fill-key", path=p)
    ctx.instances_floor("C15-d/fill", n, 1 if setdefault_form else 2, "normal paths of GroupBy.fill")
    # constructor wiring
    init = ctx.tree.func(GB, "GroupBy.__init__")
    ips = [p for p in A.func_params(init) if p != "self"]
    calls = [c for c in A.walk_local(init) if isinstance(c, ast.Call)
             and res.call_canon(c) == IET + ".make_include_exclude_tree"]
    if ctx.require(len(calls) == 1 and len(ips) == 2, "C15-d", init, "GroupBy.__init__: expected one make_include_exclude_tree call"):
        c = calls[0]
        target = ctx.tree.func(IET, "make_include_exclude_tree")
        formal = A.func_params(target)
        bound = {}
        for i, a in enumerate(c.args):
            if i < len(formal):
                bound[formal[i]] = A.src(a)
        for k in c.keywords:
            bound[k.arg] = A.src(k.value)
        ctx.check("C15-d", bound.get("includes") == ips[0] and bound.get("excludes") == ips[1], c,
                  "GroupBy passes includes=%s, excludes=%s: group_by must be the include set and merge the exclude set"
                  % (bound.get("includes"), bound.get("excludes")), detail="includes=group_by, excludes=merge", construct="init-wiring")
        par = A.parent(c)
        ctx.check("C15-d", isinstance(par, ast.Assign) and any(A.is_self_attr(t, "_iet") for t in par.targets), c,
                  "the tree is not stored as self._iet", detail="self._iet = the tree", construct="init-iet")
    # the default arguments put everything into one group: merge takes the root
    def is_empty(t, name):
        """+1 for `name == ''` (either way round), -1 for `name != ''`, 0 otherwise."""
        if A.same(t, "%s == ''" % name):
            return 1
        if A.same(t, "%s != ''" % name):
            return -1
        return 0
    # the default is recognised by comparison with '' -- an empty tuple or list is a legitimate explicit argument
    # (GroupBy("", merge=()) groups by the whole context) and must not be taken for "nothing given"
    truthy = []
    for p in P.paths_of(init):
        for t, pol in p.literals():
            if isinstance(t, ast.Name) and t.id in ips[:2]:
                truthy.append((t, p))
    seen_t = set()
    for t, p in truthy:
        # only a test made before the argument is rebound to its normalised form concerns the caller's value
        rebound_before = any(isinstance(s, ast.Assign) and any(A.src(x) == t.id for x in s.targets) and s.lineno < t.lineno for s in p.stmts())
        if rebound_before or t.id in seen_t:
            continue
        seen_t.add(t.id)
        ctx.violation("C15-d", t, "GroupBy.__init__ decides by the truth value of its argument `%s` whether the default was given: an "
                      "explicitly empty tuple or list (GroupBy('', merge=()), which groups by the entire context) is taken for the "
                      "default and everything lands in one group" % t.id, construct="init-default-by-truth:%s" % t.id, path=p)
    n_dflt = 0
    for p in P.paths_of(init):
        both = [pol == (is_empty(t, ips[0]) > 0) for t, pol in p.literals() if isinstance(t, ast.Compare) and is_empty(t, ips[0])]
        both2 = [pol == (is_empty(t, ips[1]) > 0) for t, pol in p.literals() if isinstance(t, ast.Compare) and is_empty(t, ips[1])]
        if both == [True] and both2 == [True] and p.end != "raise":
            n_dflt += 1
            g = [s for s in p.stmts() if isinstance(s, ast.Assign) and any(A.src(t) == ips[0] for t in s.targets)]
            m = [s for s in p.stmts() if isinstance(s, ast.Assign) and any(A.src(t) == ips[1] for t in s.targets)]
            ok = len(g) == 1 and A.src(g[0].value) in ("tuple()", "()") and len(m) == 1 and A.src(m[0].value) in ("('',)", '("",)')
            ctx.check("C15-d", ok, init, "GroupBy() with default arguments does not use group_by=(), merge=('',)",
                      detail="defaults: everything merged into one group", construct="init-defaults", path=p)
    if not seen_t:
        ctx.instances_floor("C15-d/defaults", n_dflt, 1, "normal paths of GroupBy.__init__ on which both arguments are the default ''")
    comp = ctx.tree.func(GB, "GroupBy.compute")
    loops = [l for l in A.walk_local(comp) if isinstance(l, ast.For)]
    ok = len(loops) == 1 and A.src(loops[0].iter) in ("self.groups.values()",) and len(loops[0].body) == 1 \
        and isinstance(loops[0].body[0], ast.Expr) and isinstance(loops[0].body[0].value, ast.Yield) \
        and A.src(loops[0].body[0].value.value) == A.src(loops[0].target)
    ctx.check("C15-d", ok, comp, "GroupBy.compute does not yield every group of self.groups as it is", detail="compute yields each group",
              construct="compute")


def _deref(p, expr):
    if isinstance(expr, ast.Name):
        d = [s for s in p.stmts() if isinstance(s, ast.Assign) and any(isinstance(t, ast.Name) and t.id == expr.id for t in s.targets)]
        if len(d) == 1:
            return d[0].value
    return expr


# -- C15-e -----------------------------------------------------------------------------------
KEYLIST, PREFMAP, KEY = "KEYLIST", "PREFMAP", "KEY"
KEYLIST_PARAMS = {"_group_by_starting_prefixes": ("keys",), "_make_include_exclude_tree": ("includes", "excludes"),
                  "make_include_exclude_tree": ("includes", "excludes")}


def _kind(expr, env, res):
    if isinstance(expr, ast.Name):
        return env.get(expr.id)
    if isinstance(expr, ast.Call):
        canon = res.call_canon(expr)
        if canon == IET + "._group_by_starting_prefixes":
            return PREFMAP
        if isinstance(expr.func, ast.Attribute) and expr.func.attr == "get" and _kind(expr.func.value, env, res) == PREFMAP:
            return KEYLIST
        if canon in ("builtins.list", "builtins.tuple") and len(expr.args) == 1:
            return _kind(expr.args[0], env, res)
        if canon in ("builtins.sorted",):
            return None     # a canonical order: positional use is order-free
        return None
    if isinstance(expr, ast.Subscript):
        if _kind(expr.value, env, res) == PREFMAP and not isinstance(expr.slice, ast.Slice):
            return KEYLIST
        return None
    if isinstance(expr, (ast.ListComp, ast.GeneratorExp)) and len(expr.generators) == 1:
        g = expr.generators[0]
        if _kind(g.iter, env, res) == KEYLIST:
            return KEYLIST
        return None
    if isinstance(expr, ast.Tuple) and len(expr.elts) == 1 and _kind(expr.elts[0], env, res) == KEYLIST:
        return KEYLIST
    if isinstance(expr, ast.IfExp):
        a, b = _kind(expr.body, env, res), _kind(expr.orelse, env, res)
        return a or b
    return None


def check_order_free(ctx):
    res = ctx.res
    n = 0
    for fname, params in KEYLIST_PARAMS.items():
        fn = ctx.tree.func(IET, fname)
        have = A.func_params(fn)
        if not ctx.require(all(p in have for p in params), "C15-e", fn, "%s: parameters %s expected" % (fname, params)):
            continue
        env = {p: KEYLIST for p in params}
        # flow-insensitive fixpoint over the assignments and loop targets of the function
        for _ in range(6):
            for s in A.walk_local(fn):
                if isinstance(s, ast.Assign):
                    k = _kind(s.value, env, res)
                    if k:
                        for t in s.targets:
                            if isinstance(t, ast.Name):
                                env[t.id] = k
                elif isinstance(s, (ast.For, ast.comprehension)):
                    it, tg = s.iter, s.target
                    if isinstance(it, ast.Call) and isinstance(it.func, ast.Attribute) and it.func.attr == "items" \
                            and _kind(it.func.value, env, res) == PREFMAP and isinstance(tg, ast.Tuple) and len(tg.elts) == 2 \
                            and isinstance(tg.elts[1], ast.Name):
                        env[tg.elts[1].id] = KEYLIST
                    elif isinstance(it, ast.Call) and isinstance(it.func, ast.Attribute) and it.func.attr == "values" \
                            and _kind(it.func.value, env, res) == PREFMAP and isinstance(tg, ast.Name):
                        env[tg.id] = KEYLIST
        for x in A.walk_local(fn):
            bad = None
            if isinstance(x, ast.Subscript) and isinstance(x.ctx, ast.Load) and _kind(x.value, env, res) == KEYLIST:
                bad = "positional subscript `%s`" % A.short(x, 40)
            elif isinstance(x, ast.Call) and isinstance(x.func, ast.Attribute) and x.func.attr in ("pop", "index", "reverse", "sort") \
                    and _kind(x.func.value, env, res) == KEYLIST:
                bad = "`%s`" % A.short(x, 40)
            elif isinstance(x, ast.Call) and res.call_canon(x) == "builtins.next" and x.args:
                inner = x.args[0]
                if isinstance(inner, ast.Call) and res.call_canon(inner) == "builtins.iter" and inner.args:
                    inner = inner.args[0]
                if _kind(inner, env, res) == KEYLIST:
                    bad = "`%s`" % A.short(x, 40)
            if bad:
                ctx.violation("C15-e", x, "%s uses a list of keys positionally (%s): group_by/merge are sets of key paths, the "
                              "tree -- and with it the partition -- must not depend on the order in which keys were listed"
                              % (fname, bad), construct="positional:" + A.short(x, 50))
        uses = [x for x in A.walk_local(fn) if isinstance(x, ast.Name) and isinstance(x.ctx, ast.Load) and env.get(x.id) == KEYLIST]
        n += len(uses)
        for u in uses:
            ctx.ok("C15-e", u, "%s: `%s` (a list of keys) used order-insensitively in `%s`" % (fname, u.id, A.short(A.parent(u), 50)))
    ctx.instances_floor("C15-e", n, 12, "uses of key lists in the construction of the include/exclude tree")


# -- C15-f -----------------------------------------------------------------------------------
def _prov(expr, env, res):
    """Provenance {INC, EXC} of a container expression (keys and values looked up *in* it, not the lookup keys)."""
    if isinstance(expr, ast.Name):
        return env.get(expr.id, frozenset())
    if isinstance(expr, ast.Call):
        canon = res.call_canon(expr)
        if canon == IET + "._group_by_starting_prefixes" and expr.args:
            return _prov(expr.args[0], env, res)
        if isinstance(expr.func, ast.Attribute) and expr.func.attr in ("get", "keys", "values", "items", "copy"):
            return _prov(expr.func.value, env, res)
        if canon in ("builtins.list", "builtins.tuple", "builtins.set", "builtins.sorted", "builtins.frozenset") and len(expr.args) == 1:
            return _prov(expr.args[0], env, res)
        return frozenset()
    if isinstance(expr, ast.Subscript):
        return _prov(expr.value, env, res)
    if isinstance(expr, (ast.ListComp, ast.GeneratorExp, ast.SetComp)) and expr.generators:
        out = frozenset()
        for g in expr.generators:
            out |= _prov(g.iter, env, res)
        return out
    if isinstance(expr, ast.Tuple) and len(expr.elts) == 1:
        return _prov(expr.elts[0], env, res)
    if isinstance(expr, ast.BinOp):
        return _prov(expr.left, env, res) | _prov(expr.right, env, res)
    if isinstance(expr, ast.IfExp):
        return _prov(expr.body, env, res) | _prov(expr.orelse, env, res)
    return frozenset()


def _walk_prov(p, res, inc, exc, upto=None):
    env = {inc: frozenset(["INC"]), exc: frozenset(["EXC"])}
    for i, e in enumerate(p.ev):
        if upto is not None and i >= upto:
            break
        if e[0] == "stmt" and isinstance(e[1], ast.Assign):
            pr = _prov(e[1].value, env, res)
            for t in e[1].targets:
                if isinstance(t, ast.Name):
                    env[t.id] = pr
        elif e[0] == "stmt" and isinstance(e[1], ast.AugAssign) and isinstance(e[1].target, ast.Name):
            # `x += e` is `x = x + e`
            env[e[1].target.id] = env.get(e[1].target.id, frozenset()) | _prov(e[1].value, env, res)
        elif e[0] == "iter" and isinstance(e[1], ast.For):
            it, tg = e[1].iter, e[1].target
            pr = _prov(it, env, res)
            for nm in A.target_names(tg):
                env[nm] = pr
    return env


def check_provenance(ctx):
    res = ctx.res
    mk = ctx.tree.func(IET, "_make_include_exclude_tree")
    formal = A.func_params(mk)
    if not ctx.require(formal[:3] == ["includes", "excludes", "is_default_include"], "C15-f", mk,
                       "_make_include_exclude_tree: parameters (includes, excludes, is_default_include) expected"):
        return
    dflt = "is_default_include"
    n_calls = 0
    n_ret = 0
    for p in P.paths_of(mk):
        mode = [pol for t, pol in p.literals() if A.src(t) == dflt]
        for i, c in p.calls():
            canon = res.call_canon(c)
            if canon == IET + "._make_include_exclude_tree":
                n_calls += 1
                env = _walk_prov(p, res, "includes", "excludes", upto=i + 1)
                bound = {}
                for j, a in enumerate(c.args):
                    bound[formal[j]] = a
                for k in c.keywords:
                    bound[k.arg] = k.value
                pi = _prov(bound.get("includes"), env, res) if bound.get("includes") is not None else frozenset()
                pe = _prov(bound.get("excludes"), env, res) if bound.get("excludes") is not None else frozenset()
                ctx.check("C15-f", pi == {"INC"} and pe == {"EXC"}, c, "the subtree is built with includes derived from %s and "
                          "excludes derived from %s: the two key sets are crossed or mixed below this prefix"
                          % (sorted(pi) or "nothing", sorted(pe) or "nothing"),
                          detail="recursive construction keeps includes/excludes apart", construct="rec-provenance", path=p)
                # the sub-lists are looked up under the prefix of this iteration
                for nm in ("includes", "excludes"):
                    b = _deref(p, bound.get(nm)) if bound.get(nm) is not None else None
                    keyed = None
                    if isinstance(b, (ast.ListComp, ast.GeneratorExp)):
                        b = b.generators[0].iter
                    if isinstance(b, ast.Call) and isinstance(b.func, ast.Attribute) and b.func.attr == "get" and b.args:
                        keyed = A.src(b.args[0])
                    elif isinstance(b, ast.Subscript):
                        keyed = A.src(b.slice)
                    loop = A.enclosing(c, ast.For)
                    kv = A.src(loop.target.elts[0]) if loop is not None and isinstance(loop.target, ast.Tuple) else None
                    ctx.check("C15-f", keyed is not None and keyed == kv, c, "the %s of the subtree are not the tails listed under the "
                              "prefix of this subtree (`%s`)" % (nm, A.short(bound.get(nm), 60) if bound.get(nm) is not None else "missing"),
                              detail="subtree %s = tails under its prefix" % nm, construct="rec-prefix:" + nm, path=p)
                # the default handed down
                d = bound.get(dflt)
                dv = _deref(p, d) if d is not None else None
                # under which condition was it assigned
                flip = None
                if isinstance(d, ast.Name):
                    ds = [s for s in p.stmts() if isinstance(s, ast.Assign) and any(isinstance(t, ast.Name) and t.id == d.id for t in s.targets)
                          and p.index(s) < i]
                    if ds:
                        dv = ds[-1].value
                        k = p.index(ds[-1])
                        conds = [e for e in p.ev[:k] if e[0] == "cond"]
                        flip = conds[-1] if conds else None
                is_flip = isinstance(dv, ast.UnaryOp) and isinstance(dv.op, ast.Not) and A.src(dv.operand) == dflt
                is_same = dv is not None and A.src(dv) == dflt
                empty_tail = None
                if flip is not None:
                    empty_tail = _tests_empty_tail(flip[1], flip[2])
                if not (is_flip or is_same) or empty_tail is None:
                    ctx.unknown("C15-f", c, "default handed to the subtree (`%s`) or its condition (`%s`) not recognised"
                                % (A.src(dv) if dv is not None else None, A.src(flip[1]) if flip else None))
                else:
                    ctx.check("C15-f", is_flip == empty_tail, c, "the subtree %s the default although %s: the default flips exactly "
                              "at a prefix that is itself listed" % ("inverts" if is_flip else "inherits",
                                                                       "no tail is empty (the prefix itself is not listed)" if not empty_tail
                                                                       else "the prefix itself is listed (an empty tail)"),
                              detail="default %s under empty-tail=%s" % ("flipped" if is_flip else "inherited", empty_tail),
                              construct="rec-default:%s" % empty_tail, path=p)
                # which table the prefixes come from
                loop = A.enclosing(c, ast.For)
                if loop is not None and mode:
                    pl = _prov(loop.iter, _walk_prov(p, res, "includes", "excludes", upto=p.index(loop)), res)
                    want = {"EXC"} if mode[-1] else {"INC"}
                    ctx.check("C15-f", pl == want, loop, "with default %s the explicit keys of a level are the %s, but the level loop "
                              "iterates prefixes of %s" % ("include" if mode[-1] else "exclude", "excludes" if mode[-1] else "includes",
                                                           sorted(pl) or "unknown origin"),
                              detail="level loop iterates %s when default-include=%s" % (sorted(pl), mode[-1]),
                              construct="level-table:%s" % mode[-1], path=p)
        if p.end == "return":
            r = _last_return(p)
            rv = _value_at(p, r.value) if r.value is not None else None
            if isinstance(rv, ast.Call) and res.call_canon(rv) == IET + ".IncludeExcludeTree":
                n_ret += 1
                cls_init = ctx.tree.func(IET, "IncludeExcludeTree.__init__")
                cf = [x for x in A.func_params(cls_init) if x != "self"]
                bound = {}
                for j, a in enumerate(rv.args):
                    bound[cf[j]] = a
                for k in rv.keywords:
                    bound[k.arg] = k.value
                ctx.check("C15-f", bound.get("include") is not None and A.src(bound["include"]) == dflt, r,
                          "the tree is created with include=%s, not with the default it was asked for"
                          % (A.src(bound["include"]) if bound.get("include") is not None else None),
                          detail="tree(include=is_default_include)", construct="tree-include", path=p)
    ctx.instances_floor("C15-f/rec", n_calls, 2, "recursive constructions on the enumerated paths")
    ctx.instances_floor("C15-f/ret", n_ret, 2, "returns of the constructed tree")
    # IncludeExcludeTree.__init__ keeps what it is given
    cls_init = ctx.tree.func(IET, "IncludeExcludeTree.__init__")
    for attr, par in (("keys", "keys"), ("subtrees", "subtrees"), ("include", "include")):
        st = [s for s in A.walk_local(cls_init) if isinstance(s, ast.Assign) and any(A.is_self_attr(t, attr) for t in s.targets)]
        ok = len(st) == 1 and A.src(st[0].value) in (par, "bool(%s)" % par)
        ctx.check("C15-f", ok, cls_init, "IncludeExcludeTree.%s is not the constructor's %s" % (attr, par),
                  detail="IncludeExcludeTree keeps %s" % attr, construct="tree-field:" + attr)
    # the nesting check
    raises = [r for r in A.walk_local(mk) if isinstance(r, ast.Raise)]
    ok = any(res.canon(r.exc.func if isinstance(r.exc, ast.Call) else r.exc) == EXC + "LenaValueError" for r in raises if r.exc is not None)
    ctx.check("C15-f", ok, mk, "improperly nested include/exclude keys are no longer rejected with LenaValueError",
              detail="improper nesting -> LenaValueError", construct="nesting-check")
    # root
    root = ctx.tree.func(IET, "make_include_exclude_tree")
    n_root = 0
    for p in P.paths_of(root):
        for i, c in p.calls():
            if res.call_canon(c) == IET + "._make_include_exclude_tree":
                n_root += 1
                env = _walk_prov(p, res, "includes", "excludes", upto=i + 1)
                bound = {}
                for j, a in enumerate(c.args):
                    bound[formal[j]] = a
                for k in c.keywords:
                    bound[k.arg] = k.value
                pi = _prov(bound.get("includes"), env, res) if bound.get("includes") is not None else frozenset()
                pe = _prov(bound.get("excludes"), env, res) if bound.get("excludes") is not None else frozenset()
                ctx.check("C15-f", pi == {"INC"} and pe == {"EXC"}, c, "the root tree is built with includes derived from %s and excludes "
                          "derived from %s" % (sorted(pi) or "nothing", sorted(pe) or "nothing"),
                          detail="root construction keeps includes/excludes apart", construct="root-provenance", path=p)
                d = bound.get(dflt)
                dv = _deref(p, d) if d is not None else None
                ok = isinstance(dv, ast.Compare) and len(dv.ops) == 1 and isinstance(dv.ops[0], ast.In) \
                    and A.is_const(dv.left, "") and _prov(dv.comparators[0], env, res) == {"INC"}
                ctx.check("C15-f", ok, c, "the root default is `%s`, not `'' in includes`" % (A.src(dv) if dv is not None else None),
                          detail="root includes by default iff '' is in includes", construct="root-default", path=p)
                # split keys
                for nm in ("includes", "excludes"):
                    b = _deref(p, bound.get(nm))
                    ok = isinstance(b, (ast.ListComp, ast.GeneratorExp)) and isinstance(b.elt, ast.Call) \
                        and res.call_canon(b.elt) == IET + "._split_key" and len(b.generators) == 1 \
                        and A.src(b.elt.args[0]) == A.src(b.generators[0].target) \
                        and len(b.generators[0].ifs) == 1 and A.same(b.generators[0].ifs[0], "%s != ''" % A.src(b.generators[0].target))
                    ctx.check("C15-f", ok, c, "the root %s are not `[_split_key(key) for key in %s if key != '']`" % (nm, nm),
                              detail="root %s: every non-root key, split" % nm, construct="root-split:" + nm, path=p)
    ctx.instances_floor("C15-f/root", n_root, 1, "root constructions")
    # a raise of LenaValueError whose innermost deciding condition is `<count> != 1` (however the test is spelled:
    # `1 != <count>`, or the other arm of `<count> == 1`)
    ok = False
    for p in P.paths_of(root):
        if p.end != "raise":
            continue
        r = [s for s in p.stmts() if isinstance(s, ast.Raise)][-1]
        if r.exc is None or res.canon(r.exc.func if isinstance(r.exc, ast.Call) else r.exc) != EXC + "LenaValueError":
            continue
        conds = [e for e in p.ev[:p.index(r)] if e[0] == "cond"]
        if not conds:
            continue
        lits = A.literals(conds[-1][1], conds[-1][2])
        if len(lits) != 1:
            continue
        t, pol = lits[0]
        t = _canon(t)
        if isinstance(t, ast.Compare) and len(t.ops) == 1 and A.is_const(t.comparators[0], 1) \
                and isinstance(t.ops[0], ast.NotEq if pol else ast.Eq):
            ok = True
    ctx.check("C15-f", ok, root, "a root ('') listed in both or neither of includes/excludes is no longer rejected with LenaValueError",
              detail="root in exactly one set, else LenaValueError", construct="root-check")
    # _group_by_starting_prefixes: head / tail split
    g = ctx.tree.func(IET, "_group_by_starting_prefixes")
    apps = [c for c in A.walk_local(g) if isinstance(c, ast.Call) and isinstance(c.func, ast.Attribute) and c.func.attr == "append"]
    ok = len(apps) == 1 and isinstance(apps[0].func.value, ast.Subscript) and A.src(apps[0].func.value.slice).endswith("[0]") \
        and A.src(apps[0].args[0]).endswith("[1:]") and A.root_name(apps[0].func.value.slice) == A.root_name(apps[0].args[0])
    ctx.check("C15-f", ok, g, "_group_by_starting_prefixes does not file the tail key[1:] under the head key[0]",
              detail="keys grouped as head -> tails", construct="group-head-tail")


def _tests_empty_tail(test, outcome):
    """Does the branch (test, outcome) assert 'some tail is empty'?  True / False / None (not recognised)."""
    t, pol = A.strip_not(test)
    outcome = outcome if pol else (not outcome)
    t = _canon(t)       # a constant operand on the right: `0 == min(...)` reads `min(...) == 0`
    s = A.src(t)
    # min(len(x) for x in tails) == 0
    if isinstance(t, ast.Compare) and len(t.ops) == 1 and isinstance(t.left, ast.Call) and A.call_name(t.left) == "min" \
            and A.is_const(t.comparators[0], 0) and "len(" in s:
        if isinstance(t.ops[0], (ast.Eq, ast.LtE)):
            return outcome
        if isinstance(t.ops[0], (ast.NotEq, ast.Gt)):
            return not outcome
    # [] in tails / any(not x for x in tails)
    if isinstance(t, ast.Compare) and len(t.ops) == 1 and isinstance(t.ops[0], (ast.In, ast.NotIn)) and A.src(t.left) in ("[]", "()"):
        return outcome if isinstance(t.ops[0], ast.In) else (not outcome)
    if isinstance(t, ast.Call) and A.call_name(t) == "any" and len(t.args) == 1 and isinstance(t.args[0], (ast.GeneratorExp, ast.ListComp)):
        e = t.args[0].elt
        if isinstance(e, ast.UnaryOp) and isinstance(e.op, ast.Not) and A.src(e.operand) == A.src(t.args[0].generators[0].target):
            return outcome
    return None


def check_subclass_typestate(ctx):
    """Or/And/Selector accept ready Selector objects as items and call repr() on them while they are built; Not and
    Selector wrap any callable.  A subclass of Selector that does not run the base constructor must therefore itself bind
    whatever the methods it inherits read through self."""
    res = ctx.res
    base = res.class_target(SEL, "Selector")
    bms = methods(base.node)
    n = 0
    for mod, cls in ctx.tree.classes():
        if mod.name != SEL or cls is base.node:
            continue
        t = res.class_target(SEL, cls.name)
        if not any(c.name == SEL + ".Selector" for c in res.mro(t)[1:]):
            continue
        n += 1
        ms = methods(cls)
        init = ms.get("__init__")
        if init is None:
            ctx.ok("C15-g", cls, "%s inherits Selector.__init__" % cls.name)
            continue
        calls_super = any(isinstance(c, ast.Call) and isinstance(c.func, ast.Attribute) and c.func.attr == "__init__"
                          and isinstance(c.func.value, ast.Call) and A.call_name(c.func.value) == "super" for c in A.walk_local(init))
        if calls_super:
            # Selector.__init__ dispatches on the *type* of its argument (a class becomes an isinstance test, a list an Or ...);
            # a subclass whose argument is a predicate to be *called* must not hand it to that dispatch
            sup = [c for c in A.walk_local(init) if isinstance(c, ast.Call) and isinstance(c.func, ast.Attribute) and c.func.attr == "__init__"
                   and isinstance(c.func.value, ast.Call) and A.call_name(c.func.value) == "super"]
            callables = {A.src(t.args[0]) for t in A.walk_local(init) if isinstance(t, ast.Call) and A.call_name(t) == "callable" and len(t.args) == 1}
            handed = [a for c in sup for a in c.args if isinstance(a, ast.Name) and a.id in callables and a.id in A.func_params(init)]
            if handed:
                ctx.violation("C15-g", sup[0], "%s.__init__ hands its predicate `%s` (required to be callable, and called with the "
                              "sub-context) to Selector.__init__, which interprets its argument by type: a predicate that is a class -- "
                              "bool, int, dict -- turns into an isinstance test of the sub-context instead of being called, so "
                              "%s(key, bool) selects other values than the predicate says" % (cls.name, handed[0].id, cls.name),
                              construct="predicate-to-type-dispatch:%s" % cls.name)
                continue
            ctx.ok("C15-g", init, "%s.__init__ runs the base constructor" % cls.name)
            continue
        bound = {tg.attr for st in A.walk_local(init) for tg in A.assigned_targets(st) if isinstance(st, (ast.Assign, ast.AugAssign))
                 and A.is_self_attr(tg)}
        missing = {}
        for name, fn in bms.items():
            if name in ms or name == "__init__":
                continue
            # what an inherited method assigns itself (on entry, unconditionally) it does not need from the constructor
            own = {tg.attr for st in fn.body if isinstance(st, ast.Assign) for tg in st.targets if A.is_self_attr(tg)}
            for x in A.walk_local(fn):
                if isinstance(x, ast.Attribute) and A.is_self_attr(x) and x.attr in own:
                    continue
                if isinstance(x, ast.Attribute) and isinstance(x.ctx, ast.Load) and A.is_self_attr(x) and x.attr not in bound \
                        and x.attr not in bms and x.attr not in ms:
                    missing.setdefault(name, set()).add(x.attr)
        ctx.check("C15-g", not missing, init, "%s.__init__ does not run Selector.__init__ and leaves unbound what the inherited %s read: "
                  "%s -- repr() of such a selector, comparing it, and building Not(...), Selector([...]) or Selector((...)) around it "
                  "(they call repr on their items) raise AttributeError" % (
                      cls.name, ", ".join("Selector.%s" % m2 for m2 in sorted(missing)),
                      "; ".join("%s: %s" % (m2, ", ".join(sorted(a))) for m2, a in sorted(missing.items()))),
                  detail="%s binds what its inherited methods read" % cls.name, construct="subclass-unbound:%s" % cls.name)
    ctx.instances_floor("C15-g", n, 4, "subclasses of Selector")


def check(ctx):
    ctx.instances_floor("C15-a/isinstance", K.check_isinstance_dispatch(ctx, "C15-a", ["lena.flow.selectors", "lena.flow.filter", "lena.flow.group_by", "lena.context.include_exclude_tree"], "a subclass of Selector, str, list or tuple in a specification"), 8, "isinstance tests in the selector modules")
    check_subclass_typestate(ctx)
    check_dispatch(ctx)
    check_containment(ctx)
    check_filter(ctx)
    check_iet_get(ctx)
    check_group_by(ctx)
    check_order_free(ctx)
    check_provenance(ctx)


SELF = "lena/flow/selectors.py"
IETF = "lena/context/include_exclude_tree.py"
GBF = "lena/flow/group_by.py"
FLT = "lena/flow/filter.py"
VARIANTS = [
    M("and-loop-wrong-neutral", "lena/flow/selectors.py", "        return all((f(val) for f in self._selectors))", "        selected = False\n        for sel in self._selectors:\n            selected = bool(sel(val))\n            if not selected:\n                break\n        return selected", ["C15-a"]),
    TW("and-loop-right-neutral", "lena/flow/selectors.py", "        return all((f(val) for f in self._selectors))", "        selected = True\n        for sel in self._selectors:\n            selected = bool(sel(val))\n            if not selected:\n                break\n        return selected"),
    TW("or-loop-right-neutral", "lena/flow/selectors.py", "        return any((f(val) for f in self._selectors))", "        for sel in self._selectors:\n            if sel(val):\n                return True\n        return False"),
    M("selector-exact-list", "lena/flow/selectors.py", "        elif isinstance(selector, list):", "        elif type(selector) is list:", ["C15-a"]),
    M("selectcontext-inherits-repr", SELF, "    def __repr__(self):\n        try:\n            predicate_repr = self._predicate.__name__", "    def _repr_unused(self):\n        try:\n            predicate_repr = self._predicate.__name__", ["C15-g"]),
    M("lookup-scalar-typeerror", "lena/context/functions.py", "        elif has_default:\n            return default\n        else:\n            raise LenaKeyError(\n                \"nested dict {} not found in {}\".format(key, d)", "        elif has_default:\n            return default\n        elif key in d:\n            raise LenaTypeError(\n                \"need a dictionary, {} provided\".format(d[key])\n            )\n        else:\n            raise LenaKeyError(\n                \"nested dict {} not found in {}\".format(key, d)", ["C15-b"]),
    # dispatch
    M("callable-before-class", SELF, "        if inspect.isclass(selector):\n            self._selector = lambda val: isinstance(\n                lena.flow.get_data(val), selector\n            )\n            try:\n                self._selector_repr = selector.__name__\n            except AttributeError:\n                # todo: add a test where that can happen.\n                pass\n            self._orig_class = selector\n        elif callable(selector):",
      "        if callable(selector) and not isinstance(selector, type):\n            self._selector = selector\n            self._from_callable = True\n        elif inspect.isclass(selector):\n            self._selector = lambda val: isinstance(\n                lena.flow.get_data(val), selector\n            )\n            self._orig_class = selector\n        elif callable(selector):", ["C15-a"]),
    M("class-tests-value", SELF, "            self._selector = lambda val: isinstance(\n                lena.flow.get_data(val), selector\n            )", "            self._selector = lambda val: isinstance(\n                val, selector\n            )", ["C15-a"]),
    M("str-tests-data", SELF, "            self._selector = lambda val: lena.context.contains(\n                lena.flow.get_context(val), selector\n            )", "            self._selector = lambda val: lena.context.contains(\n                lena.flow.get_data(val), selector\n            )", ["C15-a"]),
    M("list-is-and", SELF, "                self._selector = Or(selector, raise_on_error)", "                self._selector = And(selector, raise_on_error)", ["C15-a"]),
    M("tuple-drops-roe", SELF, "                self._selector = And(selector, raise_on_error)", "                self._selector = And(selector)", ["C15-a"]),
    M("or-uses-all", SELF, "        return any((f(val) for f in self._selectors))", "        return all((f(val) for f in self._selectors))", ["C15-a"]),
    M("and-skips-first", SELF, "        return all((f(val) for f in self._selectors))", "        return all((f(val) for f in self._selectors[1:]))", ["C15-a"]),
    M("and-item-default-roe", SELF, "                self._selectors.append(\n                    Selector(sel, raise_on_error=raise_on_error)\n                )\n        super(And, self)", "                self._selectors.append(\n                    Selector(sel)\n                )\n        super(And, self)", ["C15-a"]),
    M("or-reconverts-selectors", SELF, "            if isinstance(sel, Selector):\n                self._selectors.append(sel)\n            else:\n                # may raise\n                self._selectors.append(\n                    Selector(sel, raise_on_error=raise_on_error)\n                )\n        # Or will be", "            if isinstance(sel, Selector):\n                self._selectors.insert(0, sel)\n            else:\n                # may raise\n                self._selectors.append(\n                    Selector(sel, raise_on_error=raise_on_error)\n                )\n        # Or will be", ["C15-a"]),
    M("not-does-not-negate", SELF, "        return not super(Not, self).__call__(value)", "        return super(Not, self).__call__(value)", ["C15-a"]),
    M("init-typeerror", SELF, "            raise lena.core.LenaTypeError(\n                \"Selector must be initialized from a callable, \"", "            raise TypeError(\n                \"Selector must be initialized from a callable, \"", ["C15-a"]),
    M("init-accepts-anything", SELF, "        else:\n            raise lena.core.LenaTypeError(\n                \"Selector must be initialized from a callable, \"\n                \"list, tuple or string; {} provided\".format(selector)\n            )\n        self._raise_on_error", "        else:\n            pass\n        self._raise_on_error", ["C15-a"]),
    # containment
    M("call-uncontained", SELF, "        try:\n            sel = self._selector(value)\n        except Exception as err:  # pylint: disable=broad-except\n            # it can be really any exception: AttributeError, etc.\n            if self._raise_on_error:\n                raise err\n            return False\n        else:\n            return sel", "        if self._raise_on_error:\n            return self._selector(value)\n        try:\n            sel = self._selector(value)\n        except LookupError:\n            return False\n        else:\n            return sel", ["C15-b"]),
    M("handler-returns-none", SELF, "            if self._raise_on_error:\n                raise err\n            return False\n        else:\n            return sel", "            if self._raise_on_error:\n                raise err\n            return None\n        else:\n            return sel", ["C15-b"]),
    M("handler-always-false", SELF, "            if self._raise_on_error:\n                raise err\n            return False\n        else:\n            return sel", "            return False\n        else:\n            return sel", ["C15-b"]),
    M("handler-inverted", SELF, "            if self._raise_on_error:\n                raise err\n            return False\n        else:\n            return res", "            if not self._raise_on_error:\n                raise err\n            return False\n        else:\n            return res", ["C15-b"]),
    M("narrow-catch", SELF, "        except Exception as err:  # pylint: disable=broad-except\n            # it can be really any exception: AttributeError, etc.", "        except (AttributeError, KeyError) as err:\n            # it can be really any exception: AttributeError, etc.", ["C15-b"]),
    M("selectcontext-default", SELF, "            subcontext = get_recursively(context, self._key)", "            subcontext = get_recursively(context, self._key, None)", ["C15-b"]),
    M("selectcontext-absent-true", SELF, "            # A general context check would be more detailed.\n            return False", "            # A general context check would be more detailed.\n            return not self._raise_on_error", ["C15-b"]),
    M("selectcontext-whole-context", SELF, "            res = self._predicate(subcontext)", "            res = self._predicate(context)", ["C15-b"]),
    M("selectcontext-roe-const", SELF, "        self._predicate = predicate\n        self._raise_on_error = bool(raise_on_error)", "        self._predicate = predicate\n        self._raise_on_error = True", ["C15-b"]),
    M("selectcontext-catches-valueerror", SELF, "        except lena.core.LenaKeyError:\n            # we don't specify", "        except lena.core.LenaValueError:\n            # we don't specify", ["C15-b"]),
    # filter
    M("filter-negated-run", FLT, "        return (val for val in flow if self._selector(val))", "        return (val for val in flow if not self._selector(val))", ["C15-c"]),
    M("filter-run-copy", FLT, "        return (val for val in flow if self._selector(val))", "        return ((val[0], val[1]) for val in flow if self._selector(val))", ["C15-c"]),
    M("filter-keeps-raw", FLT, "        if not isinstance(selector, Selector):\n            selector = Selector(selector)", "        if not isinstance(selector, Selector) and not callable(selector):\n            selector = Selector(selector)", ["C15-c"]),
    M("filter-roe-false", FLT, "            selector = Selector(selector)", "            selector = Selector(selector, raise_on_error=False)", ["C15-c"]),
    # tree get
    M("get-unguarded-recursion", IETF, "                elif key in self.subtrees:\n                    if isinstance(value, dict):\n                        # otherwise it won't be selected anyway\n                        result[key] = self.subtrees[key].get(value)", "                elif key in self.subtrees:\n                    result[key] = self.subtrees[key].get(value)", ["C15-d"]),
    M("get-nondict-kept", IETF, "                    if isinstance(value, dict):\n                        # otherwise it won't be selected\n                        result[key] = self.subtrees[key].get(value)", "                    if isinstance(value, dict):\n                        # otherwise it won't be selected\n                        result[key] = self.subtrees[key].get(value)\n                    else:\n                        result[key] = value", ["C15-d"]),
    M("get-excluded-kept", IETF, "                if key in exclude:\n                    continue", "                if key in exclude:\n                    result[key] = value", ["C15-d"]),
    M("get-default-dropped", IETF, "                        result[key] = self.subtrees[key].get(value)\n                else:\n                    result[key] = value", "                        result[key] = self.subtrees[key].get(value)\n                else:\n                    continue", ["C15-d"]),
    M("get-other-included", IETF, "                else:\n                    continue\n\n        return result", "                else:\n                    result[key] = value\n\n        return result", ["C15-d"]),
    M("get-subtree-value", IETF, "                        # otherwise it won't be selected\n                        result[key] = self.subtrees[key].get(value)", "                        # otherwise it won't be selected\n                        result[key] = value", ["C15-d"]),
    # group by
    M("groupby-overwrites", GBF, "        if key in self.groups:\n            self.groups[key].append(val)\n        else:\n            self.groups[key] = [val]", "        self.groups[key] = [val]", ["C15-d"]),
    M("groupby-prepends", GBF, "            self.groups[key].append(val)", "            self.groups[key].insert(0, val)", ["C15-d"]),
    M("groupby-whole-context-key", GBF, "        key_dict = self._iet.get(context)", "        key_dict = context", ["C15-d"]),
    M("groupby-swapped", GBF, "                includes=group_by, excludes=merge", "                includes=merge, excludes=group_by", ["C15-d"]),
    M("groupby-data-only", GBF, "            self.groups[key] = [val]", "            self.groups[key] = [val[0]]", ["C15-d"]),
    M("groupby-typeerror", GBF, "            raise LenaValueError(\n                \"could not format context.", "            raise ValueError(\n                \"could not format context.", ["C15-d"]),
    # order-free and provenance
    M("first-tail-only", IETF, "            if min(len(subkey) for subkey in tails) == 0:", "            if not tails[0]:", ["C15-e"]),
    M("last-tail-only", IETF, "            if min(len(subkey) for subkey in tails) == 0:", "            if len(tails[-1]) == 0:", ["C15-e"]),
    M("rec-crossed", IETF, "            includes = [sk for sk in pref_incs.get(key, []) if sk]\n            excludes = [sk for sk in pref_excs.get(key, []) if sk]", "            includes = [sk for sk in pref_excs.get(key, []) if sk]\n            excludes = [sk for sk in pref_incs.get(key, []) if sk]", ["C15-f"]),
    M("rec-never-flips", IETF, "                new_incl = (not is_default_include)\n            else:", "                new_incl = is_default_include\n            else:", ["C15-f"]),
    M("rec-always-flips", IETF, "                new_incl = is_default_include\n", "                new_incl = not is_default_include\n", ["C15-f"]),
    M("tree-include-inverted", IETF, "        keys=proper_keys, subtrees=subtrees, include=is_default_include\n", "        keys=proper_keys, subtrees=subtrees, include=not is_default_include\n", ["C15-f"]),
    M("level-table-swapped", IETF, "    if is_default_include:\n        subkeys = pref_excs\n        subsubs = pref_incs\n    else:\n        subkeys = pref_incs\n        subsubs = pref_excs", "    if is_default_include:\n        subkeys = pref_incs\n        subsubs = pref_excs\n    else:\n        subkeys = pref_excs\n        subsubs = pref_incs", ["C15-f"]),
    M("root-default-from-excludes", IETF, "    is_default_include = \"\" in includes\n", "    is_default_include = \"\" not in excludes\n", ["C15-f"]),
    M("root-check-dropped", IETF, "    if is_default_include + (\"\" in excludes) != 1:", "    if is_default_include + (\"\" in excludes) > 2:", ["C15-f"]),
    M("root-crossed", IETF, "        includes=sincs, excludes=sexcs, is_default_include=is_default_include", "        includes=sexcs, excludes=sincs, is_default_include=is_default_include", ["C15-f"]),
    M("tree-ignores-include", IETF, "        self.include = bool(include)", "        self.include = True", ["C15-f"]),
    # twins
    TW("call-return-in-try", SELF, "        try:\n            sel = self._selector(value)\n        except Exception as err:  # pylint: disable=broad-except\n            # it can be really any exception: AttributeError, etc.\n            if self._raise_on_error:\n                raise err\n            return False\n        else:\n            return sel", "        try:\n            return self._selector(value)\n        except Exception:\n            if not self._raise_on_error:\n                return False\n            raise"),
    M("or-eager-list", SELF, "        return any((f(val) for f in self._selectors))", "        return any([sel(val) for sel in self._selectors])", ["C15-a"]),
    M("or-eager-results", SELF, "        return any((f(val) for f in self._selectors))", "        results = [f(val) for f in self._selectors]\n        return any(results)", ["C15-a"]),
    TW("flip-any", IETF, "            if min(len(subkey) for subkey in tails) == 0:", "            if [] in tails:"),
    TW("get-exclude-direct", IETF, "            exclude = self.keys\n            for key, value in context.items():\n                if key in exclude:", "            for key, value in context.items():\n                if key in self.keys:"),
    TW("groupby-not-in", GBF, "        if key in self.groups:\n            self.groups[key].append(val)\n        else:\n            self.groups[key] = [val]", "        if key not in self.groups:\n            self.groups[key] = [val]\n        else:\n            self.groups[key].append(val)"),
    TW("groupby-positional", GBF, "                includes=group_by, excludes=merge", "                group_by, merge"),
    TW("filter-run-loop", FLT, "        return (val for val in flow if self._selector(val))", "        for val in flow:\n            if self._selector(val):\n                yield val"),
    TW("rename-roe-local", SELF, "            if isinstance(sel, Selector):\n                self._selectors.append(sel)\n            else:\n                # may raise\n                self._selectors.append(\n                    Selector(sel, raise_on_error=raise_on_error)\n                )\n        super(And, self)", "            if isinstance(sel, Selector):\n                self._selectors.append(sel)\n                continue\n            self._selectors.append(Selector(sel, raise_on_error))\n        super(And, self)"),
]
