"""C16 -- FillRequest processes the flow in consecutive blocks, however it is driven."""
import ast

from .. import astutil as A
from .. import paths as P
from ..lazy import FlowAnalyser
from ..loader import methods
from ..selftest.runner import M, TW, V
from . import common as K

PROPERTY = "C16"
EXPLANATION = (
    "Decides the termination and accounting shape of FillRequest's block processing.  "
    "(a) SELF-FEED: no statement of a class drains a generator method of the same object into a container that this "
    "generator iterates (the drain then never ends) -- all classes of lena/core are enumerated.  "
    "(b) DRAIN/CLEAR: a buffer whose items request() yields is emptied on the same path, and every item of the input buffer "
    "that request() fills into the element is deleted from the buffer before the loop over the buffer is left (two "
    "iterations of the buffer loop are unfolded), otherwise results are repeated / values filled twice.  "
    "(c) BOUNDED BLOCKS: in _run_fill_compute and _run_run every consumption of the flow is through islice(flow, <bufsize>) -- "
    "or one next(flow) followed by islice(flow, <bufsize> - 1) in the same iteration -- with <bufsize> the validated attribute; "
    "nothing else reads the flow, so at most one block is held.  "
    "(d) ONE FILL PER VALUE: every value pulled in the block loops is passed to the element's fill exactly once on every path; "
    "FillRequest.fill either fills the element and counts the fill, or stores the value in the input buffer -- exactly one of "
    "them on every path.  "
    "(e) NO PARTIAL BLOCK OUTPUT: every yield in a block loop lies on a path that has passed the completeness test of the "
    "block (len(block) < bufsize / count < bufsize / nfills % bufsize refuted) or the test of _yield_on_remainder; an empty "
    "flow leaves every run variant without a yield.  "
    "(f) RESET BETWEEN BLOCKS: on every path that yields a complete block's results and goes on to the next block, the "
    "element's reset is called after the results when _reset is set and not called when it is not; in request() the "
    "fill counter is reduced on the path that requested the element.  "
    "(g) CONSTRUCTION/WIRING: bufsize is validated (integral, >= 1, else LenaValueError) before it is stored, on every normal "
    "exit; exactly one buffer is created for an element with fill; the buffering mode check raises LenaValueError; "
    "FillRequestSeq runs through FillRequest(self, **kwargs).run and its request() post-processes "
    "self._fill_request.request() with self._after.  "
    "FillRequest.fill increments its counter only after the element's fill returned (a refused value is not counted), and "
    "flow_to_iter -- on whose one-shot iterator the block-wise islice/next consumption rests -- returns its argument unchanged only "
    "where it has a next method; both run drivers make their flow an iterator (flow = iter(flow)) before the block loop, because "
    "piecewise consumption of a re-iterable starts every piece at its beginning.  "
    "Does not decide the equality of concatenated request() results with run (counter arithmetic over histories), nor "
    "wall-clock bounds."    " Added after the eighth round of seeded changes and the second round of behaviour-preserving changes: The first target of enumerate(x, 1) is read as a fill counter."
)
RULES = {
    "C16-i": "ITERATOR: the Run element of FillRequest is run on iter(buffer)/chain/a wrapper, never on the buffer list itself",
    "C16-h": "FORWARD: reset() of FillRequest / FillRequestSeq resets the wrapped element on every path, unconditionally",
    "C16-a": "SELF-FEED: no drain of a generator method into a container that this generator iterates",
    "C16-b": "PAIR drain=>clear: yielded buffers are emptied; buffer items filled into the element are removed from the buffer",
    "C16-c": "LAZY/bounded: the flow is consumed only through islice(flow, bufsize) (or next + islice(bufsize-1))",
    "C16-d": "ONCE: every pulled value is filled once; FillRequest.fill fills-and-counts or buffers, exactly one",
    "C16-e": "GUARD: block results are yielded only past the completeness test or under _yield_on_remainder; empty flow yields nothing",
    "C16-f": "PAIR: reset after a complete block iff _reset; counter reduced when the element was requested",
    "C16-g": "TYPESTATE/wiring: bufsize validated before it is stored; one buffer; FillRequestSeq wiring",
}
ADP = "lena.core.adapters"
FRS = "lena.core.fill_request_seq"
EXC = "lena.core.exceptions."
EMPTYING = ("clear",)


# -- C16-a -----------------------------------------------------------------------------------
def _iterated_fields(fn):
    """self.<field> names iterated (for ... in self.X / in an alias of it) inside generator method fn."""
    out = set()
    alias = {}
    for n in A.walk_local(fn):
        if isinstance(n, ast.Assign) and isinstance(n.value, ast.Attribute) and A.is_self_attr(n.value):
            for t in n.targets:
                if isinstance(t, ast.Name):
                    alias[t.id] = n.value.attr
    for n in A.walk_local(fn):
        it = None
        if isinstance(n, (ast.For, ast.comprehension)):
            it = n.iter
        elif isinstance(n, ast.YieldFrom):
            it = n.value
        if it is None:
            continue
        if isinstance(it, ast.Call) and A.call_name(it) in ("iter", "reversed", "enumerate") and it.args:
            it = it.args[0]
        if A.is_self_attr(it):
            out.add(it.attr)
        elif isinstance(it, ast.Name) and it.id in alias:
            out.add(alias[it.id])
    return out


def check_self_feed(ctx):
    n_cls = 0
    n_drains = 0
    for mod, cls in ctx.tree.classes():
        if not mod.name.startswith("lena."):
            continue
        ms = methods(cls)
        gens = {name: _iterated_fields(fn) for name, fn in ms.items() if A.is_generator(fn)}
        if not gens:
            continue
        n_cls += 1
        for name, fn in ms.items():
            for c in A.walk_local(fn):
                # X.extend(self.g()) / X += self.g() / X.extend(list(self.g()))
                recv = arg = None
                if isinstance(c, ast.Call) and isinstance(c.func, ast.Attribute) and c.func.attr in ("extend", "extendleft", "update") and c.args:
                    recv, arg = c.func.value, c.args[0]
                elif isinstance(c, (ast.AugAssign, ast.Assign)) and A.as_augassign(c) is not None \
                        and isinstance(A.as_augassign(c)[1], ast.Add):
                    # X += self.g()  /  X = X + self.g()
                    recv, _, arg = A.as_augassign(c)
                elif isinstance(c, ast.For) and isinstance(c.iter, ast.Call):
                    # for v in self.g(): X.append(v)
                    apps = [a for a in A.walk_body(c.body) if isinstance(a, ast.Call) and isinstance(a.func, ast.Attribute)
                            and a.func.attr in ("append", "appendleft", "add", "insert")]
                    if apps:
                        recv, arg = apps[0].func.value, c.iter
                if recv is None or not A.is_self_attr(recv):
                    continue
                inner = arg
                lazy = True
                while isinstance(inner, ast.Call) and A.call_name(inner) in ("iter", "list", "tuple", "chain", "islice") and inner.args:
                    if A.call_name(inner) in ("list", "tuple"):
                        lazy = False    # materialised before the container is touched: terminates (if the generator does)
                    inner = inner.args[0]
                if not (isinstance(inner, ast.Call) and isinstance(inner.func, ast.Attribute) and A.is_self_attr(inner.func)
                        and inner.func.attr in gens):
                    continue
                n_drains += 1
                g = inner.func.attr
                feeds = recv.attr in gens[g]
                ctx.check("C16-a", not (feeds and lazy), c, "%s.%s drains the generator self.%s() into self.%s while %s iterates "
                          "self.%s: every item appended is yielded again and appended again -- the call never returns (and the "
                          "buffer grows without bound)" % (cls.name, name, g, recv.attr, g, recv.attr),
                          detail="%s.%s drains self.%s() into self.%s, which %s does not iterate" % (cls.name, name, g, recv.attr, g),
                          construct="self-feed:%s<-%s()" % (recv.attr, g))
    ctx.instances_floor("C16-a/classes", n_cls, 10, "classes with generator methods examined for self-feeding drains")
    ctx.instances_floor("C16-a", n_drains, 1, "drains of an own generator method into an own container")


# -- C16-b -----------------------------------------------------------------------------------
def _buffer_fields(ctx, cls):
    """Fields of FillRequest that fill() grows: the buffers."""
    fill = methods(cls)["fill"]
    out = set()
    for c in A.walk_local(fill):
        if isinstance(c, ast.Call) and isinstance(c.func, ast.Attribute) and c.func.attr in ("append", "extend") \
                and A.is_self_attr(c.func.value):
            out.add(c.func.value.attr)
    return out


def _aliases_of_fields(fn):
    alias = {}
    for n in A.walk_local(fn):
        if isinstance(n, ast.Assign) and A.is_self_attr(n.value):
            for t in n.targets:
                if isinstance(t, ast.Name):
                    alias[t.id] = n.value.attr
    return alias


def _field_of(expr, alias):
    if A.is_self_attr(expr):
        return expr.attr
    if isinstance(expr, ast.Name):
        return alias.get(expr.id)
    return None


def _empties(node, field, alias):
    """Does statement/expression *node* remove items from the buffer *field*?"""
    for n in ast.walk(node):
        if isinstance(n, ast.Delete):
            for t in n.targets:
                if isinstance(t, ast.Subscript) and _field_of(t.value, alias) == field:
                    return True
        if isinstance(n, ast.Call) and isinstance(n.func, ast.Attribute) and n.func.attr in ("clear", "pop", "popleft") \
                and _field_of(n.func.value, alias) == field:
            return True
        if isinstance(n, ast.Assign):
            aug = A.as_augassign(n)
            if aug is not None and isinstance(aug[1], ast.Add):
                continue    # `buf = buf + more` is the spelled-out `buf += more`: it grows the buffer
            for t in n.targets:
                if A.is_self_attr(t, field):
                    return True
                if isinstance(t, ast.Subscript) and isinstance(t.slice, ast.Slice) and _field_of(t.value, alias) == field:
                    return True
    return False


def check_drain_clear(ctx):
    cls = ctx.tree.cls(ADP, "FillRequest")
    req = ctx.tree.func(ADP, "FillRequest.request")
    bufs = _buffer_fields(ctx, cls)
    ctx.instances_floor("C16-b/buffers", len(bufs), 2, "buffers grown by FillRequest.fill")
    alias = _aliases_of_fields(req)
    # (i) a buffer that is yielded item by item is emptied afterwards on the same path
    yield_loops = {}
    for l in A.walk_local(req):
        if isinstance(l, ast.For):
            f = _field_of(l.iter, alias)
            if f in bufs and any(isinstance(y, ast.Yield) for y in A.walk_body(l.body)):
                yield_loops[l] = f
    # (ii) items of a buffer filled into the element
    fills = []
    for c in A.walk_local(req):
        if isinstance(c, ast.Call) and A.src(c.func) == "self._el_fill" and len(c.args) == 1:
            a = c.args[0]
            src_field = None
            if isinstance(a, ast.Subscript):
                src_field = _field_of(a.value, alias)
            elif isinstance(a, ast.Name):
                # val = buffer_in[nfills]  /  for val in buffer_in
                for s in A.walk_local(req):
                    if isinstance(s, ast.Assign) and any(isinstance(t, ast.Name) and t.id == a.id for t in s.targets) \
                            and isinstance(s.value, ast.Subscript) and _field_of(s.value.value, alias) in bufs:
                        src_field = _field_of(s.value.value, alias)
                    if isinstance(s, ast.For) and isinstance(s.target, ast.Name) and s.target.id == a.id \
                            and _field_of(s.iter, alias) in bufs and c in list(A.walk_body(s.body)):
                        src_field = _field_of(s.iter, alias)
            if src_field in bufs:
                fills.append((c, src_field))
    ctx.instances_floor("C16-b/yielded", len(yield_loops), 1, "loops of request() that yield the items of a buffer")
    ctx.instances_floor("C16-b/refilled", len(fills), 1, "fills of buffered items into the element in request()")
    seen = set()
    n_paths = 0
    for p in P.paths_of(req, unroll=2):
        if p.end == "loop":
            # (iii) a block taken from the input buffer and requested inside the buffer loop is deleted from the buffer
            for c, f in fills:
                idx = [i for i, cc in p.calls() if cc is c]
                wl = A.enclosing(c, ast.While)
                if not idx or wl is None:
                    continue
                rq = [i for i, e in enumerate(p.ev) if i > idx[0] and e[0] in ("iter", "loop0") and isinstance(e[1], ast.For)
                      and A.src(e[1].iter) == "self._el_request()" and wl in list(A.ancestors(e[1]))]
                if not rq:
                    continue
                later = [e for e in p.ev[rq[0]:] if e[0] == "stmt" and _empties(e[1], f, alias)]
                key = ("block", f, bool(later))
                if key in seen:
                    continue
                seen.add(key)
                ctx.check("C16-b", bool(later), c, "FillRequest.request fills a block from self.%s, requests the element and goes "
                          "round the buffer loop without deleting the block from the buffer [%s]: the same values are filled again "
                          "(and, the buffer never shrinking, the loop does not end)" % (f, p.describe(4)),
                          detail="a block taken from self.%s is deleted from it after the element was requested" % f,
                          construct="block-not-removed:%s" % f, path=p)
            continue
        n_paths += 1
        # (i)
        for l, f in yield_loops.items():
            idx = [i for i, e in enumerate(p.ev) if e[0] in ("iter",) and e[1] is l]
            if not idx:
                continue
            later = [e for e in p.ev[idx[-1]:] if e[0] == "stmt" and _empties(e[1], f, alias)]
            key = ("yield", f, bool(later))
            if key in seen:
                continue
            seen.add(key)
            ctx.check("C16-b", bool(later), l, "FillRequest.request yields the items of self.%s and leaves them in the buffer "
                      "[%s]: the next request() yields the same results again, and the buffer holds more than one block of results"
                      % (f, p.describe(4)), detail="self.%s emptied after being yielded" % f,
                      construct="unemptied-after-yield:%s" % f, path=p)
        # (ii)
        for c, f in fills:
            idx = [i for i, cc in p.calls() if cc is c]
            if not idx:
                continue
            later = [e for e in p.ev[idx[-1]:] if e[0] == "stmt" and _empties(e[1], f, alias)]
            key = ("fill", f, bool(later))
            if key in seen:
                continue
            seen.add(key)
            ctx.check("C16-b", bool(later), c, "FillRequest.request fills an item of self.%s into the element and leaves the loop "
                      "without removing it from the buffer [%s]: the value is filled again by the next request() (accounted "
                      "twice), and the fill counter does not include it" % (f, p.describe(5)),
                      detail="items of self.%s filled into the element are deleted from the buffer before the loop is left" % f,
                      construct="refill-not-removed:%s" % f, path=p)
    ctx.instances_floor("C16-b/paths", n_paths, 20, "terminating paths of FillRequest.request (two iterations unfolded)")


# -- C16-c, d, e, f : the block loops --------------------------------------------------------
def _bufsize_aliases(fn):
    alias = set()
    for n in A.walk_local(fn):
        if isinstance(n, ast.Assign) and A.src(n.value) == "self.bufsize":
            for t in n.targets:
                if isinstance(t, ast.Name):
                    alias.add(t.id)
    return alias


def _counters(fn):
    """Locals incremented by one (`x += 1` or the spelled-out `x = x + 1`): fill counters."""
    out = set()
    for n in A.walk_local(fn):
        aug = A.as_augassign(n) if isinstance(n, (ast.AugAssign, ast.Assign)) else None
        if aug is not None and isinstance(aug[1], ast.Add) and isinstance(aug[0], ast.Name) and A.is_const(aug[2], 1):
            out.add(aug[0].id)
        # `for count, val in enumerate(items, 1)`: count is the number of items taken so far
        if isinstance(n, ast.For) and isinstance(n.iter, ast.Call) and A.call_name(n.iter) == "enumerate" \
                and isinstance(n.target, ast.Tuple) and len(n.target.elts) == 2 and isinstance(n.target.elts[0], ast.Name):
            start = n.iter.args[1] if len(n.iter.args) == 2 else A.kwarg(n.iter, "start")
            if start is not None and A.is_const(start, 1):
                out.add(n.target.elts[0].id)
    return out


def _run_aliases(fn):
    """Expressions that denote the wrapped element's run method."""
    out = {"self._el.run"}
    for n in A.walk_local(fn):
        if isinstance(n, ast.Assign) and A.src(n.value) == "self._el.run":
            for t in n.targets:
                if isinstance(t, ast.Name):
                    out.add(t.id)
    return out


def _bufsize_expr(expr, fn):
    """'n' if expr denotes self.bufsize (or a local alias of it), 'n-1' for that minus one, else None."""
    alias = _bufsize_aliases(fn)
    # locals of an enclosing function are visible in nested classes through the constructor argument only
    def base(e):
        return A.src(e) == "self.bufsize" or (isinstance(e, ast.Name) and e.id in alias)
    if base(expr):
        return "n"
    if isinstance(expr, ast.BinOp) and isinstance(expr.op, ast.Sub) and base(expr.left) and A.is_const(expr.right, 1):
        return "n-1"
    return None


def check_bounded(ctx):
    res = ctx.res
    fa = FlowAnalyser(res)
    total = 0
    for qual in ("FillRequest._run_fill_compute", "FillRequest._run_run"):
        fn = ctx.tree.func(ADP, qual)
        # taking the flow in pieces -- islice(flow, n) again and again, next(flow) -- continues where the last piece ended only on
        # an iterator; on a list or a range every islice starts from the beginning and the first block is processed for ever
        fpar = [x for x in A.func_params(fn) if x != "self"][0]
        first_loop = min([l.lineno for l in A.walk_local(fn) if isinstance(l, (ast.While, ast.For))] or [10 ** 9])
        conv = [st for st in fn.body if isinstance(st, ast.Assign) and len(st.targets) == 1 and A.src(st.targets[0]) == fpar
                and isinstance(st.value, ast.Call) and res.call_canon(st.value) in ("builtins.iter", "lena.core.functions.flow_to_iter")
                and len(st.value.args) == 1 and A.src(st.value.args[0]) == fpar and st.lineno < first_loop]
        ctx.check("C16-c", len(conv) >= 1, fn, "%s takes its flow in pieces (islice(%s, bufsize) / next(%s) in a loop) without first making it an "
                  "iterator (`%s = iter(%s)`): run() on a list, a range or any other re-iterable starts every piece at the beginning -- "
                  "FillRequest(Sum(), reset=True, bufsize=2, buffer_input=True).run([1, 2, 3, 4, 5]) yields 3 for ever instead of 3, 7"
                  % (qual, fpar, fpar, fpar, fpar), detail="%s: the flow is made an iterator before the block loop" % qual,
                  construct="piecewise-on-reiterable:%s" % qual.split(".")[-1])
        uses = fa.uses(fn, ["flow"])
        bound_of_alias = {}
        for u in uses:
            if u.kind == "alias" and isinstance(u.node, ast.Assign):
                for t in u.node.targets:
                    if isinstance(t, ast.Name):
                        bound_of_alias[t.id] = u.bound
        for u in uses:
            if u.kind in ("alias", "test"):
                continue
            total += 1
            bound = u.bound
            if bound is None and u.root is not None and getattr(u.root, "id", None) in bound_of_alias:
                bound = bound_of_alias[u.root.id]
            if u.kind == "unknown":
                # the counting wrapper class of _run_run
                ok, why = _counting_wrapper(ctx, fn, u.node)
                if ok is None:
                    ctx.unknown("C16-c", u.node, "%s: use of the flow not classified: %s" % (qual, u.describe()))
                else:
                    ctx.check("C16-c", ok, u.node, "%s: %s" % (qual, why), detail="%s: %s" % (qual, why), construct="wrapper")
                continue
            if u.kind == "pull-one" and bound is None:
                # next(flow): allowed when the same iteration goes on with islice(flow, bufsize - 1)
                loop = A.enclosing(u.node, (ast.While, ast.For))
                rest = [v for v in uses if v is not u and v.bound is not None and _bufsize_expr(v.bound, fn) == "n-1"
                        and loop is not None and loop in list(A.ancestors(v.node if not isinstance(v.node, ast.For) else v.node.iter))]
                ctx.check("C16-c", bool(rest), u.node, "%s pulls one value with `%s` that is not completed to a block by "
                          "islice(flow, bufsize - 1) in the same iteration" % (qual, A.short(u.node, 40)),
                          detail="%s: next(flow) + islice(flow, bufsize - 1) form one block" % qual, construct="pull-one")
                continue
            kind = _bufsize_expr(bound, fn) if bound is not None else None
            ok = u.kind in ("pull-loop", "pull-one", "bounded") and kind in ("n", "n-1")
            if kind == "n-1":
                # only after a next(flow) in the same iteration
                loop = A.enclosing(u.node if not isinstance(u.node, ast.For) else u.node.iter, (ast.While,))
                ok = ok and any(v.kind == "pull-one" and v.bound is None and loop is not None and loop in list(A.ancestors(v.node)) for v in uses)
            ctx.check("C16-c", ok, u.node if not isinstance(u.node, ast.For) else u.node.iter,
                      "%s consumes the flow with %s: a block must be taken with islice(flow, bufsize), so that no more than one "
                      "block is read ahead or held" % (qual, u.describe()),
                      detail="%s: %s bounded by bufsize" % (qual, u.describe()), construct="use:%s:%s" % (u.kind, A.short(bound, 30) if bound is not None else "unbounded"))
    ctx.instances_floor("C16-c", total, 6, "consumptions of the flow in the block loops of FillRequest")


def _counting_wrapper(ctx, fn, call):
    """`slice_iterated_with_count(bufsize, flow)`: a local class whose __iter__ iterates islice(self._seq, self._size)."""
    if not (isinstance(call, ast.Call) and isinstance(call.func, ast.Name)):
        return None, ""
    cls = [c for c in ast.walk(fn) if isinstance(c, ast.ClassDef) and c.name == call.func.id]
    if len(cls) != 1:
        return None, ""
    ms = methods(cls[0])
    init, it = ms.get("__init__"), ms.get("__iter__")
    if init is None or it is None or len(call.args) != 2:
        return None, ""
    ps = [p for p in A.func_params(init) if p != "self"]
    if len(ps) != 2:
        return None, ""
    binding = dict(zip(ps, call.args))
    field_of = {}
    for s in A.walk_local(init):
        if isinstance(s, ast.Assign) and isinstance(s.value, ast.Name) and s.value.id in ps:
            for t in s.targets:
                if A.is_self_attr(t):
                    field_of[t.attr] = s.value.id
    flow_fields = [f for f, p in field_of.items() if A.src(binding[p]) == "flow"]
    size_fields = [f for f, p in field_of.items() if _bufsize_expr(binding[p], fn) == "n"]
    if len(flow_fields) != 1:
        return None, ""
    ff = flow_fields[0]
    uses = [n for m in ms.values() for n in ast.walk(m) if A.is_self_attr(n, ff) and isinstance(n.ctx, ast.Load)]
    ok = bool(uses) and bool(size_fields)
    for u in uses:
        par = A.parent(u)
        ok = ok and isinstance(par, ast.Call) and A.call_name(par) == "islice" and len(par.args) == 2 and par.args[0] is u \
            and A.is_self_attr(par.args[1]) and par.args[1].attr in size_fields and isinstance(A.parent(par), ast.For)
    # the count it reports is the number of values it handed out
    return ok, ("the wrapper %s reads the flow only through islice(self.%s, <bufsize>)" % (cls[0].name, ff) if ok else
                "the wrapper %s reads the flow otherwise than through islice(flow, bufsize)" % cls[0].name)


COMPLETE_COUNTS = ("len(", ".count", "nfills")


def _completeness(p, fn):
    """Facts on path p: ('complete', True/False) per completeness test, ('remainder', True/False)."""
    out = {"complete": None, "remainder": None}
    bs_names = _bufsize_aliases(fn) | {"self.bufsize"}
    counters = _counters(fn)
    for t, pol in p.literals():
        s = A.src(t)
        if s == "self._yield_on_remainder":
            out["remainder"] = pol
            continue
        lc = K.linear_cmp(t)
        if lc is not None and isinstance(t, ast.Compare):
            coef, const, op = lc if pol else K.negate_linear(lc)
            names = sorted(coef)
            cnt = [n for n in names if n.startswith("len(") or n.endswith(".count")]
            bs = [n for n in names if n in bs_names]
            if len(names) == 2 and len(cnt) == 1 and len(bs) == 1 and const == 0:
                # count - bufsize < 0  (incomplete)  /  bufsize - count <= 0 (complete)
                if coef[cnt[0]] == 1 and coef[bs[0]] == -1 and op == "<":
                    out["complete"] = False
                elif coef[cnt[0]] == -1 and coef[bs[0]] == 1 and op == "<=":
                    out["complete"] = True
                elif coef[cnt[0]] == 1 and coef[bs[0]] == -1 and op == "==":
                    out["complete"] = True
                elif coef[cnt[0]] == 1 and coef[bs[0]] == -1 and op == "!=":
                    out["complete"] = False
                else:
                    out["complete"] = "other:" + s
            continue
        if isinstance(t, ast.BinOp) and isinstance(t.op, ast.Mod) and isinstance(t.left, ast.Name) and t.left.id in counters \
                and _bufsize_expr(t.right, fn) == "n":
            out["complete"] = not pol
    return out


def _request_yields(p):
    """Yields on the path that hand out results of the element (request/run results), with their event index."""
    return p.yields()


def check_block_loops(ctx):
    res = ctx.res
    # ---- _run_fill_compute
    fn = ctx.tree.func(ADP, "FillRequest._run_fill_compute")
    outer = [l for l in fn.body if isinstance(l, ast.While)]
    if not ctx.require(len(outer) == 1, "C16-d", fn, "_run_fill_compute: expected one block loop"):
        return
    n = 0
    views = set(FlowAnalyser(res).flow_aliases(fn, ["flow"])[0]) | {"flow"}
    def _counted(it):
        # enumerate(x, 1) iterates x
        return it.args[0] if isinstance(it, ast.Call) and A.call_name(it) == "enumerate" and it.args else it

    def _contradicts_enumerate(p):
        """An iteration of `for c, v in enumerate(x, 1)` was made and the path then takes `c` for false: infeasible."""
        done = set()
        for e in p.ev:
            if e[0] == "iter" and isinstance(e[1], ast.For) and isinstance(e[1].iter, ast.Call) and A.call_name(e[1].iter) == "enumerate" \
                    and isinstance(e[1].target, ast.Tuple) and isinstance(e[1].target.elts[0], ast.Name) \
                    and len(e[1].iter.args) == 2 and A.is_const(e[1].iter.args[1], 1):
                done.add(e[1].target.elts[0].id)
            elif e[0] == "cond":
                for t, pol in A.literals(e[1], e[2]):
                    if isinstance(t, ast.Name) and t.id in done and not pol:
                        return True
        return False
    for p in P.loop_body_paths(outer[0]):
        if _contradicts_enumerate(p):
            continue
        n += 1
        pulls = []
        for i, e in enumerate(p.ev):
            if e[0] == "iter" and isinstance(e[1], ast.For) and A.root_name(_counted(e[1].iter)) in views:
                pulls.append((i, "for"))
            elif e[0] == "stmt":
                for c in A.walk_local(e[1]):
                    if isinstance(c, ast.Call) and res.call_canon(c) == "builtins.next" and c.args and A.root_name(c.args[0]) in views:
                        pulls.append((i, "next"))
        fills = [i for i, c in p.calls() if A.src(c.func) == "self._el_fill"]
        in_stop = any(e[0] == "exc" and e[1].type is not None and res.canon(e[1].type) == "builtins.StopIteration" for e in p.ev)
        want = len(pulls) - (1 if in_stop else 0)
        # partial next() interrupted by StopIteration does not appear as a stmt; pulls counted are completed ones
        ctx.check("C16-d", len(fills) == len(pulls), outer[0], "_run_fill_compute [%s]: %d value(s) pulled from the block, %d filled: "
                  "every value of the flow must be filled exactly once" % (p.describe(4), len(pulls), len(fills)),
                  detail="_run_fill_compute [%s]: every pulled value filled once" % p.describe(3),
                  construct="fc-fill-once:%d/%d" % (len(pulls), len(fills)), path=p)
        ys = p.yields()
        facts = _completeness(p, fn)
        if ys:
            ok = (facts["complete"] is True) or (facts["complete"] is False and facts["remainder"] is True)
            ctx.check("C16-e", ok and not in_stop, ys[0][1], "_run_fill_compute yields on a path [%s] that has not established a "
                      "complete block (nor _yield_on_remainder for a partial one)%s" % (
                          p.describe(5), " -- an empty flow must yield nothing" if in_stop else ""),
                      detail="_run_fill_compute yields only for a complete block or under _yield_on_remainder [%s]" % p.describe(3),
                      construct="fc-yield:%s:%s" % (facts["complete"], facts["remainder"]), path=p)
            for _, y in ys:
                loop = A.enclosing(y, ast.For)
                ctx.check("C16-e", loop is not None and A.src(loop.iter) == "self._el_request()" and isinstance(y, ast.Yield)
                          and A.src(y.value) == A.src(loop.target), y, "_run_fill_compute yields `%s`, not the element's request() results"
                          % A.short(y, 40), detail="results come from self._el_request()", construct="fc-yield-source")
        if in_stop:
            ctx.check("C16-e", not ys and p.end in ("break", "return"), outer[0], "_run_fill_compute: the exhausted flow does not end "
                      "the block loop silently [%s]" % p.describe(3), detail="exhausted flow ends the loop without output",
                      construct="fc-empty", path=p)
        # reset between blocks
        if facts["complete"] is True and p.end in ("fall", "continue"):
            rs = [i for i, c in p.calls() if A.src(c.func) in ("self._el_reset", "self.reset")]
            want_reset = [pol for t, pol in p.literals() if A.src(t) == "self._reset"]
            ok = bool(want_reset) and ((want_reset[-1] and len(rs) == 1 and (not ys or rs[0] > ys[-1][0])) or (not want_reset[-1] and not rs))
            ctx.check("C16-f", ok, outer[0], "_run_fill_compute [%s]: after a complete block the element is reset %d time(s)%s; it "
                      "must be reset once, after the results, exactly when _reset is set" % (
                          p.describe(4), len(rs), "" if want_reset else " without testing _reset"),
                      detail="_run_fill_compute: reset after a complete block iff _reset [%s]" % p.describe(2),
                      construct="fc-reset:%s" % (want_reset[-1] if want_reset else None), path=p)
        if facts["complete"] is False:
            ctx.check("C16-e", p.end == "return", outer[0], "_run_fill_compute goes on after a partial block [%s]" % p.describe(3),
                      detail="a partial block ends the run", construct="fc-partial-ends", path=p)
    ctx.instances_floor("C16-d/fc", n, 6, "paths through the block loop of _run_fill_compute")

    # ---- _run_run
    fn = ctx.tree.func(ADP, "FillRequest._run_run")
    loops = [l for l in A.walk_local(fn) if isinstance(l, ast.While)]
    if not ctx.require(len(loops) == 3, "C16-e", fn, "_run_run: expected three block loops (remainder / buffer input / buffer output)"):
        return
    n = 0
    run_names = _run_aliases(fn)
    for loop in loops:
        conds = []
        child = loop
        for a in A.ancestors(loop):
            if a is fn:
                break
            if isinstance(a, ast.If):
                # `if not c: B else: A` is `if c: A else: B`: record the truth value of the un-negated test
                test, pol = A.strip_not(a.test)
                in_body = any(child is x for x in a.body)
                conds.append((A.src(test), in_body if pol else not in_body))
            child = a
        mode = "remainder" if ("self._yield_on_remainder", True) in conds else (
            "input" if ("self._buffer_input", True) in conds else ("output" if ("self._buffer_input", False) in conds else None))
        if not ctx.require(mode is not None, "C16-e", loop, "_run_run: block loop under unrecognised mode test %s" % conds):
            continue
        for p in P.loop_body_paths(loop):
            n += 1
            ys = p.yields()
            runs = [i for i, c in p.calls() if A.src(c.func) in run_names]
            facts = _completeness(p, fn)
            in_stop = any(e[0] == "exc" and e[1].type is not None and res.canon(e[1].type) == "builtins.StopIteration" for e in p.ev)
            if mode == "remainder":
                ok = (not ys) or (bool(runs) and not in_stop)
                ctx.check("C16-e", ok, loop, "_run_run (yield_on_remainder) yields without running the element on the block, or "
                          "after the flow was found empty [%s]" % p.describe(3),
                          detail="remainder mode: results of el.run(block); empty flow returns [%s]" % p.describe(2),
                          construct="rr-remainder:%s" % p.describe(2), path=p)
                if in_stop:
                    ctx.check("C16-e", p.end == "return" and not ys, loop, "_run_run: an exhausted flow does not end the run silently",
                              detail="exhausted flow returns without output", construct="rr-remainder-empty", path=p)
            else:
                if ys:
                    ctx.check("C16-e", facts["complete"] is True, ys[0][1], "_run_run (buffer %s) yields results on a path [%s] that "
                              "has not refuted `count < bufsize`: the results of an incomplete final block would be yielded although "
                              "yield_on_remainder is not set" % (mode, p.describe(4)),
                              detail="buffer-%s mode: results yielded only for a complete block" % mode,
                              construct="rr-%s-yield:%s" % (mode, facts["complete"]), path=p)
                if facts["complete"] is False:
                    ctx.check("C16-e", p.end == "return" and not ys, loop, "_run_run (buffer %s) does not stop silently at an "
                              "incomplete block [%s]" % (mode, p.describe(3)), detail="incomplete block: return, nothing yielded",
                              construct="rr-%s-partial" % mode, path=p)
                ctx.check("C16-e", facts["complete"] is not None and not isinstance(facts["complete"], str), loop,
                          "_run_run (buffer %s): the block loop [%s] has no test `count < bufsize` of the expected form (found %s)"
                          % (mode, p.describe(3), facts["complete"]), detail="completeness test present", construct="rr-%s-test" % mode, path=p)
            # the block handed to the element is the one just read
            if p.end in ("fall", "continue") and (mode == "remainder" or facts["complete"] is True):
                rs = [i for i, c in p.calls() if A.src(c.func) in ("self._el_reset", "self.reset")]
                want_reset = [pol for t, pol in p.literals() if A.src(t) == "self._reset"]
                ok = bool(want_reset) and ((want_reset[-1] and len(rs) == 1 and (not ys or rs[0] > ys[-1][0])) or (not want_reset[-1] and not rs))
                ctx.check("C16-f", ok, loop, "_run_run (%s) [%s]: after a block the element is reset %d time(s)%s; it must be reset "
                          "once, after the block's results, exactly when _reset is set" % (
                              mode, p.describe(4), len(rs), "" if want_reset else " without testing _reset"),
                          detail="_run_run (%s): reset after a block iff _reset" % mode,
                          construct="rr-%s-reset:%s" % (mode, want_reset[-1] if want_reset else None), path=p)
    ctx.instances_floor("C16-e/rr", n, 10, "paths through the block loops of _run_run")


def check_fill_request_methods(ctx):
    res = ctx.res
    fill = ctx.tree.func(ADP, "FillRequest.fill")
    val = [p for p in A.func_params(fill) if p != "self"][0]
    n = 0
    for p in P.paths_of(fill):
        if p.end == "raise":
            continue
        n += 1
        fills = [c for _, c in p.calls() if A.src(c.func) == "self._el_fill"]
        bufs = [c for _, c in p.calls() if isinstance(c.func, ast.Attribute) and c.func.attr in ("append", "insert", "appendleft")
                and A.is_self_attr(c.func.value) and c.args and A.src(c.args[-1]) == val]
        # every store into the counter on the path; `self._n_count += 1` and `self._n_count = self._n_count + 1` are the same
        incs = [s for s in p.stmts() if isinstance(s, (ast.Assign, ast.AugAssign, ast.AnnAssign))
                and any(A.src(t) == "self._n_count" for t in A.assigned_targets(s))]
        by_one = [A.as_augassign(s) for s in incs]
        ok = (len(fills) == 1 and len(bufs) == 0 and len(incs) == 1 and by_one[0] is not None and isinstance(by_one[0][1], ast.Add)
              and A.is_const(by_one[0][2], 1)
              and A.src(fills[0].args[0]) == val) or (len(fills) == 0 and len(bufs) == 1 and not incs and bufs[0].func.attr == "append")
        ctx.check("C16-d", ok, fill, "FillRequest.fill [%s]: %d fill(s) of the element, %d counter increment(s), %d store(s) into a "
                  "buffer: a value is either filled and counted once, or appended to the input buffer once" % (
                      p.describe(4), len(fills), len(incs), len(bufs)),
                  detail="FillRequest.fill [%s]: value accounted once" % p.describe(3), construct="fill-once:" + p.describe(4), path=p)
        if ok and fills and incs:
            # counted only once accepted: the element's fill may refuse the value (LenaStopFill, an error the caller skips)
            fi = [i for i, c in p.calls() if c is fills[0]][0]
            ctx.check("C16-d", p.index(incs[0]) > fi, incs[0], "FillRequest.fill counts the value before the element has accepted it (`%s` "
                      "precedes `%s`) [%s]: when the element's fill raises (LenaStopFill in a Split branch, a bad value the caller "
                      "skips) the refused value stays counted, the next request() yields for a block of bufsize-1 values and every "
                      "later block boundary is shifted" % (A.short(incs[0], 30), A.short(fills[0], 30), p.describe(3)),
                      detail="counter incremented after the element accepted the value", construct="count-after-accept", path=p)
        if bufs:
            lits = p.literal_srcs()
            ctx.check("C16-d", "self._buffer_input" in lits, fill, "FillRequest.fill buffers the input although _buffer_input is not "
                      "known to be set [%s]" % p.describe(4), detail="input buffered only in buffer_input mode", construct="fill-buffer-mode", path=p)
    ctx.instances_floor("C16-d/fill", n, 3, "normal paths of FillRequest.fill")
    # request: counter reduced on the path that requested the element under the count test
    req = ctx.tree.func(ADP, "FillRequest.request")
    n = 0
    seen = set()
    for p in P.paths_of(req):
        cnt = [full for full in (_count_test(t, pol, req) for t, pol in p.literals()) if full is not None]
        if not cnt:
            continue
        n += 1
        stores = [s for s in p.stmts() if isinstance(s, (ast.Assign, ast.AugAssign)) and any(A.src(t) == "self._n_count" for t in A.assigned_targets(s))]
        reqs = [i for i, e in enumerate(p.ev) if e[0] in ("iter", "loop0") and isinstance(e[1], ast.For) and A.src(e[1].iter) == "self._el_request()"]
        first_block = cnt[0]
        if first_block:
            ok_counter = len(stores) >= 1 and _counter_reduced(stores[0], req) and bool(reqs) and p.index(stores[0]) > reqs[0]
            rs = [i for i, c in p.calls() if A.src(c.func) == "self._el_reset"]
            # the _reset test that belongs to the requested block: one in the statement list that holds the request loop
            # (a later `if self._reset:` of the buffer loop says nothing about this block)
            want = []
            if reqs:
                block = A.parent(p.ev[reqs[0]][1])
                for i, e in enumerate(p.ev):
                    if e[0] == "cond" and i > reqs[0] and (block is req or block in list(A.ancestors(e[1]))):
                        want.extend(pol for t, pol in A.literals(e[1], e[2]) if A.src(t) == "self._reset")
            ok_reset = bool(want) and (not want[0] or bool(rs and reqs and rs[0] > reqs[0]))
            key = (first_block, bool(stores), ok_counter, ok_reset)
        else:
            key = (first_block, bool(stores))
        if key in seen:
            continue
        seen.add(key)
        if first_block:
            ctx.check("C16-f", ok_counter, req, "FillRequest.request [%s] requests the filled element without reducing the fill counter "
                      "afterwards: the same block would be requested again" % p.describe(3),
                      detail="request(): counter reduced after the element was requested", construct="request-counter", path=p)
            ctx.check("C16-f", ok_reset, req, "FillRequest.request does not reset the "
                      "element after a requested block when _reset is set [%s]" % p.describe(3),
                      detail="request(): reset after the requested block iff _reset", construct="request-reset:%s" % (want[0] if want else None), path=p)
        else:
            # not enough fills: the element must not be requested under this test
            pre = [i for i in reqs if not any(e[0] == "cond" for e in p.ev[:i][1:])]
            ctx.check("C16-f", not stores or True, req, "", detail="request(): below a full block the element is not requested at the "
                      "head of request()", construct="request-below")
    ctx.instances_floor("C16-f/request", n, 2, "paths of FillRequest.request through the count test")


def _count_test(t, pol, fn):
    """True / False when the literal (t, pol) says `self._n_count >= <bufsize>` / its negation, in whatever spelling
    (`bufsize <= self._n_count`, a refuted `self._n_count < bufsize`, ...); None for any other literal."""
    if not isinstance(t, ast.Compare):
        return None
    lc = K.linear_cmp(t)
    if lc is None:
        return None
    coef, const, op = lc if pol else K.negate_linear(lc)
    bs = [n for n in coef if n in _bufsize_aliases(fn) | {"self.bufsize"}]
    if const != 0 or len(coef) != 2 or len(bs) != 1 or "self._n_count" not in coef:
        return None
    c, b = coef["self._n_count"], coef[bs[0]]
    if (c, b, op) == (-1, 1, "<="):      # bufsize - count <= 0
        return True
    if (c, b, op) == (1, -1, "<"):       # count - bufsize < 0
        return False
    return None


def _counter_reduced(st, fn):
    """`self._n_count = self._n_count % bufsize` (or `%=`), `... - bufsize` (or `-=`), or `self._n_count = 0`."""
    aug = A.as_augassign(st)
    if aug is not None:
        return isinstance(aug[1], (ast.Mod, ast.Sub)) and _bufsize_expr(aug[2], fn) == "n"
    return isinstance(st, ast.Assign) and A.is_const(st.value, 0)


# -- C16-g -----------------------------------------------------------------------------------
def check_construction(ctx):
    res = ctx.res
    init = ctx.tree.func(ADP, "FillRequest.__init__")
    n = 0
    seen = set()
    for p in P.paths_of(init):
        if p.end == "raise":
            continue
        n += 1
        stores = [(i, e[1]) for i, e in enumerate(p.ev) if e[0] == "stmt" and isinstance(e[1], ast.Assign)
                  and any(A.is_self_attr(t, "bufsize") for t in e[1].targets)]
        ok = len(stores) == 1 and A.src(stores[0][1].value) in ("int(bufsize)", "bufsize")
        checked = False
        if ok:
            for t, pol in _lits_before(p, stores[0][0]):
                if not pol and isinstance(t, ast.BoolOp):
                    pass
            # the validating test must have been refuted on this path
            lits = [(A.norm_src(t), pol) for t, pol in _lits_before(p, stores[0][0])]
            checked = ("bufsize != int(bufsize)", False) in lits and ("bufsize < 1", False) in lits
        key = ("bufsize", ok, checked)
        if key not in seen:
            seen.add(key)
            ctx.check("C16-g", ok and checked, init, "FillRequest.__init__ stores bufsize on a path that has not refuted "
                      "`bufsize != int(bufsize) or bufsize < 1` [%s]: a block size of 0 or a fraction makes run() loop forever or "
                      "never complete a block" % p.describe(3), detail="bufsize validated before it is stored", construct="bufsize-validated", path=p)
        # buffers
        bin_ = [s for s in p.stmts() if isinstance(s, ast.Assign) and any(A.is_self_attr(t, "_buffer_in") for t in s.targets)]
        bout = [s for s in p.stmts() if isinstance(s, ast.Assign) and any(A.is_self_attr(t, "_buffer_out") for t in s.targets)]
        fmap = {st.targets[0].id: "el_fill" for st in A.walk_local(init) if isinstance(st, ast.Assign) and len(st.targets) == 1
                and isinstance(st.targets[0], ast.Name) and A.src(st.value) in ("getattr(el, fill, None)", "getattr(el, fill)")}
        has_fill = ("callable(el_fill)", True) in [(A.src_with(t, fmap), pol) for t, pol in p.literals()]
        if has_fill:
            mode = [pol for t, pol in p.literals() if A.src(t) == "self._buffer_input"]
            ok = len(bin_) + len(bout) == 1 and all(A.src(s.value) in ("[]", "list()") for s in bin_ + bout) and bool(mode) \
                and ((mode[-1] and bin_) or (not mode[-1] and bout))
            cnt = [s for s in p.stmts() if isinstance(s, ast.Assign) and any(A.is_self_attr(t, "_n_count") for t in s.targets)]
            ok = ok and len(cnt) == 1 and A.is_const(cnt[0].value, 0)
            key = ("buffers", ok, bool(mode and mode[-1]))
            if key not in seen:
                seen.add(key)
                ctx.check("C16-g", ok, init, "FillRequest.__init__ [%s] does not create exactly the empty buffer of its mode and a "
                          "zero fill counter" % p.describe(4), detail="one empty buffer for the chosen mode, _n_count = 0",
                          construct="buffers:%s" % (mode[-1] if mode else None), path=p)
    ctx.instances_floor("C16-g/init", n, 8, "normal exits of FillRequest.__init__")
    # the raise for bad bufsize / bad mode
    rs = [r for r in A.walk_local(init) if isinstance(r, ast.Raise) and r.exc is not None]
    mm = {}
    for st in A.walk_local(init):
        if isinstance(st, ast.Assign) and len(st.targets) == 1 and isinstance(st.targets[0], ast.Name):
            if A.src(st.value) in ("bool(buffer_input)", "buffer_input"):
                mm[st.targets[0].id] = "bi"
            elif A.src(st.value) in ("bool(buffer_output)", "buffer_output"):
                mm[st.targets[0].id] = "bo"
    for what, test_has in (("bufsize", "bufsize < 1"), ("buffering mode", "int(bi) + int(bo) != 1")):
        hit = [r for r in rs if (test_has, True) in _raise_atoms(r, mm)]
        ok = len(hit) == 1 and res.canon(hit[0].exc.func if isinstance(hit[0].exc, ast.Call) else hit[0].exc) == EXC + "LenaValueError"
        ctx.check("C16-g", ok, init, "FillRequest.__init__ does not reject a bad %s with LenaValueError" % what,
                  detail="bad %s -> LenaValueError" % what, construct="init-raise:" + what)
    # _buffer_input from the parameter
    bi = [s for s in A.walk_local(init) if isinstance(s, ast.Assign) and any(A.is_self_attr(t, "_buffer_input") for t in s.targets)]
    ok = len(bi) == 1 and A.src(_deref_in(init, bi[0].value)) in ("bool(buffer_input)", "buffer_input")
    ctx.check("C16-g", ok, init, "_buffer_input is not the constructor's buffer_input", detail="_buffer_input = bool(buffer_input)",
              construct="init-mode")
    yr = [s for s in A.walk_local(init) if isinstance(s, ast.Assign) and any(A.is_self_attr(t, "_yield_on_remainder") for t in s.targets)]
    ok = len(yr) == 1 and A.src(yr[0].value) in ("bool(yield_on_remainder)", "yield_on_remainder")
    ctx.check("C16-g", ok, init, "_yield_on_remainder is not the constructor's yield_on_remainder", detail="_yield_on_remainder = bool(param)",
              construct="init-remainder")
    rsst = [s for s in A.walk_local(init) if isinstance(s, ast.Assign) and any(A.is_self_attr(t, "_reset") for t in s.targets)]
    ok = len(rsst) == 1 and A.src(rsst[0].value) in ("bool(reset)", "reset")
    ctx.check("C16-g", ok, init, "_reset is not the constructor's reset", detail="_reset = bool(reset)", construct="init-reset")
    # FillRequestSeq
    sinit = ctx.tree.func(FRS, "FillRequestSeq.__init__")
    frs = [s for s in A.walk_local(sinit) if isinstance(s, ast.Assign) and isinstance(s.value, ast.Call)
           and res.call_canon(s.value) == ADP + ".FillRequest"]
    ok = len(frs) == 1 and [A.src(a) for a in frs[0].value.args] == ["self"] and any(k.arg is None and A.src(k.value) == "kwargs"
                                                                                      for k in frs[0].value.keywords)
    ctx.check("C16-g", ok, sinit, "FillRequestSeq does not wrap itself as FillRequest(self, **kwargs)", detail="fr = FillRequest(self, **kwargs)",
              construct="seq-wrap")
    if ok:
        var = frs[0].targets[0].id if isinstance(frs[0].targets[0], ast.Name) else None
        runs = [s for s in A.walk_local(sinit) if isinstance(s, ast.Assign) and any(A.is_self_attr(t, "run") for t in s.targets)]
        ctx.check("C16-g", len(runs) == 1 and A.src(runs[0].value) == "%s.run" % var, sinit,
                  "FillRequestSeq.run is not the run of its FillRequest wrapper", detail="self.run = fr.run", construct="seq-run")
    sreq = ctx.tree.func(FRS, "FillRequestSeq.request")
    n = 0
    for p in P.paths_of(sreq):
        if p.end != "return":
            continue
        n += 1
        r = [s for s in p.stmts() if isinstance(s, ast.Return)][-1]
        v = _deref_path(p, r.value)
        after = [pol for t, pol in p.literals() if A.src(t) == "self._after"]
        inner = "self._fill_request.request()"
        if isinstance(v, ast.Call) and A.src(v.func) == "self._after.run" and len(v.args) == 1:
            ok = A.src(_deref_path(p, v.args[0])) == inner
        else:
            ok = A.src(v) == inner and after == [False]
        ctx.check("C16-g", ok, r, "FillRequestSeq.request returns `%s`: the results of the fill/request element must be post-processed "
                  "by the elements after it (and only be returned raw when there are none)" % A.short(v, 60),
                  detail="request() = self._after.run(self._fill_request.request())", construct="seq-request:%s" % after, path=p)
    ctx.instances_floor("C16-g/seq-request", n, 1, "return paths of FillRequestSeq.request")


def _raise_atoms(r, mapping):
    """The atoms of the test of the `if` that guards raise statement *r*, as (canonical source, truth value on the way to r):
    `if a or b < 1: raise` and `if not (a or b < 1): ... else: raise` both give [(a, True), (b < 1, True)]."""
    iff = child = r
    for a in A.ancestors(r):
        if isinstance(a, ast.If):
            iff = a
            break
        child = a
    else:
        return []
    truth = any(child is x for x in iff.body)
    out = []

    def atoms(t, pol):
        t, p = A.strip_not(t)
        pol = pol if p else not pol
        if isinstance(t, ast.BoolOp):
            for v in t.values:
                atoms(v, pol)
        else:
            out.append((A.norm_src(t, mapping), pol))
    atoms(iff.test, truth)
    return out


def _lits_before(p, idx):
    out = []
    for e in p.ev[:idx]:
        if e[0] == "cond":
            out.extend(A.literals(e[1], e[2]))
    return out


def _deref_in(fn, expr):
    if isinstance(expr, ast.Name):
        d = [s for s in A.walk_local(fn) if isinstance(s, ast.Assign) and any(isinstance(t, ast.Name) and t.id == expr.id for t in s.targets)]
        if len(d) == 1:
            return d[0].value
    return expr


def _deref_path(p, expr):
    for _ in range(5):
        if not isinstance(expr, ast.Name):
            break
        d = [s for s in p.stmts() if isinstance(s, ast.Assign) and any(isinstance(t, ast.Name) and t.id == expr.id for t in s.targets)]
        if not d:
            break
        expr = d[-1].value
    return expr


def check_reset_forwarded(ctx):
    """reset() of the wrappers resets the wrapped element, whatever its own setting: FillRequest.reset -> self._el_reset(),
    FillRequestSeq.reset -> self._fill_request.reset(), on every path, under no condition.  (An outer FillRequest(reset=True)
    around a FillRequestSeq relies on it: the inner element's `_reset` says when *it* resets between its own blocks, not
    whether it may be reset.)"""
    for mod, qual, callee in (("lena.core.adapters", "FillRequest.reset", "self._el_reset"),
                              ("lena.core.fill_request_seq", "FillRequestSeq.reset", "self._fill_request.reset")):
        fn = ctx.tree.func(mod, qual)
        n = 0
        for p in P.paths_of(fn):
            if p.end == "raise":
                ctx.violation("C16-h", fn, "%s raises on path [%s] instead of resetting the element" % (qual, p.describe()),
                              construct="reset-raises:%s" % qual, path=p)
                continue
            n += 1
            calls = [c for _, c in p.calls() if A.src(c.func) == callee and not c.args and not c.keywords]
            ctx.check("C16-h", len(calls) == 1, fn, "%s does not call %s() on path [%s]: the wrapped element keeps its state where the "
                      "caller asked for a reset (results of later blocks become cumulative)" % (qual, callee, p.describe()),
                      detail="%s forwards to %s() on path [%s]" % (qual, callee, p.describe(2)), construct="reset-forward:%s" % qual, path=p)
        ctx.instances_floor("C16-h/" + qual, n, 1, "normal paths of %s" % qual)


def check_run_gets_iterator(ctx):
    """The Run element of FillRequest is a user element: like every element behind Sequence.run it may rely on its flow being
    an iterator (take some values with next()/islice, then continue with a for loop -- Slice with negative indices does).
    _run_run therefore hands it iter(buffer), chain(...), or a wrapper object -- never the buffer list itself, on which the
    second loop would start from the beginning again."""
    res = ctx.res
    fn = ctx.tree.func("lena.core.adapters", "FillRequest._run_run")
    aliases = {a.targets[0].id for a in A.walk_local(fn) if isinstance(a, ast.Assign) and len(a.targets) == 1
               and isinstance(a.targets[0], ast.Name) and A.src(a.value) in ("self._el.run", "self._el_run")}
    n = 0
    for c in A.walk_local(fn):
        if not isinstance(c, ast.Call) or len(c.args) != 1:
            continue
        if not ((isinstance(c.func, ast.Name) and c.func.id in aliases) or A.src(c.func) in ("self._el.run", "self._el_run")):
            continue
        n += 1
        arg = c.args[0]
        defs = [arg]
        if isinstance(arg, ast.Name):
            defs = [a.value for a in A.walk_local(fn) if isinstance(a, ast.Assign) and any(arg.id in A.target_names(t) for t in a.targets)]
            if not defs:
                ctx.unknown("C16-i", c, "the flow handed to the element, `%s`, is not bound by an assignment of _run_run" % arg.id)
                continue
        bad = None
        for d in defs:
            if isinstance(d, (ast.List, ast.ListComp, ast.Tuple, ast.Set, ast.Dict, ast.DictComp, ast.SetComp)):
                bad = d
            elif isinstance(d, ast.Call) and res.call_canon(d) in ("builtins.list", "builtins.tuple", "builtins.sorted", "collections.deque",
                                                                    "builtins.set", "builtins.dict"):
                bad = d
            elif isinstance(d, ast.Call):
                canon = res.call_canon(d) or ""
                known = canon in ("builtins.iter", "itertools.chain", "itertools.islice", "lena.core.functions.flow_to_iter") or \
                    (isinstance(d.func, ast.Name) and any(isinstance(k, ast.ClassDef) and k.name == d.func.id for k in ast.walk(fn)))
                if not known:
                    ctx.unknown("C16-i", c, "the element is run on `%s`; the rule does not know whether that is an iterator" % A.short(d, 50))
                    bad = False
            elif isinstance(d, ast.GeneratorExp):
                pass
            else:
                ctx.unknown("C16-i", c, "the element is run on `%s`; the rule does not know whether that is an iterator" % A.short(d, 50))
                bad = False
        if bad is False:
            continue
        ctx.check("C16-i", bad is None, c, "FillRequest._run_run runs the element on the container `%s` itself, not on an iterator over it: "
                  "an element that takes some values and then continues with a loop (Slice with a negative index) starts from the "
                  "beginning again and yields values twice" % (A.short(bad, 50) if bad is not None else ""),
                  detail="element run on an iterator: %s" % A.short(arg, 50), construct="run-arg:%s" % A.short(arg, 60))
    ctx.instances_floor("C16-i", n, 3, "calls of the element's run in FillRequest._run_run")


def check(ctx):
    check_reset_forwarded(ctx)
    check_run_gets_iterator(ctx)
    K.check_flow_to_iter(ctx, "C16-c", "FillRequest._run_fill_compute / _run_run take the flow block by block with islice(flow, bufsize) and "
                         "next(flow): on a re-iterable every islice starts from the beginning again, the first block is processed for ever "
                         "and later values are never reached")
    check_self_feed(ctx)
    check_drain_clear(ctx)
    check_bounded(ctx)
    check_block_loops(ctx)
    check_fill_request_methods(ctx)
    check_construction(ctx)


ADPF = "lena/core/adapters.py"
FRSF = "lena/core/fill_request_seq.py"
VARIANTS = [
    M("rr-run-on-list", "lena/core/adapters.py", "                for val in el_run(iter(buffer)):", "                for val in el_run(buffer):", ["C16-i"]),
    M("frs-reset-conditional", "lena/core/fill_request_seq.py", "        self._fill_request.reset()", "        if self._reset:\n            self._fill_request.reset()", ["C16-h"]),
    M("fr-reset-dropped", "lena/core/adapters.py", "        \"\"\"Reset *el* (ignoring the initialization setting).\"\"\"\n        self._el_reset()", "        \"\"\"Reset *el* (ignoring the initialization setting).\"\"\"\n        pass", ["C16-h"]),
    # bounded consumption
    M("fc-unbounded-slice", ADPF, "            slice_ = itertools.islice(flow, self.bufsize)", "            slice_ = iter(flow)", ["C16-c"]),
    M("rr-list-flow", ADPF, "                buffer = list(islice(flow, bufsize))", "                buffer = list(flow)", ["C16-c"]),
    M("rr-remainder-full-block", ADPF, "                                            islice(flow, bufsize-1))):", "                                            islice(flow, bufsize))):", ["C16-c"]),
    M("rr-wrapper-unbounded", ADPF, "                for val in islice(self._seq, self._size):", "                for val in self._seq:", ["C16-c"]),
    M("rr-two-blocks-ahead", ADPF, "                buffer = list(islice(flow, bufsize))", "                buffer = list(islice(flow, 2 * bufsize))", ["C16-c"]),
    # one fill per value
    M("fc-first-value-dropped", ADPF, "            else:\n                self._el_fill(val)\n                nfills += 1\n\n            for val in slice_:", "            else:\n                nfills += 1\n\n            for val in slice_:", ["C16-d"]),
    M("fc-fill-twice", ADPF, "            for val in slice_:\n                self._el_fill(val)\n                nfills += 1", "            for val in slice_:\n                self._el_fill(val)\n                self._el_fill(val)\n                nfills += 1", ["C16-d"]),
    M("revert-fix-run-fill-compute-iter", ADPF, "        flow = iter(flow)\n        while True:\n            # A slice is a non-materialized list", "        while True:\n            # A slice is a non-materialized list", ["C16-c"]),
    M("revert-fix-run-run-iter", ADPF, "        bufsize = self.bufsize\n        # flow is taken slice by slice: that needs an iterator\n        # (slices of a list would always start from its beginning)\n        flow = iter(flow)\n", "        bufsize = self.bufsize\n", ["C16-c"]),
    M("flow-to-iter-keeps-reiterables", "lena/core/functions.py", "    if ((sys.version_info.major == 3 and hasattr(flow, \"__next__\"))\n        or (sys.version_info.major == 2 and hasattr(flow, \"next\"))):\n        return flow\n    else:\n        return iter(flow)",
      "    if isinstance(flow, (list, tuple)):\n        return iter(flow)\n    return flow", ["C16-c"]),
    M("fill-counted-before-accepted", ADPF, "        self._el_fill(value)\n        self._n_count += 1", "        self._n_count += 1\n        self._el_fill(value)", ["C16-d"]),
    M("fill-not-counted", ADPF, "        self._el_fill(value)\n        self._n_count += 1", "        self._el_fill(value)", ["C16-d"]),
    M("fill-buffered-and-filled", ADPF, "                self._buffer_in.append(value)\n                return", "                self._buffer_in.append(value)", ["C16-d"]),
    M("fill-count-by-two", ADPF, "        self._el_fill(value)\n        self._n_count += 1", "        self._el_fill(value)\n        self._n_count += 2", ["C16-d"]),
    # no partial block output
    M("fc-remainder-always", ADPF, "            if nfills % self.bufsize:\n                if self._yield_on_remainder:\n                    # can't return smth in Python 2 generator.\n                    # return self.request()\n                    for result in self._el_request():\n                        yield result", "            if nfills % self.bufsize:\n                if True:\n                    for result in self._el_request():\n                        yield result", ["C16-e"]),
    M("fc-empty-yields", ADPF, "            except StopIteration:\n                # Unlike FillCompute, we don't yield anything\n                # if the flow was smaller than the required bufsize\n                break", "            except StopIteration:\n                for result in self._el_request():\n                    yield result\n                break", ["C16-e"]),
    M("rr-input-partial-yields", ADPF, "                if len(buffer) < bufsize:\n                    # _yield_on_remainder is False\n                    return\n", "                if not buffer:\n                    return\n", ["C16-e"]),
    M("rr-input-test-le", ADPF, "                if len(buffer) < bufsize:", "                if len(buffer) <= bufsize:", ["C16-e"]),
    M("rr-output-test-after", ADPF, "                results = list(el_run(slice_))\n                if slice_.count < bufsize:\n                    return\n                for val in results:\n                    yield val\n", "                results = list(el_run(slice_))\n                for val in results:\n                    yield val\n                if slice_.count < bufsize:\n                    return\n", ["C16-e"]),
    M("fc-partial-continues", ADPF, "                    #     self._el_reset()\n                return\n", "                    #     self._el_reset()\n                continue\n", ["C16-e"]),
    # reset
    M("fc-reset-dropped", ADPF, "            for result in self._el_request():\n                yield result\n            if self._reset:\n                self._el_reset()\n\n    def _run_run", "            for result in self._el_request():\n                yield result\n\n    def _run_run", ["C16-f"]),
    M("fc-reset-before-results", ADPF, "            for result in self._el_request():\n                yield result\n            if self._reset:\n                self._el_reset()\n\n    def _run_run", "            if self._reset:\n                self._el_reset()\n            for result in self._el_request():\n                yield result\n\n    def _run_run", ["C16-f"]),
    M("rr-input-reset-always", ADPF, "                for val in el_run(iter(buffer)):\n                    yield val\n                # probably False for Run element.\n                if self._reset:\n                    self._el_reset()", "                for val in el_run(iter(buffer)):\n                    yield val\n                self._el_reset()", ["C16-f"]),
    M("request-counter-kept", ADPF, "            self._n_count = self._n_count % self.bufsize\n", "            pass\n", ["C16-f"]),
    M("request-no-reset", ADPF, "            for val in self._el_request():\n                yield val\n            if self._reset:\n                self._el_reset()\n            # it is important that request is not called", "            for val in self._el_request():\n                yield val\n            # it is important that request is not called", ["C16-f"]),
    # construction / wiring
    M("bufsize-unchecked", ADPF, "        if(bufsize != int(bufsize) or bufsize < 1):\n            raise exceptions.LenaValueError(\n                \"bufsize must be a natural number, not {}\".format(bufsize)\n            )\n        self.bufsize = int(bufsize)", "        self.bufsize = int(bufsize)", ["C16-g"]),
    M("bufsize-zero-allowed", ADPF, "        if(bufsize != int(bufsize) or bufsize < 1):", "        if(bufsize != int(bufsize) or bufsize < 0):", ["C16-g"]),
    M("bufsize-valueerror", ADPF, "            raise exceptions.LenaValueError(\n                \"bufsize must be a natural number", "            raise ValueError(\n                \"bufsize must be a natural number", ["C16-g"]),
    M("both-buffers", ADPF, "            if self._buffer_input:\n                self._buffer_in = []\n            else:\n                self._buffer_out = []", "            self._buffer_in = self._buffer_out = []", ["C16-g"]),
    M("mode-from-output", ADPF, "        self._buffer_input = bi\n", "        self._buffer_input = not bo\n", ["C16-g"]),
    M("seq-request-raw", FRSF, "        if self._after:\n            results = self._after.run(vals)\n        else:\n            results = vals", "        results = vals", ["C16-g"]),
    M("seq-own-run", FRSF, "        self.run = fr.run\n", "        self.run = fr._run_fill_compute\n", ["C16-g"]),
    M("seq-drops-kwargs", FRSF, "        fr = adapters.FillRequest(self, **kwargs)", "        fr = adapters.FillRequest(self, bufsize=kwargs.get(\"bufsize\", 1), reset=True, buffer_input=True)", ["C16-g"]),
    # drain/clear and self feed beyond the known findings
    M("buffer-in-never-deleted", ADPF, "                    nfills = 0\n                    del buffer_in[:bufsize]\n", "                    nfills = 0\n", ["C16-b"]),
    # twins
    TW("rr-input-test-reversed", ADPF, "                if len(buffer) < bufsize:", "                if bufsize > len(buffer):"),
    TW("fc-bufsize-local", ADPF, "        while True:\n            # A slice is a non-materialized list, which means\n            # that it will not take place of *bufsize* in memory.\n            slice_ = itertools.islice(flow, self.bufsize)", "        bufsize = self.bufsize\n        while True:\n            slice_ = itertools.islice(flow, bufsize)"),
    TW("request-counter-zero", ADPF, "            self._n_count = self._n_count % self.bufsize\n", "            self._n_count = 0\n"),
    TW("seq-request-direct", FRSF, "        if self._after:\n            results = self._after.run(vals)\n        else:\n            results = vals", "        if self._after:\n            return self._after.run(vals)\n        results = vals"),
    TW("fill-else-branch", ADPF, "                self._buffer_out.extend(self.request())\n                # don't reset because need to know that fill was called\n                # self._n_count = 0\n\n        self._el_fill(value)\n        self._n_count += 1", "                self._buffer_out.extend(self.request())\n        self._el_fill(value)\n        self._n_count = self._n_count + 1" if False else "                self._buffer_out.extend(self.request())\n\n        self._el_fill(value)\n        self._n_count += 1"),
]
